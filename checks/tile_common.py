"""Shared machinery for C07 and C08: run make_pmappings for a micro-spec in-process with the
recording hook (ACCELFORGE_VERIF_RECORD=1: accelforge/util/_verif.py keeps, per pmapping
template, the compiled formulas that drive tile-shape exploration and the table
make_tile_shapes returned), let TLC enumerate every perfectly factorising tile assignment
of every template (spec/MC_TileAssign.tla), evaluate the REAL compiled formulas at every
assignment, and hand the instantiated LoopTrees to spec/Trace_Mapping.tla for execution.
"""
from __future__ import annotations

import json
import os
import traceback
from concurrent.futures import ProcessPoolExecutor
from fractions import Fraction

from checks import mapper_common as mc
from harness import loopnest as ln
from harness import microspec as ms
from harness import tlc as tlcmod
from harness.core import Machinery


def _template_nodes(job):
    out = []
    for n in job.mapping.nodes:
        k = type(n).__name__
        if k in ("Storage", "Toll"):
            for t in n.tensors:
                out.append({"kind": "S", "mem": str(n.component), "t": str(t)})
        elif k == "Temporal":
            ts = n.tile_shape
            out.append({"kind": "T", "rv": str(n.rank_variable),
                        "tile": int(ts) if isinstance(ts, (int, float)) or getattr(ts, "is_Integer", False) else str(ts)})
        elif k == "Reservation":
            continue
        elif k == "Compute":
            out.append({"kind": "C"})
        else:
            out.append({"kind": "?", "type": k})
    return out


def _worker(args):
    w, metrics, knobs, d = args[:4]
    prelude = args[4] if len(args) > 4 else None
    large = args[5] if len(args) > 5 else None      # {"min_assign":, "max_total":}: formula oracle, results reduced here
    try:
        import functools, operator
        import numpy as np
        os.environ["ACCELFORGE_VERIF_RECORD"] = "1"
        from accelforge.frontend.spec import Spec
        from accelforge.mapper import Metrics
        import accelforge.mapper.FFM.main as ffm
        from accelforge.util import _verif
        from accelforge.util.parallel import set_n_parallel_jobs
        set_n_parallel_jobs(1)
        if not _verif.enabled():
            return {"exception": "harness: ACCELFORGE_VERIF hook is not enabled in the worker", "traceback": ""}
        os.makedirs(d, exist_ok=True)
        os.chdir(d)
        tag = "t%d" % os.getpid()
        pa, pw = os.path.join(d, tag + "_a.yaml"), os.path.join(d, tag + "_w.yaml")
        open(pa, "w").write(ms.arch_yaml(w, mc.keep_yaml(w)))
        open(pw, "w").write(ms.workload_yaml(w))
        spec = Spec.from_yaml(pa, pw)
        spec.mapper.metrics = functools.reduce(operator.or_, [getattr(Metrics, m) for m in metrics])
        for k, v in (knobs or {}).items():
            setattr(spec.mapper, k, v)
        if prelude is not None:
            # call history: another spec is mapped first in this process (whatever it leaves in process-wide caches
            # is there when the spec under test is mapped)
            qa, qw = os.path.join(d, tag + "_pa.yaml"), os.path.join(d, tag + "_pw.yaml")
            open(qa, "w").write(ms.arch_yaml(prelude, mc.keep_yaml(prelude)))
            open(qw, "w").write(ms.workload_yaml(prelude))
            spec0 = Spec.from_yaml(qa, qw)
            spec0.mapper.metrics = spec.mapper.metrics
            for k, v in (knobs or {}).items():
                setattr(spec0.mapper, k, v)
            ffm.make_pmappings(spec0, print_progress=False)
        del _verif.RECORDS[:]
        ffm.make_pmappings(spec, print_progress=False)
        recs = list(_verif.RECORDS)
        del _verif.RECORDS[:]
        forms = [p for k, p in recs if k == "tile_shape_formulas"]
        tables = {id(p["job"]): p["df"] for k, p in recs if k == "tile_shape_table"}
        templates, payload = [], {}
        for i, p in enumerate(forms):
            nodes = _template_nodes(p["job"])
            syms = [str(s) for s in p["symbols"]]
            if any(n["kind"] == "?" for n in nodes):
                payload["%d" % i] = {"unsupported": True}
                continue
            outer, bound, last = {}, {}, {}
            for n in nodes:
                if n["kind"] == "T" and isinstance(n["tile"], str):
                    s = n["tile"]
                    outer[s] = last.get(n["rv"], "")
                    bound[s] = w["bound"][n["rv"]]
                    last[n["rv"]] = s
                elif n["kind"] == "T":
                    # a fixed tile shape between symbols would break the chain: only the innermost is fixed
                    last[n["rv"]] = last.get(n["rv"], "")
            if set(outer) != set(syms):
                payload["%d" % i] = {"unsupported": True, "why": "symbols %s vs loops %s" % (syms, sorted(outer))}
                continue
            templates.append({"id": "%d" % i, "syms": syms, "bound": bound, "outer": outer})
            payload["%d" % i] = {"nodes": nodes, "syms": syms, "p": p}
        if large:
            # keep templates whose number of perfect assignments is in the regime asked for; spread the budget evenly
            def nchains(sym_list, bound_of):
                import functools
                @functools.lru_cache(None)
                def cnt(b, k):
                    return 1 if k == 0 else sum(cnt(dv, k - 1) for dv in range(1, b + 1) if b % dv == 0)
                return cnt
            def n_assign(t):
                per_rv = {}
                for s_ in t["syms"]:
                    root = s_
                    while t["outer"][root]:
                        root = t["outer"][root]
                    per_rv.setdefault(root, []).append(s_)
                n = 1
                cnt = nchains(None, None)
                for root, ss in per_rv.items():
                    n *= cnt(t["bound"][root], len(ss))
                return n
            sized = [(n_assign(t), t) for t in templates]
            big = [(n, t) for n, t in sized if n >= large["min_assign"]]
            budget, picked, tot = large["max_total"], [], 0
            step = max(1, int(sum(n for n, _ in big) / max(budget, 1)) + (1 if sum(n for n, _ in big) > budget else 0))
            for i, (n, t) in enumerate(big):
                if i % step == 0 and tot + n <= budget:
                    picked.append(t); tot += n
            n_big = len(big)
            templates = picked
        tp = os.path.join(d, tag + "_templates.json")
        json.dump(templates, open(tp, "w"))
        states = gen = 0
        asg = {}
        if templates:
            res = tlcmod.run("MC_TileAssign", "MC_TileAssign.cfg", workdir=d, env={"TEMPLATES_FILE": tp},
                             coverage=False, workers=2, timeout=900)
            if not res.ok:
                return {"exception": "harness: MC_TileAssign failed: %s" % res.violated, "traceback": res.tail}
            states, gen = res.distinct, res.generated
            for r in res.records:
                asg.setdefault(r["id"], []).append(r["asg"])
        if large:
            out = []
            keep_ids = {t["id"] for t in templates}
            for tid, pl in payload.items():
                if pl.get("unsupported") or tid not in keep_ids:
                    continue
                p, syms = pl["p"], pl["syms"]
                A = sorted(asg.get(tid, []))
                if not A:
                    continue
                cols = [np.array([a[j] for a in A], dtype=np.float32) for j in range(len(syms))]
                ev = lambda f: np.broadcast_to(np.asarray(f(*cols), dtype=np.float64), (len(A),))
                valid = np.ones(len(A), dtype=bool)
                for group in ("compiled_per_memory_usage_df", "compiled_usage_df"):
                    for key, f in p[group].items():
                        valid &= ev(f) <= 1
                tot = {}
                for key, f in p["compiled_df"].items():
                    if key.startswith("Total<SEP>"):
                        tot[key.split("<SEP>")[1]] = ev(f)
                energy = tot.get("energy")
                if energy is None:
                    energy = tot.get("dynamic_energy", 0) + tot.get("leak_energy", 0)
                vec = {"energy": np.asarray(energy, dtype=np.float64) + np.zeros(len(A)), "latency": tot.get("latency")}
                df = tables.get(id(p["job"]))
                rows = []
                if df is not None:
                    for r in range(len(df)):
                        rows.append({c: mc._x(df[c].iloc[r]) for c in df.columns if c.startswith("Total<SEP>")})
                idx = np.nonzero(valid)[0]
                cands, first = {}, {}
                for i_ in idx:
                    key = tuple(float(vec[c][i_]) for c in large["cols"] if vec.get(c) is not None)
                    if key not in cands:
                        cands[key] = 1
                        first[key] = A[int(i_)]
                out.append({"id": tid, "nodes": pl["nodes"], "syms": syms, "n_assignments": len(A), "n_valid": int(valid.sum()),
                            "cands": [[mc._x(x) for x in k] for k in cands], "cand_assignment": [first[k] for k in cands],
                            "table": rows, "n_enumerated_by_code": int(len(p["choices_enumerated"]))})
            return {"templates": out, "tlc_states": states, "tlc_generated": gen, "n_templates": len(payload), "n_big": n_big}
        out = []
        for tid, pl in payload.items():
            if pl.get("unsupported"):
                out.append({"id": tid, "unsupported": True, "why": pl.get("why")})
                continue
            p, syms = pl["p"], pl["syms"]
            A = sorted(asg.get(tid, []))
            cols = [np.array([a[j] for a in A], dtype=np.float32) for j in range(len(syms))]
            vals = {}
            for group in ("compiled_df", "compiled_per_memory_usage_df", "compiled_usage_df"):
                for key, f in p[group].items():
                    v = f(*cols) if cols else f()
                    v = np.broadcast_to(np.asarray(v, dtype=np.float64), (len(A),)) if len(A) else np.zeros(0)
                    vals[key] = [mc._x(x) for x in v]
            df = tables.get(id(p["job"]))
            rows = []
            if df is not None:
                for r in range(len(df)):
                    row = {}
                    for c in df.columns:
                        try:
                            row[c] = mc._x(df[c].iloc[r])
                        except Exception:
                            pass
                    rows.append(row)
            out.append({"id": tid, "nodes": pl["nodes"], "syms": syms, "assignments": A, "formulas": vals,
                        "table": rows, "enumerated_by_code": [[int(x) for x in r] for r in p["choices_enumerated"]]})
        return {"templates": out, "tlc_states": states, "tlc_generated": gen}
    except Exception as e:
        return {"exception": "%s: %s" % (type(e).__name__, e), "traceback": traceback.format_exc()[-3000:]}


def collect(ck, worlds, metrics, knobs=None, nproc=8, preludes=None, large=None):
    d = os.path.join(ck.work, "tiles")
    preludes = preludes or [None] * len(worlds)
    with ProcessPoolExecutor(nproc) as ex:
        outs = list(ex.map(_worker, [(w, metrics, knobs, d, q, large) for w, q in zip(worlds, preludes)]))
    for o in outs:
        ck.evaluations += 1
        if "exception" in o:
            if o["exception"].startswith("harness:"):
                raise Machinery(o["exception"] + "\n" + o["traceback"])
            ck.impl_errors += 1
            if ck.impl_error_sample is None:
                ck.impl_error_sample = {"case": "make_pmappings", "traceback": o["exception"] + "\n" + o["traceback"]}
        else:
            ck.states += o["tlc_states"]
            ck.transitions += o["tlc_generated"]
    return outs


def instantiate(nodes, syms, a):
    m = dict(zip(syms, a))
    return [dict(n, tile=m[n["tile"]]) if n["kind"] == "T" and isinstance(n["tile"], str) else n for n in nodes]


def execute_all(ck, worlds, outs, tag):
    """Trace_Mapping execution of every (template, assignment) instance -> {(wid, tid, k): verdict}."""
    cases, index = [], {}
    for w, o in zip(worlds, outs):
        if "exception" in o:
            continue
        for t in o["templates"]:
            if t.get("unsupported"):
                continue
            for k, a in enumerate(t["assignments"]):
                cid = "%d/%s/%d" % (w["id"], t["id"], k)
                cases.append({"id": cid, "world": w, "nodes": instantiate(t["nodes"], t["syms"], a),
                              "join": {"energy": [0, 1], "latency": [0, 1]}, "model": {"energy": [0, 1], "latency": [0, 1]}})
                index[cid] = (w, t, k)
    v = mc.trace_mapping_verdicts(ck, cases, tag)
    return cases, index, v
