"""C22 — set expressions follow set algebra over each Einsum's tensors.

Spec: spec/SetExpr.tla (named sets DEFINED from a workload record, Eval over the AST
{name, &, |, -, ^, ~}, complement within the Einsum's tensors, the Other-key dictionary
rule), spec/MC_SetExpr.tla (case generators).  Binding B: TLC prints, per case, the
concrete expression strings (fully parenthesised and with only the parentheses Python's
precedence needs) and the set SetExpr!Eval gives; the harness evaluates the strings
through the real front end, `Spec._spec_eval_expressions(einsum_name=...)`, as a memory's
`tensors.tensor_order_options` entries (many per call), `tensors.keep`, `tensors.may_keep`
and as keys of a memory's `bits_per_value` dictionary, and compares sets exactly.
"""
from __future__ import annotations

import json
import multiprocessing
import os
import threading
import time
from concurrent.futures import ProcessPoolExecutor, ThreadPoolExecutor, as_completed

from harness import tlc as _tlc
from harness.core import Check, Machinery

PID = "C22"
BATCH = 400          # expressions per _spec_eval_expressions call (cost grows quadratically)
OTHER_VALUE = 7      # value given to the Other key; key j gets 10 + j
OPCHARS = "&|-^~"
BINOPS = ("&", "|", "-", "^")


def join(tokens):
    """TLC prints an expression as the sequence of its tokens; this is the string."""
    return "".join((" %s " % t) if t in BINOPS else t for t in tokens)


def _norm_w(W):
    return {"ein": W["ein"], "pers": W["pers"],
            "ren": [{"name": r["name"], "src": join(r["src"])} for r in W["ren"]]}


# ---------------------------------------------------------------------------- front end
def _workload(W):
    """Workload record printed by TLC -> accelforge Workload (structural)."""
    from accelforge.frontend.workload import Workload
    pers = set(W["pers"])
    einsums = []
    for i, e in enumerate(W["ein"]):
        acc = [{"name": t, "projection": ["m"], "persistent": t in pers} for t in sorted(e["ins"])]
        acc.append({"name": e["out"], "projection": ["m"], "output": True, "persistent": e["out"] in pers})
        einsums.append({"name": "E%d" % (i + 1), "tensor_accesses": acc,
                        "renames": {r["name"]: r["src"] for r in W["ren"]}})
    return Workload(rank_sizes={"M": 4}, bits_per_value={"All": 8}, einsums=einsums)


_ACT = [{"name": "read", "energy": 1, "latency": 0}, {"name": "write", "energy": 1, "latency": 0}]


def _spec(W, tensors=None, bpv=None):
    from accelforge.frontend.arch import Arch, Compute, Memory
    from accelforge.frontend.spec import Spec
    return Spec(
        arch=Arch(nodes=[
            Memory(name="Main", size=1 << 20, tensors=tensors or {"keep": "All"},
                   bits_per_value=bpv or {}, actions=_ACT, leak_power=0, area=0),
            Compute(name="MAC", actions=[{"name": "compute", "energy": 1, "latency": 1}],
                    leak_power=0, area=0),
        ]),
        workload=_workload(W))


def _as_set(x):
    """Abstraction: evaluated field -> sorted list of names, or ('STR', text) if it was
    left unevaluated (the front end falls back to the literal string on failure)."""
    from accelforge.util._setexpressions import InvertibleSet
    if isinstance(x, InvertibleSet):
        return sorted(x.instance)
    return ["<not evaluated: %s>" % (str(x),)]


def eval_exprs(W, e, strings):
    """Evaluate set-expression strings for Einsum number e of workload W through
    Spec._spec_eval_expressions.  Returns one sorted list per string."""
    out = []
    for i in range(0, len(strings), BATCH):
        part = strings[i:i + BATCH]
        spec = _spec(W, tensors={"keep": "All", "tensor_order_options": [[s] for s in part]})
        ev = spec._spec_eval_expressions(einsum_name="E%d" % e)
        opts = ev.arch.find("Main").tensors.tensor_order_options
        if len(opts) != len(part):
            raise RuntimeError("tensor_order_options changed length")
        out += [_as_set(o[0]) for o in opts]
    return out


def eval_keep(W, e, keep, may_keep):
    spec = _spec(W, tensors={"keep": keep, "may_keep": may_keep})
    ev = spec._spec_eval_expressions(einsum_name="E%d" % e)
    t = ev.arch.find("Main").tensors
    return _as_set(t.keep), _as_set(t.may_keep)


def build_dict(keys, opos):
    """dictionary {key string: value}; Other (if opos > 0) is the opos-th key"""
    items = [(k, 10 + j + 1) for j, k in enumerate(keys)]
    if opos > 0:
        items.insert(opos - 1, ("Other", OTHER_VALUE))
    return dict(items)


def eval_dict(W, e, keys, opos):
    """-> ('ok', {tensor: value}) or ('raised', 'Type: message')"""
    spec = _spec(W, bpv=build_dict(keys, opos))
    try:
        ev = spec._spec_eval_expressions(einsum_name="E%d" % e)
    except Exception as ex:  # noqa
        return "raised", "%s: %s" % (type(ex).__name__, str(ex)[:300])
    got = ev.arch.find("Main").bits_per_value
    return "ok", {str(k): v for k, v in dict(got).items()}


# ---------------------------------------------------------------------------- workers
def _expr_chunk(args):
    """args = (W, e, items, routes) ; items = [(s, m, v)], v the expected list.
    Returns (mismatches, n_evaluations, error_text)"""
    W, e, items = args
    strings, owner = [], []
    for k, (s, m, v) in enumerate(items):
        strings.append(s)
        owner.append((k, "full"))
        if m != s:
            strings.append(m)
            owner.append((k, "min"))
    try:
        got = eval_exprs(W, e, strings)
    except Exception as ex:  # noqa
        import traceback
        return [], 0, "".join(traceback.format_exception(type(ex), ex, ex.__traceback__))[-2500:]
    bad = []
    for (k, form), g, st in zip(owner, got, strings):
        if g != sorted(items[k][2]):
            bad.append((st, form, "tensor_order_options", sorted(items[k][2]), g))
    n = len(strings)
    # the same expressions through the single-expression fields of a memory
    if items:
        a, b = items[0], items[len(items) // 2]
        try:
            gk, gm = eval_keep(W, e, a[0], b[1])
            n += 2
            if gk != sorted(a[2]):
                bad.append((a[0], "full", "keep", sorted(a[2]), gk))
            if gm != sorted(b[2]):
                bad.append((b[1], "min", "may_keep", sorted(b[2]), gm))
        except Exception as ex:  # noqa
            import traceback
            return bad, n, "".join(traceback.format_exception(type(ex), ex, ex.__traceback__))[-2500:]
    return bad, n, None


def _dict_expected(rec):
    exp = {}
    for j, ts in enumerate(rec["asg"]):
        val = 10 + j + 1 if j < len(rec["keys"]) else OTHER_VALUE
        for t in ts:
            exp[t] = val
    return exp


def _dict_chunk(args):
    """args = (W, e, recs) -> (bad, n, errors) ; bad = [(rec index, signature-kind, got)]"""
    W, e, recs = args
    bad, errs = [], []
    for k, r in enumerate(recs):
        status, got = eval_dict(W, e, r["keys"], r["opos"])
        if r["err"]:
            if status != "raised":
                bad.append((k, "overlapping-keys-accepted", got))
        elif status == "raised":
            if "overlap" in got:
                bad.append((k, "disjoint-keys-rejected", got))
            else:
                errs.append((k, got))
        elif got != _dict_expected(r):
            bad.append((k, "wrong-assignment", got))
    return bad, len(recs), errs


# ---------------------------------------------------------------------------- bookkeeping
def _nops(s):
    return sum(s.count(ch) for ch in OPCHARS)


class _Runner:
    def __init__(self, ck: Check, nproc=8):
        self.ck = ck
        ncpu = os.cpu_count() or 1
        self.nproc = max(2, min(nproc, ncpu // 2))
        self.pool = ProcessPoolExecutor(self.nproc, mp_context=multiprocessing.get_context("fork"))
        list(self.pool.map(_spawn, range(self.nproc)))  # fork the workers before any thread exists
        self.warm = [self.pool.submit(_warm, i) for i in range(self.nproc)]  # import while TLC runs
        self.family = None
        self.lock = threading.Lock()
        self.n_expr = 0
        self.n_dict = 0
        self.max_depth_seen = 0

    def close(self):
        self.pool.shutdown()

    # TLC in threads (the processes are external); bookkeeping as Check.tlc does it
    def tlc_many(self, jobs, par):
        """jobs: list of (label, module, cfg, kwargs).  Yields (label, result) as they finish."""
        ck = self.ck

        def one(job):
            label, module, cfg, kw = job
            kw = dict(kw)
            kw.setdefault("workdir", ck.work)
            kw.setdefault("coverage", False)
            kw.setdefault("workers", 1)
            kw["env"] = dict(kw.get("env") or {}, JAVA_TOOL_OPTIONS="-XX:ParallelGCThreads=2")  # shared machine
            return label, _tlc.run(module, cfg, **kw)

        with ThreadPoolExecutor(par) as tp:
            futs = [tp.submit(one, j) for j in jobs]
            for f in as_completed(futs):
                label, res = f.result()
                ck.states += res.distinct
                ck.transitions += res.generated
                ck.tlc_cmds.append(res.cmd)
                for a, (d, g) in res.coverage.items():
                    old = ck.cov.get("%s.%s" % (res.module, a), [0, 0])
                    ck.cov["%s.%s" % (res.module, a)] = [old[0] + d, old[1] + g]
                if label.startswith("roleA"):
                    yield label, res
                    continue
                if not res.ok:
                    raise Machinery("generator %s failed: %s\n%s" % (label, res.violated, res.tail))
                if not res.records:
                    raise Machinery("generator %s printed no cases" % label)
                yield label, res

    def take_family(self, recs):
        fam = [r for r in recs if r.get("k") == "family"]
        if not fam:
            raise Machinery("the generator did not print the workload family")
        fam = fam[0]["family"]
        fam = [_norm_w(W) for W in fam]
        if self.family is not None and self.family != fam:
            raise Machinery("two generator runs disagree about the workload family")
        self.family = fam

    # ---- expressions
    def replay_exprs(self, label, groups):
        """groups: list of (W, e, items)"""
        ck = self.ck
        chunks = []
        for W, e, items in groups:
            for i in range(0, len(items), BATCH):
                chunks.append((W, e, items[i:i + BATCH]))
        for (W, e, items), (bad, n, err) in zip(chunks, self.pool.map(_expr_chunk, chunks)):
            ck.evaluations += n
            ck.traces += len(items)
            self.n_expr += len(items)
            if err is not None:
                ck.impl_errors += len(items)
                ck.evaluations += len(items)
                if ck.impl_error_sample is None:
                    ck.impl_error_sample = {"case": {"W": W, "e": e, "first": items[0][0]}, "traceback": err}
            for (st, form, route, exp, got) in bad:
                kind = "not-evaluated" if (got and got[0].startswith("<not evaluated")) else "wrong-set"
                ck.violation("C22/expr/%s/%s" % (form, kind),
                             "Einsum E%d of workload %s: %r evaluated through %s gives %s, set algebra gives %s"
                             % (e, json.dumps(W["ein"]), st, route, got, exp),
                             {"kind": "expr", "W": W, "e": e, "expr": st, "route": route,
                              "expected": exp, "generator": label})
            wkey = json.dumps(W, sort_keys=True)
            allt = set(W["ein"][e - 1]["ins"]) | {W["ein"][e - 1]["out"]}
            for (s, m, v) in items:
                if _nops(s) >= 1 and 0 < len(v) < len(allt):
                    ck.count_nontrivial((wkey, e, s))
        if chunks:
            W, e, items = chunks[len(chunks) // 2]
            s, m, v = items[len(items) // 2]
            ck.sample({"generator": label, "einsums": W["ein"], "persistent": W["pers"], "renames": W["ren"],
                       "einsum": "E%d" % e, "expr": s, "expr_min_parens": m, "expected": v})

    def exprs_from_family(self, label, recs):
        self.take_family(recs)
        by = {}
        for r in recs:
            if r.get("k") == "expr":
                by.setdefault((r["w"], r["e"]), []).append((join(r["s"]), join(r["m"]), r["v"]))
        self.replay_exprs(label, [(self.family[w - 1], e, items) for (w, e), items in sorted(by.items())])

    def exprs_from_random(self, label, recs):
        groups = []
        for r in recs:
            if r.get("k") == "rexpr":
                groups.append((_norm_w(r["W"]), r["e"],
                               [(join(it["s"]), join(it["m"]), it["v"]) for it in r["items"]]))
                self.max_depth_seen = max([self.max_depth_seen] + [it["d"] for it in r["items"]])
        if not groups:
            raise Machinery("%s printed no random expression case" % label)
        self.replay_exprs(label, groups)

    # ---- dictionaries
    def replay_dicts(self, label, recs):
        ck = self.ck
        by = {}
        for r in recs:
            if r.get("k") == "dict":
                W = self.family[r["w"] - 1]
            elif r.get("k") == "rdict":
                W = _norm_w(r["W"])
            else:
                continue
            r["keys"] = [join(k) for k in r["keys"]]
            if not r["once"]:
                raise Machinery("spec lemma ExactlyOnce fails on %s" % json.dumps(r))
            by.setdefault((json.dumps(W, sort_keys=True), r["e"]), (W, r["e"], []))[2].append(r)
        chunks = []
        for W, e, rs in by.values():
            for i in range(0, len(rs), 100):
                chunks.append((W, e, rs[i:i + 100]))
        if not chunks:
            raise Machinery("%s printed no dictionary case" % label)
        for (W, e, rs), (bad, n, errs) in zip(chunks, self.pool.map(_dict_chunk, chunks)):
            ck.evaluations += n
            ck.traces += n
            self.n_dict += n
            for k, txt in errs:
                ck.impl_errors += 1
                if ck.impl_error_sample is None:
                    ck.impl_error_sample = {"case": {"W": W, "e": e, "dict": build_dict(rs[k]["keys"], rs[k]["opos"])},
                                            "traceback": txt}
            for k, kind, got in bad:
                r = rs[k]
                d = build_dict(r["keys"], r["opos"])
                exp = "error (overlapping keys)" if r["err"] else _dict_expected(r)
                ck.violation("C22/dict/%s" % kind,
                             "Einsum E%d of workload %s: bits_per_value dictionary %s gives %s, the definition gives %s"
                             % (e, json.dumps(W["ein"]), json.dumps(d), got, exp),
                             {"kind": "dict", "W": W, "e": e, "keys": r["keys"], "opos": r["opos"],
                              "err": r["err"], "asg": r["asg"], "generator": label})
            wkey = json.dumps(W, sort_keys=True)
            for r in rs:
                if len(r["keys"]) >= 2 or (r["opos"] > 0 and r["other"] and r["keys"]):
                    ck.count_nontrivial((wkey, e, tuple(r["keys"]), r["opos"]))
        W, e, rs = chunks[len(chunks) // 2]
        r = rs[len(rs) // 2]
        ck.sample({"generator": label, "einsums": W["ein"], "einsum": "E%d" % e,
                   "dictionary": build_dict(r["keys"], r["opos"]),
                   "expected": "error (overlapping keys)" if r["err"] else _dict_expected(r)})


def _spawn(i):
    time.sleep(0.3)  # keeps the worker busy so that the executor forks all of them now
    return os.getpid()


def _warm(i):
    import accelforge
    import accelforge.frontend.spec  # noqa
    return os.path.dirname(accelforge.__file__)


def run(ck: Check):
    thorough = ck.tier == "thorough"
    seed = ck.seed
    ck.rule = (
        "TLC (spec/MC_SetExpr.tla) enumerates expression trees over {name, &, |, -, ^, ~}: every tree of depth <= 2 "
        "over all 15 names for every (workload, Einsum) of a 9-workload family; every tree of depth <= 3 over a 4-name "
        "alphabet for 1 (workload, Einsum) pair (quick) / 7-name alphabets for 3 pairs x 2 alphabets (thorough), pairs "
        "selected by VERIF_SEED; random trees of "
        "depth <= 4 and <= 5 over random workloads of 1-4 Einsums (-simulate). Dictionaries: all 0-2 key dictionaries "
        "over <= 18 keys with Other absent / in every position (1 pair quick, all 20 thorough), and random 0-3 key "
        "dictionaries. Expected set / "
        "assignment / 'error' = SetExpr!Eval, Assign, Overlap evaluated by TLC. Each string is evaluated in its fully "
        "parenthesised and its minimally parenthesised (Python precedence) form. Non-trivial expression = at least one "
        "operator and a result that is a non-empty proper subset of the Einsum's tensors, distinct by (workload, "
        "Einsum, string); non-trivial dictionary = at least two keys, or a key plus a non-empty Other, distinct by "
        "(workload, Einsum, keys, position of Other).")
    ck.trusted += [
        "checks/c22.py _workload/_spec: structural translation of the workload record into accelforge objects "
        "(tensor t -> TensorAccess(name=t, projection=[m]); flag pers -> persistent=True; renames as Einsum-local renames)",
        "dictionary values: key j gets 10+j, Other gets 7 (injective labelling)",
        "Python's parser for the minimally parenthesised form: spec/SetExpr.tla Min encodes Python's precedence "
        "(| < ^ < & < - < ~, left associative)",
    ]
    ck.assumptions += [
        "Persistent is specified by per-access `persistent` flags (workload.persistent_tensors is not used: the named "
        "set Persistent does not see it, see DESIGN notes)",
        "no Einsum reads its own output; rename sources use only named sets (a tensor name that is not in the Einsum "
        "is undefined inside a rename source, although it is the empty set in architecture expressions)",
    ]
    R = _Runner(ck, nproc=8 if thorough else 4)
    try:
        npairs = 20
        p1 = (3 * seed + 1) % npairs + 1
        p2 = (3 * seed + 8) % npairs + 1
        jobs = []
        if not thorough:
            # one TLC run: depth <= 2 for the family, depth <= 3 for one pair, dictionaries of one pair
            jobs.append(("quick:pair%d:alpha%d:dictpair%d" % (p1, 2 + seed % 2, p2), "MC_SetExpr", "MC_SetExpr_quick.cfg",
                         {"env": {"C22_PAIR": p1, "C22_PAIR2": p2, "C22_ALPHA": 2 + seed % 2}, "timeout": 1500}))
            nrand = 1000
        else:
            jobs.append(("d2", "MC_SetExpr", "MC_SetExpr_d2.cfg", {"timeout": 1500}))
            for p, a in [((3 * seed + 1 + 5 * i) % npairs + 1, a) for i in range(3) for a in (0, 1)]:
                jobs.append(("d3:pair%d:alpha%d" % (p, a), "MC_SetExpr", "MC_SetExpr_d3.cfg",
                             {"env": {"C22_PAIR": p, "C22_ALPHA": a}, "timeout": 3000}))
            jobs.append(("dict:all", "MC_SetExpr", "MC_SetExpr_dict.cfg", {"timeout": 3000}))
            nrand = 8000
        jobs.append(("rand", "MC_SetExpr", "MC_SetExpr_rand.cfg",
                     {"simulate": "num=1", "timeout": 3000, "depth": nrand, "seed": seed * 1000 + 4}))
        # role A: the dictionary algorithm as a transition system (spec/SetExprOtherAlg.tla)
        # (it does not depend on the code under test; run in the thorough tier only, the quick tier must stay
        # short on a shared machine)
        if thorough:
            jobs.append(("roleA:other-last", "SetExprOtherAlg", "SetExprOtherAlg_last.cfg",
                         {"coverage": True, "workers": 2, "timeout": 1500}))
            jobs.append(("roleA:dict-order", "SetExprOtherAlg", "SetExprOtherAlg_dictorder.cfg",
                         {"coverage": True, "workers": 2, "timeout": 1500}))
        # longest first
        jobs.sort(key=lambda j: 0 if j[0].startswith("d3") else 1)
        timing, roleA = {}, {}
        for label, res in R.tlc_many(jobs, par=6):
            recs = res.records
            t0 = time.time()
            if label == "roleA:other-last":
                if not res.ok:
                    raise Machinery("role A: evaluating Other last must satisfy Correct, TLC reports %s\n%s"
                                    % (res.violated, res.tail))
                for a in ("EvalKey", "EvalOther", "CheckDisjoint"):
                    if res.coverage.get(a, (0, 0))[1] == 0:
                        raise Machinery("vacuity: action %s of SetExprOtherAlg was never taken" % a)
                roleA["other_last"] = "Correct holds in %d states" % res.distinct
            elif label == "roleA:dict-order":
                if res.ok or "Correct" not in (res.violated or ""):
                    raise Machinery("role-A lemma: evaluating Other in dictionary order must violate Correct, "
                                    "but TLC reports %s" % res.violated)
                roleA["dict_order"] = res.violated
            elif label.startswith("quick"):
                R.exprs_from_family(label, recs)
                R.replay_dicts(label, recs)
            elif label == "d2" or label.startswith("d3"):
                R.exprs_from_family(label, recs)
            elif label.startswith("dict"):
                R.take_family(recs)
                R.replay_dicts(label, recs)
            elif label == "rand":
                R.exprs_from_random(label, recs)
                R.replay_dicts(label, recs)
            timing[label] = {"tlc_s": round(res.wall_s, 1), "cases": max(len(recs) - 1, 0),
                             "replay_s": round(time.time() - t0, 1)}
            del recs, res
        ck.extra["timing"] = timing
        ck.extra["role_A"] = "run in the thorough tier only" if not thorough else ("SetExprOtherAlg: subtracting every evaluated key from a running remainder and evaluating "
                              "Other last satisfies Correct (= SetExpr!Overlap/Assign/ExactlyOnce) for all dictionaries "
                              "of <= 3 keys over 3 tensors (%s); evaluating Other in dictionary order violates it (%s)"
                              % (roleA.get("other_last"), roleA.get("dict_order", "lemma run in the thorough tier only")))
    finally:
        R.close()
    if R.n_expr == 0 or R.n_dict == 0:
        raise Machinery("no expression or no dictionary case was replayed")
    if R.max_depth_seen < 4:
        raise Machinery("vacuity: no random tree of depth >= 4 was generated")
    ck.extra["accelforge_path"] = R.warm[0].result()
    ck.exhaustive = False
    ck.extra["exhaustive_parts"] = [j[0] for j in jobs if j[0].startswith(("quick", "d2", "d3", "dict"))]
    ck.extra["expression_cases"] = R.n_expr
    ck.extra["dictionary_cases"] = R.n_dict
    ck.extra["max_random_tree_depth"] = R.max_depth_seen


def replay(path):
    rec = json.load(open(path))
    W, e = rec["W"], rec["e"]
    print("workload:", json.dumps(W))
    if rec["kind"] == "expr":
        if rec["route"] == "tensor_order_options":
            got = eval_exprs(W, e, [rec["expr"]])[0]
        else:
            k, m = eval_keep(W, e, rec["expr"], rec["expr"])
            got = k if rec["route"] == "keep" else m
        print("Einsum E%d, expression %r through %s" % (e, rec["expr"], rec["route"]))
        print("implementation:", got)
        print("definition    :", sorted(rec["expected"]))
        bad = got != sorted(rec["expected"])
    else:
        status, got = eval_dict(W, e, rec["keys"], rec["opos"])
        print("Einsum E%d, bits_per_value dictionary %s" % (e, json.dumps(build_dict(rec["keys"], rec["opos"]))))
        print("implementation:", status, got)
        if rec["err"]:
            print("definition    : error (overlapping keys)")
            bad = status != "raised"
        else:
            exp = _dict_expected(rec)
            print("definition    :", exp)
            bad = status != "ok" or got != exp
    if bad:
        print("VIOLATION property=C22 replay=%s" % path)
        return 1
    print("no disagreement on this case")
    return 0
