"""C30 -- network transfer costs match route enumeration.

Spec: spec/Network.tla (packets routed hop by hop on a line / through a switch, per-link
counters), spec/MC_Network.tla (case sets, printed record).

Role A: TLC explores every interleaving of Replicate/Deliver/Inject/Hop for small fanouts and
checks that the terminal per-link counters and the hop count do not depend on the routing
order (invariant Confluent) and that a shared value never crosses a link twice.
Binding B: for every fanout <= 32, stride <= 8, both topologies, multicast and unicast and the
tier's volumes, TLC routes all packets with one fixed schedule and prints total_hops (number of
Hop steps) and max_traffic (largest per-link counter); each record is replayed into
get_topology_model(topology).per_loop_transfer_cost(...) with a non-distributed source and
compared exactly (Fraction) on total_cost and max_traffic -- the two quantities the property
names.  max_hops is not part of the property and is not compared.
"""
from __future__ import annotations

import json
import os

from harness.core import Check, Machinery, frac

TOPO = {"mesh": "mesh", "switch": "all_to_all"}


def _impl(topo, mode, n, s, v):
    """Drive the real code for one case; returns (total_cost, max_traffic) as found."""
    from accelforge.frontend import arch
    from accelforge.frontend.arch.components import TopologySpec
    from accelforge.frontend._workload_isl._symbolic import Irrelevant, Relevant
    from accelforge.model._looptree.reuse.symbolic._network import get_topology_model
    # a real arch component without physical distribution = the non-distributed source
    src = arch.Memory(name="Src", size=1)
    if src._get_physical_fanout_along("X") != 1:
        raise Machinery("a fresh Memory component is unexpectedly physically distributed")
    relevancy = Irrelevant() if mode == "multicast" else Relevant("r")
    model = get_topology_model(TopologySpec(TOPO[topo]))
    cost = model.per_loop_transfer_cost(relevancy, shape_repeats=n, last_fanout=s, volume=v,
                                        src_component=src, dim_name="X")
    return cost.total_cost, cost.max_traffic


def _signature(rec, bad_hops, bad_traffic, got_traffic):
    field = "total_hops+max_traffic" if (bad_hops and bad_traffic) else \
        ("total_hops" if bad_hops else "max_traffic")
    sig = "C30/%s/%s/%s" % (rec["topo"], rec["mode"], field)
    if rec["n"] == 1:
        # a fanout of one: nothing leaves the source
        if (not bad_hops) and rec["max_traffic"] == 0 and got_traffic == rec["v"]:
            sig += "/fanout-1-reports-volume-on-a-link-though-nothing-moves"
        else:
            sig += "/fanout-1"
    return sig


def _volume_sets(ck: Check):
    if ck.tier == "thorough":
        extra = 4 + ck.seed % 4                       # 4..7
        return [{"nmax": 32, "smax": 8, "volumes": [1, 2, 3]},
                {"nmax": 12, "smax": 8, "volumes": [extra]}]
    extra = 2 + ck.seed % 4                           # 2..5, differs by seed
    return [{"nmax": 32, "smax": 8, "volumes": [1]},
            {"nmax": 10, "smax": 8, "volumes": [extra]}]


def run(ck: Check):
    thorough = ck.tier == "thorough"
    ck.rule = ("cases (topology, multicast/unicast, fanout n, stride s, volume v) are enumerated by TLC from "
               "spec/MC_Network.tla (CasesGen: every n<=32, s<=8, both topologies, both modes, volumes of the tier); "
               "expected total_hops / max_traffic = counters of the terminal state after routing every packet hop by "
               "hop (Network!DetSpec). Non-trivial = fanout >= 2 (data actually crosses a link); distinct by the "
               "5-tuple.")
    ck.trusted += ["mapping of the abstract case to the call: mesh->TopologySpec.MESH, switch->ALL_TO_ALL, "
                   "multicast->Irrelevant(), unicast->Relevant(rank), n->shape_repeats, s->last_fanout, v->volume, "
                   "source = arch.Memory without physical fanout (checks/c30.py:_impl)"]
    ck.assumptions += ["volume is an integer number of unit-size values (the spec moves whole packets); fractional "
                       "actions-per-value are not generated",
                       "one hop on the switch = one traversal of the switch towards a destination link "
                       "(the property's 'every delivery is one hop'); the source's own link to the switch counts "
                       "for link traffic only"]
    params = os.path.join(ck.work, "params.json")
    sets = _volume_sets(ck)
    with open(params, "w") as f:
        json.dump({"sets": sets}, f)
    env = {"PARAM_FILE": params, "JAVA_TOOL_OPTIONS": "-XX:ParallelGCThreads=2"}

    import time
    T = {}
    t0 = [time.time()]

    def lap(name):
        T[name] = round(time.time() - t0[0], 1)
        t0[0] = time.time()
    ck.extra["phase_wall_s"] = T
    # ---- role A: all interleavings
    acts = ("Replicate", "Deliver", "Inject", "Hop")
    cfgs = ["MC_Network_small.cfg", "MC_Network_mid.cfg"] if thorough else ["MC_Network_quick.cfg"]
    ra = []
    for cfg in cfgs:
        res = ck.tlc_expect_ok("MC_Network", cfg, env=env, required_actions=acts, timeout=2400, workers=6)
        ra.append("%s: %d distinct states" % (cfg, res.distinct))
    lap("role_A_tlc")
    nonvac = "not run in the quick tier"
    if thorough:
        res = ck.tlc("MC_Network", "MC_Network_anywhere.cfg", env=env, timeout=600, workers=2)
        if res.ok or "SharedValueOncePerLink" not in (res.violated or ""):
            raise Machinery("non-vacuity lemma: with copies split off anywhere a shared value must cross a link "
                            "twice, but TLC reports: %s" % (res.violated,))
        nonvac = res.violated
    ck.extra["role_A"] = ("Network!Spec, every interleaving of Replicate/Deliver/Inject/Hop (%s): TypeOK, NoStuckPacket, "
                          "HopsAreLinkCrossings, SharedValueOncePerLink, AllDelivered and Confluent (terminal link "
                          "vector and hop count equal those of the fixed schedule => routing order is irrelevant) hold; "
                          "non-vacuity run with ReplicateAnywhere=TRUE: %s" % ("; ".join(ra), nonvac))

    lap("nonvacuity_tlc")
    # ---- binding B: the fixed schedule on the whole quantifier, replayed into the implementation
    res = ck.tlc("MC_Network", "MC_Network_gen.cfg", env=env, coverage=False, timeout=3000, workers=6)
    if not res.ok:
        raise Machinery("generator failed: %s\n%s" % (res.violated, res.tail))
    lap("generator_tlc")
    want = sum(4 * p["nmax"] * p["smax"] * len(p["volumes"]) for p in sets)
    recs = res.records
    if len(recs) != want:
        raise Machinery("generator printed %d cases, expected %d" % (len(recs), want))
    recs.sort(key=lambda r: (r["topo"], r["mode"], r["n"], r["s"], r["v"]))
    for rec in recs:
        n, s, v = rec["n"], rec["s"], rec["v"]
        if rec["delivered"] != n * v:
            raise Machinery("spec did not deliver everything in %r" % rec)
        ck.traces += 1
        ck.evaluations += 1
        try:
            tc, mt = _impl(rec["topo"], rec["mode"], n, s, v)
            got_h, got_t = frac(tc), frac(mt)
        except Machinery:
            raise
        except Exception as e:  # noqa
            ck.impl_error(e, rec)
            continue
        if n >= 2:
            ck.count_nontrivial((rec["topo"], rec["mode"], n, s, v))
        bad_h = got_h != rec["total_hops"]
        bad_t = got_t != rec["max_traffic"]
        if bad_h or bad_t:
            sig = _signature(rec, bad_h, bad_t, got_t)
            ck.violation(
                sig,
                "%s %s fanout=%d stride=%d volume=%d: per_loop_transfer_cost reports total_cost=%s max_traffic=%s; "
                "routing every value gives total_hops=%d max_traffic=%d"
                % (rec["topo"], rec["mode"], n, s, v, tc, mt, rec["total_hops"], rec["max_traffic"]),
                {"case": {k: rec[k] for k in ("topo", "mode", "n", "s", "v")},
                 "expected_total_hops": rec["total_hops"], "expected_max_traffic": rec["max_traffic"]})
    lap("replay_into_implementation")
    want_samples = {("mesh", "multicast", 4, 2), ("mesh", "unicast", 32, 8), ("switch", "unicast", 5, 3),
                    ("switch", "multicast", 7, 1)}
    for r in recs:
        if (r["topo"], r["mode"], r["n"], r["s"]) in want_samples and r["v"] == sets[0]["volumes"][-1]:
            ck.sample({"case": {k: r[k] for k in ("topo", "mode", "n", "s", "v")},
                       "expected_total_hops": r["total_hops"], "expected_max_traffic": r["max_traffic"]})
    ck.exhaustive = True
    ck.extra["exhaustive_over"] = sets
    ck.extra["not_compared"] = "PerLoopTransferCost.max_hops (not named by the property)"


def _known_signatures():
    out = {}
    d = os.path.join(os.path.dirname(os.path.dirname(os.path.abspath(__file__))), "known_findings.d")
    files = [os.path.join(os.path.dirname(d), "known_findings.json")]
    if os.path.isdir(d):
        files += [os.path.join(d, f) for f in sorted(os.listdir(d)) if f.endswith(".json")]
    for fn in files:
        if os.path.exists(fn):
            for f in json.load(open(fn)).get("findings", []):
                if f.get("property") == "C30" and f.get("status") == "open":
                    out[f["signature"]] = f.get("what", "")
    return out


def replay(path):
    rec = json.load(open(path))
    c = rec["case"]
    tc, mt = _impl(c["topo"], c["mode"], c["n"], c["s"], c["v"])
    print("case", c)
    print("implementation: total_cost=%s max_traffic=%s" % (tc, mt))
    print("route enumeration (TLC): total_hops=%s max_traffic=%s"
          % (rec["expected_total_hops"], rec["expected_max_traffic"]))
    bad_h = frac(tc) != rec["expected_total_hops"]
    bad_t = frac(mt) != rec["expected_max_traffic"]
    if bad_h or bad_t:
        sig = _signature(dict(c, max_traffic=rec["expected_max_traffic"]), bad_h, bad_t, frac(mt))
        known = _known_signatures()
        if sig in known:
            print("KNOWN-FINDING: property=C30 %s [signature=%s]" % (known[sig], sig))
            return 0
        print("VIOLATION property=C30 replay=%s" % path)
        return 1
    print("no disagreement on this case")
    return 0
