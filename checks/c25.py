"""C25 — architecture flattening yields exactly the root-to-compute path.

Spec: spec/ArchTree.tla.  TLC enumerates (model checking) or draws (-simulate) well-formed
architecture trees over {Memory, Toll, Container, Compute, Fork, Hierarchical} and prints, per
tree, the tree and -- from the definition ArchTree!Path -- the expected flattened architecture
of every compute (names, top-down).  Binding B: the harness builds the real Arch objects,
calls Spec._get_flattened_architecture(compute_node=c) for every compute (and once without
argument) and compares the name lists exactly.  Role A: _flatten as coded (FlatFrom) and the
hierarchical iterator (Visit* actions) are model-checked against the same definition.

This module also holds what C26 shares with C25 (tree construction, the replay pool, the
role-A runs); checks/c26.py imports it from here.
"""
from __future__ import annotations

import json
import os
import time
from concurrent.futures import ProcessPoolExecutor

from harness.core import Check, Machinery

MODULE = "ArchTree"


# ----------------------------------------------------------------------------- tree construction
def build_arch_nodes(nodes):
    """Abstraction function (structural): preorder list of {name,k,f,d,area,leak} -> nested list of
    real accelforge node objects.  Every component gets integer area / leak_power and the actions
    its constructor wants; a fanout f is one spatial dimension of size f (no `spatial` entry for
    f = 1 on odd positions, an explicit fanout-1 dimension on even positions)."""
    from accelforge.frontend.arch import Fork, Hierarchical, Memory, Compute, Container, Toll

    def spatial(i, n):
        if n["f"] == 1 and i % 2 == 1:
            return []
        return [{"name": "s_" + n["name"], "fanout": n["f"]}]

    def leaf(i, n):
        k = n["k"]
        if k == "Memory":
            return Memory(name=n["name"], size=64, area=n["area"], leak_power=n["leak"], spatial=spatial(i, n),
                          actions=[{"name": "read", "energy": 1, "throughput": 1},
                                   {"name": "write", "energy": 1, "throughput": 1}])
        if k == "Toll":
            return Toll(name=n["name"], direction="down", area=n["area"], leak_power=n["leak"],
                        spatial=spatial(i, n), actions=[{"name": "read", "energy": 1, "throughput": 1}])
        if k == "Container":
            return Container(name=n["name"], spatial=spatial(i, n))
        if k == "Compute":
            return Compute(name=n["name"], area=n["area"], leak_power=n["leak"], spatial=spatial(i, n),
                           actions=[{"name": "compute", "energy": 1, "throughput": 1}])
        raise Machinery("unknown leaf kind %r" % k)

    # children lists by depth; stack[d-1] is the list that nodes of depth d are appended to
    root = []
    stack = [root]
    pending = []  # (depth, kind, children) of open branches, innermost last

    def close_to(depth):
        while pending and pending[-1][0] >= depth:
            d, k, ch = pending.pop()
            stack.pop()
            obj = (Fork if k == "Fork" else Hierarchical)(nodes=ch)
            stack[-1].append(obj)

    for i, n in enumerate(nodes, start=1):
        close_to(n["d"])
        if len(stack) != n["d"]:
            raise Machinery("malformed depth sequence in case: %r" % [x["d"] for x in nodes])
        if n["k"] in ("Fork", "Hierarchical"):
            ch = []
            pending.append((n["d"], n["k"], ch))
            stack.append(ch)
        else:
            stack[-1].append(leaf(i, n))
    close_to(1)
    return root


def make_spec(nodes):
    from accelforge.frontend.spec import Spec
    from accelforge.frontend.arch import Arch
    return Spec(arch=Arch(nodes=build_arch_nodes(nodes)))


def tree_str(nodes):
    return " ".join("%s%s:%s%s" % ("." * (n["d"] - 1), n["name"], n["k"][:4],
                                   ("x%d" % n["f"]) if n["k"] not in ("Fork", "Hierarchical") else "")
                    for n in nodes)


# ----------------------------------------------------------------------------- C25 comparison
def compare25(rec):
    """-> (findings, info).  findings: list of (signature, detail).  Raises only for failures
    that happen before the function under test is reached (counted as impl errors)."""
    nodes = rec["nodes"]
    kind = {n["name"]: n["k"] for n in nodes}
    spec = make_spec(nodes)
    ev = spec._spec_eval_expressions()
    findings = []
    evals = 0

    def diff_sig(exp, got):
        extra = [x for x in got if x not in exp]
        missing = [x for x in exp if x not in got]
        if not extra and not missing:
            return "C25/order"
        parts = []
        if extra:
            parts.append("extra-" + "+".join(sorted({kind.get(x, "unknown") for x in extra})))
        if missing:
            parts.append("missing-" + "+".join(sorted({kind.get(x, "unknown") for x in missing})))
        return "C25/" + "/".join(parts)

    for p in rec["paths"]:
        c, exp = p["c"], list(p["path"])
        evals += 1
        try:
            got = [n.name for n in ev._get_flattened_architecture(compute_node=c)]
        except Exception as e:  # the flattened architecture of an existing compute must exist
            findings.append(("C25/raises-" + type(e).__name__,
                             "_get_flattened_architecture(compute_node=%r) raises %s: %s on %s; expected %s"
                             % (c, type(e).__name__, str(e)[:200], tree_str(nodes), exp)))
            continue
        if got != exp:
            findings.append((diff_sig(exp, got),
                             "_get_flattened_architecture(compute_node=%r) = %s, the definition gives %s; tree: %s"
                             % (c, got, exp, tree_str(nodes))))
    # the form without argument: one flattened architecture per compute
    evals += 1
    try:
        allp = [[n.name for n in f] for f in ev._get_flattened_architecture()]
    except Exception as e:
        findings.append(("C25/all-raises-" + type(e).__name__,
                         "_get_flattened_architecture() raises %s: %s on %s" % (type(e).__name__, str(e)[:200],
                                                                                tree_str(nodes))))
        allp = None
    if allp is not None:
        exp_all = sorted(list(p["path"]) for p in rec["paths"])
        if sorted(allp) != exp_all:
            findings.append(("C25/all-paths-differ",
                             "_get_flattened_architecture() = %s, the definition gives %s; tree: %s"
                             % (allp, exp_all, tree_str(nodes))))
    return findings, {"evals": evals}


def nontrivial25(rec):
    """some compute has a leaf or compute before it that is NOT on its path (exclusion matters)"""
    idx = {n["name"]: i for i, n in enumerate(rec["nodes"])}
    for p in rec["paths"]:
        before = [n for n in rec["nodes"][:idx[p["c"]]] if n["k"] not in ("Fork", "Hierarchical")]
        if len(before) > len(p["path"]) - 1:
            return True
    return False


# ----------------------------------------------------------------------------- replay pool
def _worker_init():
    import warnings
    warnings.filterwarnings("ignore")
    import accelforge.frontend.spec  # noqa  (import once per worker)


def _eval_chunk(args):
    which, recs = args
    import traceback
    if which == "C25":
        cmp_, nt = compare25, nontrivial25
    else:
        from checks import c26
        cmp_, nt = c26.compare26, c26.nontrivial26
    out = []
    for k, rec in enumerate(recs):
        try:
            findings, info = cmp_(rec)
            out.append((k, findings, info, None, nt(rec)))
        except Exception as e:  # noqa
            out.append((k, [], {"evals": 1}, "".join(traceback.format_exception(type(e), e, e.__traceback__))[-2500:],
                        False))
    return out


def _noop(i):
    time.sleep(0.05)
    return i


class Replayer:
    """Replays TLC records into accelforge in worker processes while TLC generates the next batch."""

    def __init__(self, ck: Check, which: str, nproc: int):
        self.ck, self.which = ck, which
        self.pool = ProcessPoolExecutor(nproc, initializer=_worker_init)
        # Fork every worker NOW, while this process is still single-threaded: a fork that happens while another
        # thread (RoleA) is inside subprocess.Popen can deadlock the child on Popen's inherited pipe (this hung the
        # whole check for hours in a fresh-sandbox run).
        list(self.pool.map(_noop, range(4 * nproc)))
        self.futs = []
        self.info = {}

    def submit(self, recs, label, chunk=400):
        for i in range(0, len(recs), chunk):
            part = recs[i:i + chunk]
            self.futs.append((label, part, self.pool.submit(_eval_chunk, (self.which, part))))

    def collect(self):
        ck = self.ck
        for label, part, fut in self.futs:
            for (k, findings, info, err, nt) in fut.result():
                rec = part[k]
                ck.traces += 1
                ck.evaluations += info.get("evals", 1)
                for key, val in info.items():
                    if key != "evals":
                        self.info[key] = self.info.get(key, 0) + val
                if err is not None:
                    ck.impl_errors += 1
                    if ck.impl_error_sample is None:
                        ck.impl_error_sample = {"case": tree_str(rec["nodes"]), "traceback": err}
                    continue
                if nt:
                    ck.count_nontrivial(json.dumps(rec["nodes"], sort_keys=True))
                for sig, detail in findings:
                    ck.violation(sig, detail, {"record": rec, "generator": label})
        self.futs = []
        self.pool.shutdown()


def nproc_for(ck):
    return 4 if ck.tier == "quick" else 8


# ----------------------------------------------------------------------------- role A
class RoleA:
    """The algorithms as transition systems, checked by TLC against the definitions.  The TLC runs
    are started in a background thread (they do not depend on the generators); `finish` does the
    bookkeeping and the verdicts in the main thread."""

    def __init__(self, ck: Check, which: str):
        import threading
        from harness import tlc as _tlc
        self.ck = ck
        t = "t" if ck.tier == "thorough" else "q"
        bad_parents = ("MC_ArchTree_iter_coded_parents.cfg",
                       "iterator as coded (appends Compute leaves): YieldedParentsAreAncestors")
        bad_costs = ("MC_ArchTree_iter_coded_costs.cfg", "iterator + cost loop as coded: CostsCorrect")
        self.plan = [("MC_ArchTree_iter_fixed_%s.cfg" % t, None),
                     bad_parents if which == "C25" else bad_costs]
        if ck.tier == "thorough":
            self.plan += [
                bad_costs if which == "C25" else bad_parents,
                ("MC_ArchTree_iter_noown_costs.cfg", "repaired iterator, own fanout still not counted: CostsCorrect"),
                ("MC_ArchTree_iter_sib_costs.cfg", "own fanout counted, iterator as coded: CostsCorrect"),
                ("MC_ArchTree_iter_alias.cfg", "any variant, list object read after the iteration: "
                                               "RetainedParentsAreAncestors"),
            ]
        self.results = []
        self.error = None

        def work():
            try:
                for cfg, _ in self.plan:
                    t0 = time.time()
                    r = _tlc.run(MODULE, cfg, workdir=os.path.join(ck.work, "roleA"), workers=4, timeout=2400)
                    self.results.append((cfg, r, round(time.time() - t0, 1)))
            except BaseException as e:  # noqa  (re-raised in finish)
                self.error = e

        self.thread = threading.Thread(target=work, daemon=True)
        self.thread.start()

    def finish(self):
        ck = self.ck
        self.thread.join()
        if self.error is not None:
            raise self.error
        msgs = []
        for (cfg, what), (_, r, wall) in zip(self.plan, self.results):
            # the bookkeeping ck.tlc would have done
            ck.states += r.distinct
            ck.transitions += r.generated
            for a, (d, g) in r.coverage.items():
                k = "%s.%s" % (MODULE, a)
                old = ck.cov.get(k, [0, 0])
                ck.cov[k] = [old[0] + d, old[1] + g]
            ck.tlc_cmds.append(r.cmd)
            ck.extra.setdefault("phase_wall_s", {})[cfg] = wall
            if what is None:
                if not r.ok:
                    raise Machinery("TLC reports a problem in the design-level run %s: %s\n%s" % (cfg, r.violated, r.tail))
                for a in ("Grow", "Start", "VisitLeaf", "VisitHier", "VisitFork"):
                    if r.coverage.get(a, (0, 0))[1] == 0:
                        raise Machinery("vacuity: action %s was never taken in %s" % (a, cfg))
                msgs.append("iterator that does not append Compute leaves + cost loop that multiplies in the own "
                            "fanout: AllLeavesYielded, YieldedParentsAreAncestors, CostsCorrect, FlattenIsPath (the "
                            "_flatten recursion as coded equals Path), GrowIsPrefixOK, FullIsWF hold on %d states"
                            % r.distinct)
            else:
                if r.ok or "is violated" not in (r.violated or ""):
                    raise Machinery("role-A lemma: %s must be violated, but TLC says %s (%s); the model is too weak\n%s"
                                    % (what, "ok" if r.ok else r.violated, cfg, r.tail))
                msgs.append("%s is violated (counterexample found by TLC)" % what)
        ck.extra["role_A"] = "; ".join(msgs)


def generator_plan(ck: Check, tag: str):
    """(cfg, tlc kwargs, exhaustive?)"""
    w = {"workers": 4}
    if ck.tier == "quick":
        plan = [("MC_ArchTree_%s_full4q.cfg" % tag, w, True),
                ("MC_ArchTree_%s_s5.cfg" % tag, w, True)]
        nrand, depth = 1, 150
    else:
        plan = [("MC_ArchTree_%s_full4.cfg" % tag, w, True),
                ("MC_ArchTree_%s_s5.cfg" % tag, w, True),
                ("MC_ArchTree_%s_s6.cfg" % tag, w, True),
                ("MC_ArchTree_%s_s7.cfg" % tag, w, True),
                ("MC_ArchTree_%s_full5.cfg" % tag, {"workers": 8}, True)]
        nrand, depth = 4, 1000
    for i in range(nrand):
        plan.append(("MC_ArchTree_%s_rand.cfg" % tag,
                     {"simulate": "num=1", "depth": depth, "seed": ck.seed * 1000 + i + 1, "workers": 1}, False))
    return plan


def run_generators(ck: Check, tag: str, which: str, sample_fn):
    rp = Replayer(ck, which, nproc_for(ck))
    ra = RoleA(ck, which)
    try:
        parts = []
        for cfg, kw, exh in generator_plan(ck, tag):
            t0 = time.time()
            res = ck.tlc(MODULE, cfg, timeout=3000, coverage=False, **kw)
            ck.extra.setdefault("phase_wall_s", {})[cfg + ("" if exh else " seed=%s" % kw.get("seed"))] = \
                round(time.time() - t0, 1)
            if not res.ok:
                raise Machinery("generator %s failed: %s\n%s" % (cfg, res.violated, res.tail))
            if not res.records:
                raise Machinery("generator %s printed no cases" % cfg)
            label = cfg + ("" if exh else " seed=%s" % kw.get("seed"))
            rp.submit(res.records, label)
            parts.append({"cfg": label, "trees": len(res.records), "exhaustive": exh})
            for r in (res.records[len(res.records) // 3], res.records[-1]):
                ck.sample(sample_fn(r, label), limit=6)
        ck.extra["generators"] = parts
        ck.extra["exhaustive_parts"] = [p["cfg"] for p in parts if p["exhaustive"]]
        ra.finish()
    finally:
        t0 = time.time()
        rp.collect()
        ck.extra.setdefault("phase_wall_s", {})["replay_tail"] = round(time.time() - t0, 1)
    ck.exhaustive = False
    return rp


# ----------------------------------------------------------------------------- entry points
def run(ck: Check):
    ck.rule = ("trees are enumerated by TLC from spec/ArchTree.tla (quick: every well-formed tree with <= 4 nodes over "
               "all six kinds with fanouts {1,2} ({1,3} on Compute), every 5-node tree shape over Memory/Compute/Fork/"
               "Hierarchical; thorough: <= 4 nodes with fanouts {1,2,3}, every 5-node tree over all six kinds, every "
               "shape with 5, 6 and 7 nodes) or drawn with -simulate (6..12 nodes, depth <= 4; counts per generator "
               "under 'generators'); expected path per compute = ArchTree!Path evaluated by TLC; each tree is built "
               "from the real classes and every compute is flattened, by name and with the argument-less call. "
               "Non-trivial = some compute has a leaf or another compute before it in the tree that is not on its "
               "path (inside a Fork that does not contain it, or a sibling compute); distinct by tree.")
    ck.trusted += ["structural translation preorder (kind, fanout, depth) list -> nested Arch objects "
                   "(checks/c25.py build_arch_nodes)"]
    ck.assumptions += ["well-formed trees only: no empty Fork/Hierarchical, every Fork contains a Compute, every "
                       "non-compute leaf lies above some Compute; Array and Network nodes are not generated"]
    run_generators(ck, "c25", "C25",
                   lambda r, label: {"generator": label, "tree": tree_str(r["nodes"]),
                                     "expected_paths": {p["c"]: p["path"] for p in r["paths"]}})


def replay(path):
    rec = json.load(open(path))["record"]
    print("tree:", tree_str(rec["nodes"]))
    for p in rec["paths"]:
        print("definition: Path(%s) = %s" % (p["c"], p["path"]))
    findings, _ = compare25(rec)
    for sig, detail in findings:
        print("implementation disagrees [%s]: %s" % (sig, detail))
    if findings:
        print("VIOLATION property=C25 replay=%s" % path)
        return 1
    print("no disagreement on this case")
    return 0
