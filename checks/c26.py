"""C26 — component totals count every instance of the component.

Spec: spec/ArchTree.tla.  Per generated tree TLC prints, from the definition ArchTree!Instances
(own fanout x fanouts of the non-compute leaves above the component; sibling computes and Forks the
component is not part of are not above it), the expected instance count, total area and total leak
power of every component and the architecture totals.  Binding B: the harness builds the real Arch
(every component has integer area and leak_power), runs Spec.calculate_component_costs() and compares
Arch.per_component_total_area / per_component_total_leak_power / total_area / total_leak_power exactly.

Role A (see checks/c25.py RoleA): ArchNode.iterate_hierarchically with its shared parent list and
the fanout loop of calculate_component_costs are model-checked as actions; TLC shows that the
variants "Compute leaves are appended to the shared list" and "own fanout is not multiplied in"
each violate CostsCorrect, and that the variant without both satisfies it.  For every tree TLC also
prints what each deviating variant computes.  A disagreement whose observed numbers equal, for the
whole tree, the output of one of those variants is named after the deviations of that variant
(C26/own-fanout-not-counted, C26/compute-sibling-counted-as-ancestor); anything else is
C26/other/... .
"""
from __future__ import annotations

import json

from harness.core import Check, frac
from checks import c25 as base

# variant name -> deviations it contains (fewest first)
VARIANTS = [
    ("noown", ("C26/own-fanout-not-counted",)),
    ("sib", ("C26/compute-sibling-counted-as-ancestor",)),
    ("coded", ("C26/own-fanout-not-counted", "C26/compute-sibling-counted-as-ancestor")),
]


def _exact(x):
    if x is None:
        return None
    if isinstance(x, bool):
        return None
    try:
        return frac(x)
    except Exception:
        return None


def observe26(rec, evaluated_first: bool):
    """Drive the implementation: returns the observed totals as exact rationals."""
    nodes = rec["nodes"]
    spec = base.make_spec(nodes)
    ev = spec._spec_eval_expressions()
    it = [(n.name, [p.name for p in ps]) for n, ps in ev.arch.iterate_hierarchically()]
    done = (ev if evaluated_first else spec).calculate_component_costs()
    arch = done.arch
    area = {k: _exact(v) for k, v in arch.per_component_total_area.items()}
    leak = {k: _exact(v) for k, v in arch.per_component_total_leak_power.items()}
    per_inst = {}
    for n in nodes:
        if n["k"] in ("Memory", "Toll", "Compute"):
            c = arch.find(n["name"])
            per_inst[n["name"]] = (_exact(c.area), _exact(c.leak_power))
    return {"area": area, "leak": leak, "total_area": _exact(arch.total_area),
            "total_leak": _exact(arch.total_leak_power), "per_inst": per_inst, "iter": it}


def _matches(obs, comps, total_area, total_leak):
    """does the observation equal this (TLC-computed) outcome everywhere?"""
    if set(obs["area"]) != {c["name"] for c in comps} or set(obs["leak"]) != set(obs["area"]):
        return False
    for c in comps:
        if obs["area"][c["name"]] != c["total_area"] or obs["leak"][c["name"]] != c["total_leak"]:
            return False
    return obs["total_area"] == total_area and obs["total_leak"] == total_leak


def compare26(rec, mode=None):
    nodes = rec["nodes"]
    if mode is None:  # both entry conditions of calculate_component_costs, chosen by the case itself
        mode = (len(nodes) + sum(n["f"] for n in nodes)) % 2 == 0
    obs = observe26(rec, mode)
    info = {"evals": 1,
            "iter_as_coded_model": int([[a, b] for a, b in obs["iter"]] ==
                                       [[y["n"], list(y["seen"])] for y in rec["iter"]]),
            "iter_compared": 1}
    findings = []
    tree = base.tree_str(nodes)
    # per-instance values must be the ones that were put in
    for n in nodes:
        if n["name"] in obs["per_inst"]:
            a, l = obs["per_inst"][n["name"]]
            if a != n["area"] or l != n["leak"]:
                findings.append(("C26/per-instance-value-changed",
                                 "component %s was given area=%s leak_power=%s, after calculate_component_costs it has "
                                 "area=%s leak_power=%s; tree: %s" % (n["name"], n["area"], n["leak"], a, l, tree)))
    if _matches(obs, rec["comps"], rec["total_area"], rec["total_leak"]):
        return findings, info

    def show(o):
        return {k: str(v) for k, v in o.items()}

    exp_area = {c["name"]: c["total_area"] for c in rec["comps"]}
    exp_leak = {c["name"]: c["total_leak"] for c in rec["comps"]}
    exp_inst = {c["name"]: c["inst"] for c in rec["comps"]}
    what = ("tree: %s\n instances by the definition: %s\n total_area    expected %s (sum %s)\n               observed %s (sum %s)"
            "\n total_leak    expected %s (sum %s)\n               observed %s (sum %s)"
            % (tree, exp_inst, exp_area, rec["total_area"], show(obs["area"]), obs["total_area"],
               exp_leak, rec["total_leak"], show(obs["leak"]), obs["total_leak"]))
    for vname, sigs in VARIANTS:
        v = rec["variants"][vname]
        if _matches(obs, v["comps"], v["total_area"], v["total_leak"]):
            for s in sigs:
                findings.append((s, "the observed totals equal those of the algorithm variant '%s' (TLC: violates "
                                    "CostsCorrect), not the definition.\n %s" % (vname, what)))
            return findings, info
    # not explained by a known deviation: say what kind of disagreement it is
    names = [c["name"] for c in rec["comps"]]
    if set(obs["area"]) != set(names) or set(obs["leak"]) != set(names):
        sig = "C26/other/component-set-differs"
    else:
        bad_a = [n for n in names if obs["area"][n] != exp_area[n]]
        bad_l = [n for n in names if obs["leak"][n] != exp_leak[n]]
        if bad_a or bad_l:
            kinds = {x["name"]: x["k"] for x in nodes}
            sig = "C26/other/per-component-total-wrong/%s%s/%s" % (
                "area" if bad_a else "", "leak" if bad_l else "", "+".join(sorted({kinds[n] for n in bad_a + bad_l})))
        else:
            sig = "C26/other/arch-total-is-not-the-sum"
    findings.append((sig, "the observed totals equal neither the definition nor a known deviating variant.\n " + what))
    return findings, info


def nontrivial26(rec):
    """some component has more than one instance and the components do not all have the same count"""
    insts = {c["inst"] for c in rec["comps"]}
    return max(insts) > 1 and len(insts) > 1


def run(ck: Check):
    ck.rule = ("trees are enumerated by TLC from spec/ArchTree.tla (quick: every well-formed tree with <= 4 nodes over "
               "all six kinds with fanouts {1,2} on Memory/Toll/Container and {1,3} on Compute, every 5-node tree shape "
               "over Memory(x2)/Compute(x3)/Fork/Hierarchical; thorough: <= 4 nodes with fanouts {1,2,3} everywhere, "
               "every 5-node tree over all six kinds, every shape with 5, 6 and 7 nodes) or drawn with -simulate "
               "(6..12 nodes, depth <= 4, fanouts {1,2,3}; counts per generator under 'generators'); expected "
               "instances/totals = ArchTree!Instances evaluated by TLC; each tree is built from the real classes with "
               "integer area and leak_power per component, calculate_component_costs is run (on the raw or on the "
               "evaluated Spec, chosen by the case) and all per-component and architecture totals are compared "
               "exactly. Non-trivial = some component has > 1 instance and not all components have the same instance "
               "count; distinct by tree.")
    ck.trusted += ["structural translation preorder (kind, fanout, depth) list -> nested Arch objects "
                   "(checks/c25.py build_arch_nodes)",
                   "exact conversion of the implementation's int/float totals to rationals (harness.core.frac)"]
    ck.assumptions += ["well-formed trees only: no empty Fork/Hierarchical, every Fork contains a Compute, every "
                       "non-compute leaf lies above some Compute; Array and Network nodes are not generated",
                       "area_scale, leak_power_scale and n_parallel_instances are left at 1 (they belong to C27)"]
    rp = base.run_generators(
        ck, "c26", "C26",
        lambda r, label: {"generator": label, "tree": base.tree_str(r["nodes"]),
                          "expected": {c["name"]: {"instances": c["inst"], "total_area": c["total_area"],
                                                   "total_leak_power": c["total_leak"]} for c in r["comps"]},
                          "expected_total_area": r["total_area"], "expected_total_leak_power": r["total_leak"]})
    cmpd, same = rp.info.get("iter_compared", 0), rp.info.get("iter_as_coded_model", 0)
    ck.extra["iterator_model_conformance"] = (
        "on %d of %d trees the real iterate_hierarchically yielded exactly the (node, parents-at-yield) pairs of the "
        "TLA+ iterator variant AppendComputes=TRUE (informational; does not decide the property)" % (same, cmpd))


def replay(path):
    data = json.load(open(path))
    rec = data["record"]
    print("tree:", base.tree_str(rec["nodes"]))
    print("definition: instances", {c["name"]: c["inst"] for c in rec["comps"]})
    bad = []
    for mode in (False, True):
        findings, _ = compare26(rec, mode)
        print("calculate_component_costs on the %s Spec:" % ("evaluated" if mode else "raw"))
        for sig, detail in findings:
            print("  implementation disagrees [%s]: %s" % (sig, detail))
        if not findings:
            print("  agrees with the definition")
        bad += findings
    if bad:
        print("VIOLATION property=C26 replay=%s" % path)
        return 1
    print("no disagreement on this case")
    return 0
