"""C32 -- the parallel runner returns each job's result in job order.

Spec: spec/ParallelRunner.tla (parallel() as a transition system: Dispatch / Complete /
Collect / ReturnList / ReturnDict / Yield*), spec/MC_ParallelRunner.tla (generators),
spec/Trace_ParallelRunner.tla (trace acceptance).

Role A: TLC checks Correct / ExactlyOnce / StoreInv over every dispatch/complete/collect
interleaving for n <= 5 jobs, <= 3 workers, all four call variants, and refutes Correct
for the "place by arrival position" collector (negative control).

Binding B: TLC enumerates (model checking, n <= 5, w <= 5) or draws (-simulate, n <= 64,
w <= 16) behaviours of the spec and prints job count, worker count, call variant, the
completion order it chose, the inputs and the value the SPEC returns; a second generator
draws random sleep ranks.  Every record is run through the REAL accelforge.util.parallel.
parallel(): the completion order is imposed with file barriers (job k of the order waits
for the flag of job k-1) or with per-job sleeps rank*delta, on joblib's default loky
process backend and on the threading backend, for list / dict / generator /
generator_unordered calls, and -- a third, fully deterministic way -- through the guarded
schedule hook in parallel.py (ACCELFORGE_VERIF_SCHEDULE: execution and arrival priorities).
What parallel() returns is compared with what TLC printed.

Binding C: every job appends "s i" / "e i" to a log under an flock (its line number is the
completion sequence number).  The observed order -- whatever it was -- and the returned
value form a trace; TLC (Trace_ParallelRunner) accepts or rejects each trace.  A schedule
that did not come out as imposed only lowers `order_as_imposed`; the verdict depends on
the returned value only.
"""
from __future__ import annotations

import contextlib
import fcntl
import io
import json
import os
import random
import shutil
import time

from harness.core import Check, Machinery, VERIF


# --------------------------------------------------------------------------- the jobs
def g(x):
    """The jobs' function; spec: G(x) == 3 * x + 1000."""
    return 3 * x + 1000


def _rec(log, kind, i):
    fd = os.open(log, os.O_WRONLY | os.O_CREAT | os.O_APPEND, 0o644)
    try:
        fcntl.flock(fd, fcntl.LOCK_EX)
        os.write(fd, ("%s %d\n" % (kind, i)).encode())
    finally:
        fcntl.flock(fd, fcntl.LOCK_UN)
        os.close(fd)


def job(x, i, ctl=None):
    """Job i: optionally wait for the flag of the job TLC put before it / sleep, then
    record completion (sequence number = line number of the log), raise own flag."""
    d = ctl["dir"]
    log = os.path.join(d, "log")
    _rec(log, "s", i)
    try:
        wait_ev = ctl.get("wait_ev")            # threading backend: an Event of the predecessor
        after = ctl.get("after")
        if wait_ev is not None:
            wait_ev.wait(max(0.0, ctl["deadline"] - time.time()))
        elif after is not None:                 # process backend: the predecessor's flag file
            flag = os.path.join(d, "d%d" % after)
            poll = ctl.get("poll", 0.0005)
            while not os.path.exists(flag) and time.time() < ctl["deadline"]:
                time.sleep(poll)
        if ctl.get("delay"):
            time.sleep(ctl["delay"])
    finally:
        _rec(log, "e", i)
        if ctl.get("done_ev") is not None:
            ctl["done_ev"].set()
        else:
            open(os.path.join(d, "d%d" % i), "w").close()
    return g(x)


def _pmod():
    """the module accelforge/util/parallel.py (accelforge.util.parallel is the function)"""
    import importlib
    return importlib.import_module("accelforge.util.parallel")


def hook_available():
    P = _pmod()
    v = getattr(P, "_verif", None)
    return bool(v and v.enabled() and hasattr(v, "scheduled") and hasattr(v, "_schedule"))


def _nap(s):
    time.sleep(s)
    return 0


def key_of(kid):
    return "k%d" % kid if kid % 2 == 0 else ("k", kid)


# --------------------------------------------------------------------------- one real call
class Runner:
    def __init__(self, work):
        self.work = os.path.join(work, "calls")
        os.makedirs(self.work, exist_ok=True)
        self.k = 0

    def execute(self, case, backend, how, delta=0.002, settle=0.0, pbar=False, budget=None):
        """Run the real parallel() on one TLC record.  Returns (projected return value,
        events) where events = [["s", j] | ["e", j], ...] in log order."""
        import joblib
        P = _pmod()

        n, w, mode = case["n"], case["w"], case["mode"]
        self.k += 1
        d = os.path.join(self.work, "c%d" % self.k)
        shutil.rmtree(d, ignore_errors=True)
        os.makedirs(d)
        if budget is None:
            budget = 2.0 + 0.02 * n
        deadline = time.time() + budget
        after = {}
        order = imposed_order(case, how)
        hook = backend == "hook"
        if hook:
            # the guarded schedule hook in parallel.py: jobs run in-process in `exec` priority
            # order and their results reach the collecting code in `arrive` priority order
            pos = {j: k for k, j in enumerate(order)}
            arrive = [pos[i] for i in range(n)]
            other = imposed_order(case, {"impose": "barrier-rank" if how.get("impose") == "barrier" else "barrier"})
            opos = {j: k for k, j in enumerate(other)}
            sched = os.path.join(d, "schedule.json")
            with open(sched, "w") as f:
                json.dump([{"exec": [opos[i] for i in range(n)] or [0], "arrive": arrive or [0]}], f)
            htrace = os.path.join(d, "hooktrace.ndjson")
        elif how.get("impose") in ("barrier", "barrier-rank"):
            for pos, j in enumerate(order):
                after[j] = order[pos - 1] if pos > 0 else None
        jobs = []
        evs = None
        if after and backend == "threading":
            import threading
            evs = [threading.Event() for _ in range(n)]
        for i in range(n):
            ctl = {"dir": d, "deadline": deadline, "poll": 0.0005}
            if after:
                if evs is not None:
                    ctl["done_ev"] = evs[i]
                    ctl["wait_ev"] = evs[after[i]] if after.get(i) is not None else None
                else:
                    ctl["after"] = after.get(i)
                if settle and after.get(i) is not None:
                    ctl["delay"] = settle
            elif not hook:
                ctl["delay"] = order.index(i) * case.get("_delta", delta)
            jobs.append(P.delayed(job)(case["args"][i], i, ctl=ctl))
        keys = [key_of(k) for k in case["keys"]]
        kw = {}
        if how.get("n_jobs") == "explicit":
            kw["n_jobs"] = w
        if pbar:
            kw["pbar"] = "c32"
        old = (P.N_PARALLEL_PROCESSES, P.PARALLELIZE)
        oldenv = {k: os.environ.get(k) for k in ("ACCELFORGE_VERIF_SCHEDULE", "ACCELFORGE_VERIF_TRACE")}
        try:
            if how.get("n_jobs") != "explicit":
                P.set_n_parallel_jobs(w)
            if hook:
                os.environ["ACCELFORGE_VERIF_SCHEDULE"] = sched
                os.environ["ACCELFORGE_VERIF_TRACE"] = htrace
                P._verif._schedule = None          # the hook caches the schedule file: one file per call
                cfg = contextlib.nullcontext()
            else:
                cfg = joblib.parallel_config(backend=backend)
            with cfg, contextlib.redirect_stderr(io.StringIO()):
                if mode == "dict":
                    got = P.parallel(dict(zip(keys, jobs)), **kw)
                elif mode == "list":
                    got = P.parallel(jobs, **kw)
                else:
                    got = list(P.parallel(jobs, return_as=mode, **kw))
        finally:
            P.N_PARALLEL_PROCESSES, P.PARALLELIZE = old
            for k, v in oldenv.items():
                if v is None:
                    os.environ.pop(k, None)
                else:
                    os.environ[k] = v
        events = []
        log = os.path.join(d, "log")
        if os.path.exists(log):
            for ln in open(log):
                a, b = ln.split()
                events.append([a, int(b)])
        if hook and os.path.exists(htrace):
            calls = [json.loads(ln) for ln in open(htrace) if ln.strip()]
            calls = [c for c in calls if c.get("event") == "Call"]
            if len(calls) == 1:
                # what the hook says it did: started in exec order, delivered in arrive order
                # (the job-side log only knows the execution order)
                started = [j for ev, j in events if ev == "s"]
                if started != calls[0]["exec"]:
                    raise Machinery("schedule hook: jobs started in %s, hook reports %s" % (started, calls[0]["exec"]))
                events = [["s", j] for j in calls[0]["exec"]] + [["e", j] for j in calls[0]["arrive"]]
        shutil.rmtree(d, ignore_errors=True)
        return project(mode, got, keys, case["keys"]), events


def imposed_order(case, how):
    """The completion order the harness tries to impose: TLC's schedule, or the order of TLC's
    sleep ranks (rank[i] = position of job i)."""
    if how.get("impose") == "barrier" or not case.get("rank"):
        return list(case["order"])
    return sorted(range(case["n"]), key=lambda i: case["rank"][i])


def _val(v):
    if v is None:
        return -1            # spec: None
    if isinstance(v, bool) or not isinstance(v, int):
        return -2            # nothing the spec can produce
    return v


def project(mode, got, keys, kids):
    """Abstraction function: Python return value -> the spec's `ret`."""
    if mode == "dict":
        if not isinstance(got, dict):
            return [[-2, -2]]
        inv = {k: kid for k, kid in zip(keys, kids)}
        return [[inv.get(k, -2), _val(v)] for k, v in got.items()]
    return [_val(v) for v in got]


def classify(case, got):
    """Signature of a disagreement, computed from the case."""
    mode, exp, n, w = case["mode"], case["expected"], case["n"], case["w"]
    path = "serial-path" if (w == 1 or n == 1) else "pool-path"
    if mode == "generator_unordered":
        kind = "wrong-bag"
    elif len(got) != len(exp):
        kind = "wrong-length"
    elif mode == "dict":
        if dict(map(tuple, got)) == dict(map(tuple, exp)) and len(dict(map(tuple, got))) == len(exp):
            kind = "key-order"
        elif sorted(v for _, v in got) == sorted(v for _, v in exp):
            kind = "values-under-wrong-keys"
        else:
            kind = "wrong-values"
    elif sorted(got) == sorted(exp):
        kind = "results-out-of-position"
    else:
        kind = "wrong-values"
    return "C32/%s/%s/%s" % (mode, path, kind)


def agrees(case, got):
    if case["mode"] == "generator_unordered":
        return sorted(got) == sorted(case["expected"])   # bookkeeping only; TLC decides in C
    return got == case["expected"]


# --------------------------------------------------------------------------- TLC side
def validate_traces(ck: Check, traces, tag):
    """Binding C: returns the set of accepted trace indices (0-based)."""
    if not traces:
        return set()
    path = os.path.join(ck.work, "traces_%s.json" % tag)
    with open(path, "w") as f:
        json.dump(traces, f)
    res = ck.tlc("Trace_ParallelRunner", "Trace_ParallelRunner.cfg", env={"TRACE_FILE": path},
                 timeout=3000, coverage=False, workers=8)
    if not res.ok:
        # an invariant of the spec failed on a state reached by a recorded execution
        raise Machinery("Trace_ParallelRunner: TLC stopped on %s\n%s" % (res.violated, res.tail))
    return {r["accepted"] - 1 for r in res.records if "accepted" in r}


def _reject_reason(trace):
    started, ended = {}, {}
    for ev, j in trace["events"]:
        (started if ev == "s" else ended)[j] = (started if ev == "s" else ended).get(j, 0) + 1
    if any(v > 1 for v in started.values()):
        return "job-started-more-than-once"
    if set(started) != set(range(trace["n"])) or set(ended) != set(range(trace["n"])):
        return "job-not-run"
    return "returned-value"


# --------------------------------------------------------------------------- the run
class Book:
    def __init__(self):
        self.items = []      # (case, backend, how, got, events)
        self.stats = {}
        self.batch = 0

    def add(self, case, backend, how, got, events):
        self.items.append((case, backend, how, got, events))
        s = self.stats.setdefault(backend, {"calls": 0, "order_as_imposed": 0, "completed_out_of_job_order": 0,
                                            "w": set(), "n_max": 0, "modes": {}})
        s["calls"] += 1
        ends = [j for ev, j in events if ev == "e"]
        want = imposed_order(case, how)
        if ends == want:
            s["order_as_imposed"] += 1
        if ends != sorted(ends):
            s["completed_out_of_job_order"] += 1
        s["w"].add(case["w"])
        s["n_max"] = max(s["n_max"], case["n"])
        s["modes"][case["mode"]] = s["modes"].get(case["mode"], 0) + 1


def _drive_chunk(arg):
    """Run a list of (case, backend, how, kw, pbar) through the real parallel().  Pure: returns
    [(position, got, events, error)] so that it can run in a forked helper process."""
    work, items = arg
    runner = Runner(work)
    out = []
    for pos, case, backend, how, kw, pbar in items:
        try:
            got, events = runner.execute(case, backend, how, pbar=pbar, **kw)
            out.append((pos, got, events, None))
        except Exception as e:  # noqa: the property does not speak of exceptions
            import traceback
            out.append((pos, None, None, "".join(traceback.format_exception(type(e), e, e.__traceback__))[-2000:]))
    return out


def _drive(ck, book, cases, backend, impose, procs=1, **kw):
    """procs > 1: independent helper processes (threading backend only; every parallel()
    call on joblib's ThreadPool costs ~0.1 s of pool tear-down, so they are overlapped)."""
    items = []
    for idx, case in enumerate(cases):
        how = {"impose": impose, "n_jobs": "explicit" if (idx % 3) else "set_n_parallel_jobs"}
        items.append((idx, case, backend, how, kw, idx % 17 == 5))
    book.batch += 1
    base = os.path.join(ck.work, "b%d" % book.batch)
    if procs <= 1 or len(items) < 4 * procs:
        results = _drive_chunk((base, items))
    else:
        from concurrent.futures import ProcessPoolExecutor
        _pmod()  # import accelforge once, before forking
        nch = max(procs, len(items) // 6)
        chunks = [(base + "_%d" % k, items[k::nch]) for k in range(nch)]
        with ProcessPoolExecutor(procs) as ex:
            results = [r for part in ex.map(_drive_chunk, chunks) for r in part]
        results.sort(key=lambda r: r[0])
    for (pos, got, events, err), (_, case, _, how, _, _) in zip(results, items):
        ck.evaluations += 1
        if err is not None:
            ck.impl_errors += 1
            if ck.impl_error_sample is None:
                ck.impl_error_sample = {"case": {"case": case, "backend": backend, "how": how}, "traceback": err}
            continue
        book.add(case, backend, dict(how, **kw), got, events)


def _delta(c):
    """sleep unit so that one call sleeps about 0.25 s in total"""
    n, w = c["n"], c["w"]
    return round(min(0.004, max(0.0003, 0.25 * w / max(1.0, n * (n - 1) / 2.0))), 5)


def _warm(backend, w, with_dict):
    import joblib
    P = _pmod()
    with joblib.parallel_config(backend=backend):
        P.parallel([P.delayed(_nap)(0.15) for _ in range(w)], n_jobs=w)
        if with_dict:
            P.parallel({i: P.delayed(_nap)(0.05) for i in range(w)}, n_jobs=w)


def _t(ck, what):
    ck.extra.setdefault("timeline_s", []).append([what, round(time.time() - ck.t0, 1)])
    if os.environ.get("C32_VERBOSE"):
        print("[%6.1fs] %s" % (time.time() - ck.t0, what), flush=True)


def _gen(ck, cfg, **kw):
    res = ck.tlc("MC_ParallelRunner", cfg, timeout=3000, coverage=False, **kw)
    if not res.ok:
        raise Machinery("generator %s failed: %s\n%s" % (cfg, res.violated, res.tail))
    if not res.records:
        raise Machinery("generator %s printed no cases" % cfg)
    return res.records


def run(ck: Check):
    thorough = ck.tier == "thorough"
    rng = random.Random(ck.seed)
    # loky workers are fresh interpreters: they must be able to import checks.c32
    pp = os.environ.get("PYTHONPATH", "")
    if VERIF not in pp.split(os.pathsep):
        os.environ["PYTHONPATH"] = (pp + os.pathsep if pp else "") + VERIF
    ck.rule = ("cases = behaviours of spec/ParallelRunner.tla printed by TLC (all for n<=%d, w in %s; -simulate for "
               "n<=64,w<=16) and random rank vectors; each is run through the real parallel() via the schedule "
               "hook, on the threading backend and on the loky backend as list/dict/generator/"
               "generator_unordered call; returned value compared "
               "with TLC's and the recorded execution validated by Trace_ParallelRunner. Non-trivial = at least "
               "two jobs and the jobs actually completed out of job order; distinct by (variant, backend, n, "
               "observed completion order)." % (5, "1..5"))
    ck.trusted += ["checks/c32.py: job() (barrier/sleep + flock'ed sequence log), project() (return value -> ret)",
                   "accelforge/util/_verif.py schedule hook (guarded by ACCELFORGE_VERIF=1) for the hook runs",
                   "joblib backends (loky, threading) selected with joblib.parallel_config"]
    ck.assumptions += ["job functions are picklable module-level functions called through joblib.delayed, as "
                       "the callers in accelforge do; results are plain ints",
                       "dict results are compared including key order (the title's 'job order' = input key order)"]

    # ---- role A
    ck.tlc_expect_ok("ParallelRunner", "ParallelRunner_design.cfg", timeout=1800,
                     required_actions=("DispatchAny", "CompleteAny", "Collect", "ReturnList", "ReturnDict",
                                       "YieldOrdered", "YieldUnordered", "Exhausted"))
    neg = ck.tlc("ParallelRunner", "ParallelRunner_byarrival.cfg", timeout=600)
    if neg.ok or "Correct" not in (neg.violated or ""):
        raise Machinery("role-A negative control: a collector that places results by arrival position must "
                        "violate Correct, TLC says: %s" % neg.violated)
    ck.extra["role_A"] = ("ParallelRunner: Correct, AtMostOnce, ExactlyOnce, StoreInv hold for n<=5 jobs, <=3 "
                          "workers, any dispatch order, all interleavings, 4 call variants; placing by arrival "
                          "position instead of by tag violates Correct (%s)" % neg.violated)
    _t(ck, "role A done")

    # ---- binding B: generators
    exh = _gen(ck, "MC_ParallelRunner_exh.cfg", workers=8)
    nsim = 1000 if thorough else 150
    # one long random behaviour = many runs back to back (about 100 steps per run)
    sim = _gen(ck, "MC_ParallelRunner_sim.cfg", simulate="num=1", depth=100 * nsim, seed=ck.seed, workers=1)
    _t(ck, "generators done: %d exhaustive, %d simulated schedules with sleep ranks" % (len(exh), len(sim)))

    book = Book()
    # schedule hook in parallel.py (in-process, any order is feasible): TLC's schedule as arrival
    # order with TLC's rank vector as execution order, and the other way round
    if hook_available():
        _drive(ck, book, exh + sim, "hook", "barrier")
        _drive(ck, book, [c for c in sim if c["n"] >= 2], "hook", "barrier-rank")
        ck.extra["schedule_hook"] = "used: %d calls" % len(book.items)
    else:
        ck.extra["schedule_hook"] = "not available in this accelforge tree (ACCELFORGE_VERIF hook missing)"
    _t(ck, "schedule hook done: %d calls" % len(book.items))
    t0 = time.time()
    # threading backend: no batching, in-order dispatch -> TLC's schedules are imposed exactly
    exh_t = exh if thorough else [c for c in exh if c["n"] <= 4]      # quick: n = 5 only through the hook
    _drive(ck, book, exh_t + sim, "threading", "barrier", procs=8)
    _t(ck, "threading/barrier done: %d calls" % len(book.items))
    # arbitrary permutations (TLC's rank vectors): exact where every job has its own worker,
    # as sleep times otherwise
    _drive(ck, book, [c for c in sim if 2 <= c["n"] <= c["w"]], "threading", "barrier-rank", procs=8)
    _t(ck, "threading/barrier-rank done: %d calls" % len(book.items))
    for c in [c for c in sim if c["n"] > c["w"]][: (600 if thorough else 40)]:
        c["_delta"] = _delta(c)
    _drive(ck, book, [c for c in sim if "_delta" in c], "threading", "sleep", procs=8)
    ck.extra["wall_threading_s"] = round(time.time() - t0, 1)
    _t(ck, "threading backend done: %d calls" % len(book.items))

    # loky (the default backend of parallel()): worker processes.  A new worker count means a new
    # pool of fresh interpreters (and the dict variant makes every worker import accelforge), so
    # the quick tier uses few worker counts and the dict variant only with 2 workers.
    t0 = time.time()
    if thorough:
        loky_ws = list(range(1, 17))
    else:
        loky_ws = sorted({2, 16} | set(rng.sample(range(3, 16), 3)))
    dict_ws = {1, 2, 3, 4, 8, 16} if thorough else {2}
    per_w = 20 if thorough else 8
    for w in loky_ws:
        try:
            _warm("loky", w, w in dict_ws)
        except Exception as e:  # noqa
            raise Machinery("cannot start a loky pool with %d workers: %r" % (w, e))
        ok = lambda c: c["w"] == w and (c["mode"] != "dict" or w in dict_ws)
        # random sleep times (the property's own wording): the order is whatever results
        mine = [c for c in sim if ok(c) and c["n"] >= 2]
        rng.shuffle(mine)
        for c in mine[:per_w]:
            c["_delta"] = _delta(c)
        _drive(ck, book, mine[:per_w], "loky", "sleep")
        # exact orders where every job gets its own worker at once (no batching can interfere)
        pool = [c for c in exh if ok(c) and c["n"] <= w]
        rng.shuffle(pool)
        _drive(ck, book, pool[:2 * per_w], "loky", "barrier", settle=0.001, budget=6.0)
        pool = [c for c in sim if ok(c) and 2 <= c["n"] <= w]
        rng.shuffle(pool)
        _drive(ck, book, pool[:per_w], "loky", "barrier-rank", settle=0.001, budget=6.0)
        _t(ck, "loky w=%d done: %d calls so far" % (w, len(book.items)))
    try:  # do not leave the worker processes to interpreter exit (slow)
        from joblib.externals.loky import get_reusable_executor
        get_reusable_executor().shutdown(wait=True, kill_workers=True)
    except Exception:  # noqa
        pass
    ck.extra["wall_loky_s"] = round(time.time() - t0, 1)
    ck.extra["loky_worker_counts"] = loky_ws
    ck.extra["loky_dict_worker_counts"] = sorted(dict_ws)

    # ---- verdicts: B (returned value vs TLC's) and C (TLC accepts the recorded execution)
    traces = [{"n": c["n"], "mode": c["mode"], "events": ev, "ret": got} for c, _, _, got, ev in book.items]
    accepted = set()
    CH = 4000
    for b in range(0, len(traces), CH):
        acc = validate_traces(ck, traces[b:b + CH], "b%d" % (b // CH))
        accepted |= {b + i for i in acc}
    _t(ck, "trace validation done")
    nb = 0
    for i, (case, backend, how, got, events) in enumerate(book.items):
        ck.traces += 1
        ok_b = agrees(case, got)
        ok_c = i in accepted
        ends = [j for ev, j in events if ev == "e"]
        if case["n"] >= 2 and ends != sorted(ends):
            ck.count_nontrivial((case["mode"], backend, case["n"], tuple(ends)))
        if ok_b and ok_c:
            continue
        nb += 1
        if not ok_b:
            sig = classify(case, got)
        else:
            sig = "C32/%s/trace-rejected/%s" % (case["mode"], _reject_reason(traces[i]))
        ck.violation(sig,
                     "parallel(<%d jobs as %s>, n_jobs=%d) on backend %s returned %s; the spec returns %s "
                     "(TLC %s the recorded execution; observed completion order %s)"
                     % (case["n"], case["mode"], case["w"], backend, json.dumps(got)[:300],
                        json.dumps(case["expected"])[:300], "accepts" if ok_c else "REJECTS", ends[:70]),
                     {"case": case, "backend": backend, "how": how, "got": got, "events": events})
    for case_i in (exh[len(exh) // 2], sim[len(sim) // 3], sim[-1]):
        ck.sample({"n": case_i["n"], "w": case_i["w"], "mode": case_i["mode"], "order": case_i["order"][:64],
                   "rank": case_i["rank"][:64], "expected": case_i["expected"][:8]})
    for be, s in book.stats.items():
        s["w"] = sorted(s["w"])
    ck.extra["backends"] = book.stats
    ck.extra["traces_accepted_by_TLC"] = len(accepted)
    ck.extra["exhaustive_parts"] = ["all completion orders feasible with in-order dispatch for n<=%d, w in %s, "
                                    "4 variants (schedule hook; threading backend with barriers)"
                                    % (5, "1..5")]
    ck.extra["not_covered"] = ("Apalache inductive run; on loky "
                               "the dict variant runs with 2 workers in the quick tier and with 1,2,3,4,8,16 "
                               "workers in the thorough tier (all 1..16 on the threading backend); pools larger "
                               "than the job count cannot impose an order with sleeps when joblib batches jobs")
    ck.exhaustive = False


# --------------------------------------------------------------------------- replay
def replay(path):
    rec = json.load(open(path))
    case, backend, how = rec["case"], rec["backend"], dict(rec["how"])
    pp = os.environ.get("PYTHONPATH", "")
    if VERIF not in pp.split(os.pathsep):
        os.environ["PYTHONPATH"] = (pp + os.pathsep if pp else "") + VERIF
    work = os.path.join(VERIF, ".work", "C32-replay")
    shutil.rmtree(work, ignore_errors=True)
    os.makedirs(work)
    os.chdir(work)
    ck = Check.__new__(Check)
    ck.work = work
    ck.states = ck.transitions = 0
    ck.cov, ck.tlc_cmds = {}, []
    runner = Runner(work)
    kw = {k: how.pop(k) for k in ("delta", "settle", "budget") if k in how}
    print("case: n=%d w=%d variant=%s backend=%s imposed %s" % (
        case["n"], case["w"], case["mode"], backend, case.get("order") or case.get("rank")))
    print("spec returns  :", case["expected"])
    rc = 0
    for attempt in range(3):
        got, events = runner.execute(case, backend, how, **kw)
        trace = {"n": case["n"], "mode": case["mode"], "events": events, "ret": got}
        acc = validate_traces(ck, [trace], "replay")
        okb, okc = agrees(case, got), (0 in acc)
        print("attempt %d: parallel() returns %s; completion order %s; TLC %s the execution"
              % (attempt + 1, got, [j for ev, j in events if ev == "e"], "accepts" if okc else "REJECTS"))
        if not (okb and okc):
            rc = 1
            break
    shutil.rmtree(work, ignore_errors=True)
    if rc:
        print("VIOLATION property=C32 replay=%s" % path)
    else:
        print("no disagreement on this case in 3 attempts")
    return rc
