"""Shared machinery for the mapper-level checks (C01-C04, C16-C19, C28, C31 part 2):
micro-specs, TLC enumeration of their mapspace (spec/Mapspace.tla), pricing with the real
model, running the real mapper in worker processes, structural export of returned
LoopTrees, and trace validation of recorded fronts by TLC (spec/Fronts.tla).
No oracle here: verdicts come from TLC (Fronts / LoopNest) or from exact comparison of two
recorded observations of the implementation where the property itself is an equality.
"""
from __future__ import annotations

import copy
import json
import os
import random
import traceback
from concurrent.futures import ProcessPoolExecutor
from fractions import Fraction

from harness import loopnest as ln
from harness import microspec as ms
from harness.core import Machinery

METRICS = ("ENERGY", "LATENCY", "ENERGY_DELAY_PRODUCT")


# ------------------------------------------------------------------ micro-specs
def setexpr(tensors):
    return " | ".join(tensors) if tensors else "Nothing"


def gen_microspec(rng, wid, *, kind=None, n_mem=2, bounds=None, toll=False, cap=True):
    kind = kind or rng.choice(["matmul", "matmul", "matvec", "reduce", "elementwise"])
    nrv = {"matmul": 3, "matvec": 2, "reduce": 2, "elementwise": 2}[kind]
    if bounds is None:
        bounds = [rng.choice([2, 2, 4]) if nrv == 3 else rng.choice([2, 4, 6, 8]) for _ in range(nrv)]
        if nrv == 3 and bounds.count(4) > 1:
            bounds[bounds.index(4)] = 2
    w = ms.gen_world(rng, wid, n_mem=n_mem, bounds=bounds, rich_costs=False, kind=kind, toll=toll)
    # integer bits, a few override flavours that keep everything dyadic
    for t in w["tensors"]:
        w["wbits"][t] = rng.choice([8, 8, 4])
    for c in w["bits"]:
        for t in w["tensors"]:
            w["bits"][c][t] = w["wbits"][t]
    mems = [c for c in sorted(w["level"], key=lambda c: w["level"][c])]
    w["keep"], w["maykeep"] = {}, {}
    for c in mems:
        if w["level"][c] == 0:
            w["keep"][c] = list(w["tensors"])
            w["maykeep"][c] = []
        else:
            pool = list(w["tensors"])
            keep = [t for t in pool if rng.random() < 0.15]
            may = [t for t in pool if t not in keep and rng.random() < 0.8]
            w["keep"][c], w["maykeep"][c] = keep, may
        w["size"][c] = 0
    if cap:
        # inner memory sizes around the tile sizes so that capacity both binds and does not
        full = {t: 1 for t in w["tensors"]}
        for t in w["tensors"]:
            for r in w["proj"][t]:
                full[t] *= w["bound"][r]
        tot = sum(full[t] * w["wbits"][t] for t in w["tensors"])
        for c in mems[1:]:
            if w["istoll"][c]:
                continue
            w["size"][c] = max(8, rng.choice([tot // 4, tot // 2, tot, 2 * tot]))
    return w


def keep_yaml(w):
    return {c: {"keep": setexpr(w["keep"][c]) if w["level"][c] else "All",
                "may_keep": setexpr(w["maykeep"][c]) if w["level"][c] else "All"}
            for c in w["level"]}


# ------------------------------------------------------------------ TLC enumeration
def enumerate_mapspace(ck, worlds, tag="ms", timeout=3000):
    path = os.path.join(ck.work, "worlds_%s.json" % tag)
    with open(path, "w") as f:
        json.dump(worlds, f)
    res = ck.tlc("Mapspace", "Mapspace.cfg", env={"WORLDS_FILE": path}, coverage=False, timeout=timeout)
    if not res.ok:
        raise Machinery("Mapspace enumeration failed: %s\n%s" % (res.violated, res.tail))
    by = {}
    for r in res.records:
        by.setdefault(r["wid"], []).append(r["nodes"])
    return by


def mapspace_coverage(ck, world):
    path = os.path.join(ck.work, "worlds_cov.json")
    with open(path, "w") as f:
        json.dump([world], f)
    return ck.tlc("Mapspace", "Mapspace.cfg", env={"WORLDS_FILE": path}, coverage=True, timeout=900,
                  required_actions=("MAddLoop", "MAddHolder", "MClose"))


def price(ck, worlds, by):
    """Real model on every enumerated mapping -> {wid: [(nodes, out)]}; invalid ones keep out['error']."""
    recs = [{"wid": wid, "nodes": n} for wid, L in by.items() for n in L]
    outs = ln.evaluate_records(ck, worlds, recs)
    res = {}
    for r, o in zip(recs, outs):
        res.setdefault(r["wid"], []).append((r["nodes"], o))
    return res


# ------------------------------------------------------------------ real mapper in workers
def export_nodes(mapping, w):
    """Structural export of a returned single-Einsum LoopTree to the spec's node records."""
    out = []
    for n in mapping.nodes:
        k = type(n).__name__
        if k in ("Storage", "Toll"):
            for t in n.tensors:
                out.append({"kind": "S", "mem": str(n.component), "t": str(t)})
        elif k == "Temporal":
            ts = n.tile_shape
            out.append({"kind": "T", "rv": str(n.rank_variable), "tile": int(ts)})
        elif k == "Spatial":
            out.append({"kind": "P", "rv": str(n.rank_variable), "tile": int(n.tile_shape),
                        "mem": str(n.component), "dim": str(n.name)})
        elif k == "Reservation":
            continue
        elif k == "Compute":
            out.append({"kind": "C"})
        else:
            out.append({"kind": "?", "type": k})
    return out


def _mapper_job(args):
    w, metrics, knobs, d, detail = args
    try:
        from accelforge.frontend.spec import Spec
        from accelforge.mapper import Metrics
        from accelforge.mapper.FFM.main import map_workload_to_arch
        from accelforge.util.parallel import set_n_parallel_jobs
        import functools, operator
        set_n_parallel_jobs(1)
        os.makedirs(d, exist_ok=True)
        os.chdir(d)
        tag = "m%d" % os.getpid()
        pa = os.path.join(d, tag + "_arch.yaml")
        pw = os.path.join(d, tag + "_wl.yaml")
        with open(pa, "w") as f:
            f.write(ms.arch_yaml(w, keep_yaml(w)))
        with open(pw, "w") as f:
            f.write(ms.workload_yaml(w))
        spec = Spec.from_yaml(pa, pw)
        spec.mapper.metrics = functools.reduce(operator.or_, [getattr(Metrics, m) for m in metrics])
        for k, v in (knobs or {}).items():
            setattr(spec.mapper, k, v)
        r = map_workload_to_arch(spec, print_progress=False, eval_in_detail=detail)
        rows = []
        cols = list(r.data.columns)
        for i in range(len(r.data)):
            row = r.data.iloc[i]
            rec = {"totals": {}, "cols": {}}
            for c in cols:
                if c.startswith("Total<SEP>") and not c.endswith("mapping"):
                    rec["totals"][c.split("<SEP>", 1)[1]] = _x(row[c])
                elif "<SEP>mapping" in c:
                    continue
                else:
                    v = row[c]
                    try:
                        rec["cols"][c] = _x(v)
                    except Exception:
                        pass
            try:
                rec["nodes"] = export_nodes(row["Total<SEP>mapping"](), w)
            except Exception as e:
                rec["nodes_error"] = "%s: %s" % (type(e).__name__, e)
            rows.append(rec)
        return {"rows": rows, "n": len(rows)}
    except Exception as e:
        return {"exception": "%s: %s" % (type(e).__name__, e), "traceback": traceback.format_exc()[-3000:]}


def _x(v):
    import math
    v = float(v)
    if math.isnan(v) or math.isinf(v):
        return repr(v)
    n, d = v.as_integer_ratio()
    return [n, d]


def fr(x):
    return Fraction(x[0], x[1])


def run_mapper(ck, jobs, nproc=12):
    """jobs: list of (world, metrics tuple, knobs dict, detail bool) -> list of results."""
    d = os.path.join(ck.work, "mapper")
    args = [(w, m, k, d, det) for (w, m, k, det) in jobs]
    with ProcessPoolExecutor(nproc) as ex:
        return list(ex.map(_mapper_job, args))


def objective(metric, energy, latency):
    if metric == "ENERGY":
        return energy
    if metric == "LATENCY":
        return latency
    return energy * latency


# ------------------------------------------------------------------ rank transform + TLC fronts
def rank_columns(cands, ret):
    """Dense ranks per column over cands+ret (strictly monotone -> dominance preserved)."""
    if not cands and not ret:
        return [], []
    k = len((cands or ret)[0])
    maps = []
    for c in range(k):
        vals = sorted({v[c] for v in cands} | {v[c] for v in ret})
        maps.append({v: i for i, v in enumerate(vals)})
    rc = [[maps[c][v[c]] for c in range(k)] for v in cands]
    rr = [[maps[c][v[c]] for c in range(k)] for v in ret]
    return rc, rr


def fronts_verdicts(ck, cases, tag="fronts"):
    path = os.path.join(ck.work, "cases_%s.json" % tag)
    with open(path, "w") as f:
        json.dump(cases, f)
    res = ck.tlc("Fronts", "Fronts.cfg", env={"CASES_FILE": path}, coverage=False, workers=1, timeout=1800)
    if not res.ok or len(res.records) != len(cases):
        raise Machinery("Fronts validation run failed (%d verdicts for %d cases): %s\n%s"
                        % (len(res.records), len(cases), res.violated, res.tail))
    return {v["id"]: v for v in res.records}


# ------------------------------------------------------------------ returned LoopTrees -> Trace_Mapping
def _small(fr_):
    return abs(fr_.numerator) < 2 ** 20 and fr_.denominator < 2 ** 10


def returned_cases(ck, worlds, metrics_sets, knobs=None, detail_both=True):
    """Run the mapper (eval_in_detail False and True) and build one Trace_Mapping case per returned row
    of the detailed run, joined with the row of the undetailed run that has the same LoopTree."""
    jobs, keys = [], []
    for w in worlds:
        for mset in metrics_sets:
            for det in ((False, True) if detail_both else (True,)):
                jobs.append((w, mset, knobs, det))
                keys.append((w["id"], mset, det))
    outs = dict(zip(keys, run_mapper(ck, jobs)))
    cases, info = [], {}
    for w in worlds:
        for mset in metrics_sets:
            rd = outs[(w["id"], mset, True)]
            rj = outs.get((w["id"], mset, False))
            ck.evaluations += 1
            for r in (rd, rj):
                if r is not None and "exception" in r and "has no pmappings" in r["exception"]:
                    # the mapper's explicit "the mapspace is empty / over-constrained" answer: a legitimate outcome
                    ck.extra["mapper_says_no_valid_mapping"] = ck.extra.get("mapper_says_no_valid_mapping", 0) + 1
                    r["empty"] = True
                    continue
                if r is not None and "exception" in r:
                    ck.impl_errors += 1
                    if ck.impl_error_sample is None:
                        ck.impl_error_sample = {"case": {"world": w["id"], "metrics": mset}, "traceback": r["traceback"]}
            if "exception" in rd or (rj is not None and "exception" in rj):
                continue
            if rd.get("empty") or (rj is not None and rj.get("empty")):
                continue
            jrows = {}
            by_index = rj is not None and len(rj["rows"]) == len(rd["rows"])
            if rj is not None:
                for row in rj["rows"]:
                    jrows.setdefault(json.dumps(row.get("nodes")), row)
            for i, row in enumerate(rd["rows"]):
                cid = "%d/%s/%d" % (w["id"], "+".join(mset), i)
                nodes = row.get("nodes")
                if nodes is None:
                    info[cid] = {"world": w, "mset": mset, "row": row, "nodes": None, "export_error": row.get("nodes_error")}
                    continue
                # "every returned mapping": the i-th row of both runs is the same returned mapping (the runs are
                # deterministic, C20); fall back to matching by LoopTree when the row counts differ
                jrow = rj["rows"][i] if by_index else jrows.get(json.dumps(nodes))
                me, ml = fr(row["totals"]["energy"]), fr(row["totals"]["latency"])
                # the undetailed run only reports the totals its metrics need; an absent total is not compared
                je = fr(jrow["totals"]["energy"]) if jrow and "energy" in jrow["totals"] else me
                jl = fr(jrow["totals"]["latency"]) if jrow and "latency" in jrow["totals"] else ml
                ok_small = all(_small(x) for x in (me, ml, je, jl))
                info[cid] = {"world": w, "mset": mset, "row": row, "jrow": jrow, "nodes": nodes,
                             "tlc_numbers": ok_small}
                if any(n["kind"] not in ("S", "T", "P", "C") for n in nodes):
                    info[cid]["unsupported"] = True
                    continue
                z = lambda x: [x.numerator, x.denominator] if ok_small else [0, 1]
                cases.append({"id": cid, "world": w, "nodes": nodes,
                              "join": {"energy": z(je), "latency": z(jl)},
                              "model": {"energy": z(me), "latency": z(ml)}})
    return cases, info


def trace_mapping_verdicts(ck, cases, tag="tm"):
    if not cases:
        return {}
    path = os.path.join(ck.work, "cases_%s.json" % tag)
    with open(path, "w") as f:
        json.dump(cases, f)
    res = ck.tlc("Trace_Mapping", "Trace_Mapping.cfg", env={"CASES_FILE": path}, coverage=False, timeout=2400)
    if not res.ok:
        raise Machinery("Trace_Mapping run failed: %s\n%s" % (res.violated, res.tail))
    v = {r["id"]: r for r in res.records}
    missing = [c["id"] for c in cases if c["id"] not in v]
    if missing:
        raise Machinery("Trace_Mapping produced no verdict for %d cases (e.g. %s): the execution did not terminate\n%s"
                        % (len(missing), missing[0], res.tail))
    return v


def mapper_worlds(ck, n, start, *, tolls=False):
    rng = random.Random(4400 * ck.seed + start)
    out = []
    for i in range(n):
        n_mem = 3 if i % 3 == 2 else 2
        w = gen_microspec(rng, start + i, n_mem=n_mem, toll=(tolls and i % 2 == 0))
        if w["istoll"].get("TOLL"):
            # the mapper decides about Tolls through keep/may_keep too
            w["keep"]["TOLL"] = []
            w["maykeep"]["TOLL"] = [t for t in w["tensors"] if rng.random() < 0.8]
        out.append(w)
    return out


def c31_part(ck):
    """C31, mapper clause: on architectures with a Toll no returned mapping has the Toll as outermost holder."""
    worlds = mapper_worlds(ck, 4 if ck.tier == "quick" else 16, 500, tolls=True)
    worlds = [w for w in worlds if "TOLL" in w["level"]]
    cases, info = returned_cases(ck, worlds, [("ENERGY",), ("ENERGY", "LATENCY")], detail_both=False)
    verdicts = trace_mapping_verdicts(ck, cases, "c31")
    ntoll = 0
    for cid, v in verdicts.items():
        ck.traces += 1
        meta = info[cid]
        if any(n["kind"] == "S" and meta["world"]["istoll"][n["mem"]] for n in meta["nodes"]):
            ntoll += 1
            ck.count_nontrivial(("mapper", cid))
        if v.get("wellformed") and not v["toll"]:
            ck.violation("C31/toll-outermost-holder-in-returned-mapping",
                         "returned mapping %s has a Toll as the outermost holder of a tensor" % ln.short(meta["nodes"]),
                         {"world": meta["world"], "nodes": meta["nodes"], "kind": "mapper"})
    ck.extra["mapper_results_with_toll_nodes"] = ntoll
    ck.extra["mapper_results_checked"] = len(verdicts)


# ------------------------------------------------------------------ fused (multi-Einsum) trees
def export_tree(mapping):
    """Multi-Einsum LoopTree -> node records with branch tags (prefix br=0, branch e = 1..k), or None if the
    tree has a shape FusedNest does not model (nested splits)."""
    out = []

    def emit(n, br):
        k = type(n).__name__
        if k in ("Storage", "Toll"):
            for t in n.tensors:
                out.append({"kind": "S", "mem": str(n.component), "t": str(t), "br": br})
        elif k == "Temporal":
            out.append({"kind": "T", "rv": str(n.rank_variable), "tile": int(n.tile_shape), "br": br})
        elif k == "Compute":
            out.append({"kind": "C", "einsum": str(n.einsum), "br": br})
        elif k == "Reservation":
            pass
        else:
            raise ValueError("unsupported node " + k)

    nodes = list(mapping.nodes)
    for i, n in enumerate(nodes):
        k = type(n).__name__
        if k in ("Sequential", "Pipeline", "Parallel"):
            if i != len(nodes) - 1:
                return None
            for b, child in enumerate(n.nodes):
                sub = list(child.nodes) if hasattr(child, "nodes") else [child]
                for x in sub:
                    if hasattr(x, "nodes"):
                        return None
                    emit(x, b + 1)
            return out
        emit(n, 0)
    # single Einsum: one branch holding everything below the outermost holders
    return [dict(x, br=(1 if x["kind"] == "C" else x["br"])) for x in out]


def export_tree_nested(mapping):
    """LoopTree -> nested node lists for spec/FusedTree.tla (holders get ids; Sequential -> kind Q)."""
    counter = [0]

    def conv(nodes):
        out = []
        for n in nodes:
            k = type(n).__name__
            if k in ("Storage", "Toll"):
                for t in n.tensors:
                    counter[0] += 1
                    out.append({"kind": "S", "id": counter[0], "mem": str(n.component), "t": str(t)})
            elif k == "Temporal":
                out.append({"kind": "T", "rv": str(n.rank_variable), "tile": int(n.tile_shape)})
            elif k == "Compute":
                out.append({"kind": "C", "einsum": str(n.einsum)})
            elif k == "Reservation":
                continue
            elif k in ("Sequential",):
                out.append({"kind": "Q", "children": [conv(list(c.nodes) if hasattr(c, "nodes") else [c]) for c in n.nodes]})
            elif k == "Nested":
                out += conv(list(n.nodes))
            else:
                raise ValueError("unsupported node " + k)
        return out
    return conv(list(mapping.nodes))
