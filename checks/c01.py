"""C01 — the mapper's optimum is the optimum over the whole mapspace.

Spec: spec/Mapspace.tla — the mapspace of a micro-spec as a transition system (TLC
enumerates every terminal state = every mapping); spec/Fronts.tla — validation of the
recorded mapper result against the enumerated, model-priced candidates.
Binding B: every enumerated mapping is priced by the real evaluate_mapping (the property
says "model-evaluated").  Binding C: the mapper's returned objectives are recorded and
TLC (Fronts) decides whether some valid candidate is strictly better than everything
returned.
"""
from __future__ import annotations

import json
import random
from fractions import Fraction

from checks import mapper_common as mc
from harness import loopnest as ln
from harness import microspec as ms
from harness.core import Check, Machinery


def microspecs(ck, n, start=1):
    rng = random.Random(9100 * ck.seed + start)
    out = []
    for i in range(n):
        w = mc.gen_microspec(rng, start + i, n_mem=2)
        if ck.tier == "quick" and w["kind"] == "matmul" and i % 2:
            # keep the quick tier's enumerations small: one (4,2,2)-sized matmul at most every other world
            for r in w["bound"]:
                w["bound"][r] = 2
        out.append(w)
    return out


def collect(ck, worlds, metrics_sets, knobs=None):
    """Enumerate + price the mapspace of each world and run the mapper per metric set.
    Returns (priced, results) with results[(wid, metrics)] = mapper result dict."""
    mc.mapspace_coverage(ck, worlds[0])
    by = mc.enumerate_mapspace(ck, worlds)
    priced = mc.price(ck, worlds, by)
    jobs, keys = [], []
    for w in worlds:
        for mset in metrics_sets:
            jobs.append((w, mset, knobs, True))
            keys.append((w["id"], mset))
    outs = mc.run_mapper(ck, jobs)
    return priced, dict(zip(keys, outs))


def mid_part(ck):
    """Mapspaces too large for Mapspace.tla (3 memories, bounds up to 8): the candidates are every perfectly factorising
    assignment of every template make_pmappings generates (TLC enumerates the assignments, spec/LoopNest executes and prices
    each one), so this part decides 'no tile shape of any generated template beats the mapper' - the tile-shape half of the
    property - on worlds where latency, leak energy and EDP separate tile shapes.  Template completeness stays with the
    main part."""
    from checks import c07, c08
    from checks import tile_common as tc
    thorough = ck.tier == "thorough"
    cases, meta = [], {}
    # quick tier: EDP only (the metric whose optimum needs both pruning objectives), 3 worlds; thorough tier (or
    # C01_MID_ALL=1): all three metrics, 6 worlds each (18 cases, 22 812 assignments, ~17 min on the unchanged tree)
    import os
    wide = thorough or bool(os.environ.get("C01_MID_ALL"))
    thorough = wide
    for mi, metric in enumerate(mc.METRICS):
        if not wide and metric != "ENERGY_DELAY_PRODUCT":
            continue
        # the world families in which C08 separates pruning objectives (memory-bound, leaky inner memory)
        worlds = c07.worlds_for(ck, 3 if not thorough else 5, 140 + 300 * (mi != 2))[:-1] + \
            c08.leaky_worlds(ck, 1 if not thorough else 2, 230 + 300 * (mi != 2))
        outs = tc.collect(ck, worlds, (metric,))
        tcases, index, verdicts = tc.execute_all(ck, worlds, outs, "c01mid_%d" % mi)
        mapped = mc.run_mapper(ck, [(w, (metric,), None, True) for w in worlds])
        per_world = {}
        for c in tcases:
            w, t, k = index[c["id"]]
            v = verdicts[c["id"]]
            if not v.get("wellformed") or not v["cap"]:
                continue
            # assignments that fill a memory exactly and are lost to the float32 usage formula: known finding of C08
            f = t["formulas"]
            if any(w["size"].get(m) and v["footprint"][m] == w["size"][m]
                   and not isinstance(f.get("usage<SEP>memory<SEP>" + m, [None] * (k + 1))[k], (str, type(None)))
                   and mc.fr(f["usage<SEP>memory<SEP>" + m][k]) > 1 for m in v["footprint"]):
                ck.extra["mid_exact_fit_assignments_set_aside"] = ck.extra.get("mid_exact_fit_assignments_set_aside", 0) + 1
                continue
            per_world.setdefault(w["id"], []).append(
                (c["nodes"], mc.objective(metric, Fraction(*v["energy"]), Fraction(*v["latency"]))))
        for w, o, res in zip(worlds, outs, mapped):
            ck.evaluations += 1
            if "exception" in o or "exception" in res:
                if "exception" in res:
                    ck.impl_errors += 1
                    if ck.impl_error_sample is None:
                        ck.impl_error_sample = {"case": {"world": w["id"], "metric": metric}, "traceback": res["traceback"]}
                continue
            cl = per_world.get(w["id"], [])
            cands = [[x] for n, x in cl]
            ret = [[mc.objective(metric, mc.fr(r["totals"]["energy"]), mc.fr(r["totals"]["latency"]))] for r in res["rows"]]
            rc, rr = mc.rank_columns(cands, ret)
            cid = "mid%d/%s" % (w["id"], metric)
            cases.append({"id": cid, "kind": "optimum", "cands": rc, "ret": rr})
            meta[cid] = (w, metric, cl, cands, ret)
            if len({c[0] for c in cands}) >= 2:
                ck.count_nontrivial(cid)
    if not cases:
        raise Machinery("mid part: no mapper run produced a result")
    verdicts = mc.fronts_verdicts(ck, cases, tag="midfronts")
    n_assign = 0
    for cid, v in verdicts.items():
        w, metric, cl, cands, ret = meta[cid]
        ck.traces += 1
        n_assign += len(cl)
        if v["uncovered"]:
            k = v["uncovered"] - 1
            best_ret = min((r[0] for r in ret), default=None)
            ck.violation("C01/template-assignment-beats-mapper/%s" % metric,
                         "world %d (%s %s), metric %s: assignment %s of a generated template has objective %s by execution, "
                         "best returned by the mapper is %s (%d valid assignments over all templates)"
                         % (w["id"], w["kind"], w["bound"], metric, ln.short(cl[k][0]), cands[k][0], best_ret, len(cl)),
                         {"world": w, "nodes": cl[k][0], "metric": metric, "candidate_objective": str(cands[k][0]),
                          "mapper_best": str(best_ret), "kind": "mid"})
    ck.extra["mid_worlds_x_metrics"] = len(cases)
    ck.extra["mid_valid_assignments_priced_by_execution"] = n_assign
    ck.extra["mid_mapper_strictly_better_than_every_assignment"] = sum(1 for v in verdicts.values() if v["better"])


def run(ck: Check):
    thorough = ck.tier == "thorough"
    ck.rule = ("micro-specs: single Einsum (matmul/matvec/reduce/elementwise, rank bounds 2-8), DRAM + finite inner memory "
               "with random keep/may_keep sets and per-action energies/throughputs; TLC enumerates the whole mapspace "
               "(Mapspace.tla), each mapping is priced by evaluate_mapping, the mapper is run for ENERGY, LATENCY and EDP. "
               "Non-trivial = (micro-spec, metric) where at least two distinct valid objective values exist; distinct by "
               "(world, metric).")
    ck.trusted += ["real evaluate_mapping as pricing oracle (the property's own words; its correctness is C05/C06)",
                   "dense rank transform of objective values before TLC compares them"]
    worlds = microspecs(ck, 3 if not thorough else 24)
    priced, results = collect(ck, worlds, [(m,) for m in mc.METRICS])
    byid = {w["id"]: w for w in worlds}
    cases, meta = [], {}
    for (wid, mset), res in results.items():
        metric = mset[0]
        w = byid[wid]
        ck.evaluations += 1
        if "exception" in res:
            ck.impl_errors += 1
            if ck.impl_error_sample is None:
                ck.impl_error_sample = {"case": {"world": wid, "metric": metric}, "traceback": res["traceback"]}
            continue
        valid = [(n, o) for n, o in priced[wid] if "energy" in o]
        for n, o in priced[wid]:
            if "exception" in o:
                ck.impl_errors += 1
                if ck.impl_error_sample is None:
                    ck.impl_error_sample = {"case": ln.short(n), "traceback": o["traceback"]}
        cands = [[mc.objective(metric, o["energy"], o["latency"])] for n, o in valid]
        ret = []
        for row in res["rows"]:
            t = row["totals"]
            ret.append([mc.objective(metric, mc.fr(t["energy"]), mc.fr(t["latency"]))])
        rc, rr = mc.rank_columns(cands, ret)
        cid = "%d/%s" % (wid, metric)
        cases.append({"id": cid, "kind": "optimum", "cands": rc, "ret": rr})
        meta[cid] = (w, metric, valid, cands, ret, res)
        if len({c[0] for c in cands}) >= 2:
            ck.count_nontrivial(cid)
    if not cases:
        raise Machinery("no mapper run produced a result")
    verdicts = mc.fronts_verdicts(ck, cases)
    for cid, v in verdicts.items():
        w, metric, valid, cands, ret, res = meta[cid]
        ck.traces += 1
        if v["uncovered"]:
            k = v["uncovered"] - 1
            nodes, out = valid[k]
            best_ret = min((r[0] for r in ret), default=None)
            ck.violation("C01/enumerated-mapping-beats-mapper/%s" % metric,
                         "world %d (%s %s), metric %s: mapping %s has objective %s, best returned by the mapper is %s "
                         "(%d valid of %d enumerated mappings)"
                         % (w["id"], w["kind"], w["bound"], metric, ln.short(nodes), cands[k][0], best_ret,
                            len(valid), v["ncands"]),
                         {"world": w, "nodes": nodes, "metric": metric,
                          "candidate_objective": str(cands[k][0]), "mapper_best": str(best_ret)})
        if len(ck.samples) < 4:
            ck.sample({"world": {"kind": w["kind"], "bound": w["bound"], "size": w["size"], "keep": w["keep"],
                                 "maykeep": w["maykeep"]},
                       "metric": metric, "enumerated": v["ncands"], "valid": len(valid),
                       "mapspace_optimum": str(min(c[0] for c in cands)) if cands else None,
                       "mapper_best": str(min((r[0] for r in ret), default=None)),
                       "mapper_better_than_every_enumerated": v["better"]})
    ck.extra["mapper_strictly_better_than_enumeration"] = sum(1 for v in verdicts.values() if v["better"])
    ck.extra["mapspace_sizes"] = {str(w["id"]): len(priced[w["id"]]) for w in worlds}
    mid_part(ck)


def replay(path):
    import os
    rec = json.load(open(path))
    w, nodes, metric = rec["world"], rec["nodes"], rec["metric"]
    d = os.path.join(os.path.dirname(os.path.abspath(path)), "_replay_tmp")
    out = ms.evaluate(w, nodes, d, "replay")
    if "error" in out:
        print("candidate mapping is rejected by the model now:", out)
        return 0
    cand = mc.objective(metric, out["energy"], out["latency"])
    res = mc._mapper_job((w, (metric,), None, d, True))
    if "exception" in res:
        print(res["traceback"])
        return 2
    best = min(mc.objective(metric, mc.fr(r["totals"]["energy"]), mc.fr(r["totals"]["latency"])) for r in res["rows"])
    print("mapping:", ln.short(nodes))
    print("candidate objective (%s): %s ; mapper best: %s" % (metric, cand, best))
    if cand < best:
        print("VIOLATION property=C01 replay=%s" % path)
        return 1
    print("no disagreement on this case")
    return 0
