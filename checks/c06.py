"""C06 — reported memory usage equals the execution-time peak occupancy.

Spec: spec/LoopNest.tla.  During execution every memory holder records, per residency,
the first and last compute step that uses each of its elements (the outermost holder of
a tensor keeps its whole tile for its whole scope); `live[m][step]` accumulates the live
bits; PeakOf(m) is the execution-time peak (element liveness, ground truth).  Two static
readings of "the tile a holder occupies" are defined next to it: TileBits (the tile at the
holder's own position, guide/spec/mapping.rst) and FootprintBits (the model's streaming
assumption).  TLC checks the lemma Peak <= Footprint <= Tile on every explored mapping
(role A) and prints all three numbers; the harness compares the real model's
resource_usage()*size with them:

  decisive:  Peak <= usage*size <= Tile                     (every mapping)
             usage*size = Footprint   where Footprint = Peak (both readings agree)
             Peak  > size  =>  InvalidMappingError ;  Tile <= size  =>  accepted
  recorded:  usage*size vs Footprint where the readings differ (evidence only)
"""
from __future__ import annotations

import json
import random
from fractions import Fraction

from harness import loopnest as ln
from harness import microspec as ms
from harness.core import Check, Machinery


def _worlds(ck, n, start, exhaustive=False, tight=False):
    rng = random.Random(7000 * ck.seed + start)
    out = []
    kinds = ["matmul", "matvec", "reduce", "elementwise", "matmul"]
    for i in range(n):
        kind = kinds[(i + ck.seed) % len(kinds)]
        nrv = {"matmul": 3, "matvec": 2, "reduce": 2, "elementwise": 2}[kind]
        if exhaustive:
            bounds = [2] * nrv if kind == "matmul" else [2, 4][:nrv]
            n_mem = 2
        else:
            bounds = [rng.choice([2, 3, 4, 4, 6]) for _ in range(nrv)]
            while 1:
                p = 1
                for b in bounds:
                    p *= b
                if p <= 48:
                    break
                bounds[bounds.index(max(bounds))] = 2
            n_mem = rng.choice([2, 3])
        w = ms.gen_world(rng, start + i, n_mem=n_mem, bounds=bounds, rich_costs=True, kind=kind)
        for c in w["size"]:
            w["size"][c] = 65536
        if tight:
            # inner memories around the tile sizes so that capacity sometimes binds
            for c in w["size"]:
                if w["level"][c] > 0:
                    w["size"][c] = rng.choice([16, 32, 64, 128])
        out.append(w)
    return out


def compare(ck: Check, worlds, records, outs, label):
    byid = {w["id"]: w for w in worlds}
    st = ck.extra.setdefault("stats", {"readings_agree": 0, "readings_differ": 0,
                                       "differ_and_usage_equals_footprint": 0, "rejected": 0,
                                       "rejected_between_peak_and_tile": 0})
    for rec, out in zip(records, outs):
        w = byid[rec["wid"]]
        ck.evaluations += 1
        if "exception" in out:
            ck.impl_errors += 1
            if ck.impl_error_sample is None:
                ck.impl_error_sample = {"case": ln.short(rec["nodes"]), "traceback": out["traceback"]}
            continue
        mems = [c for c in w["level"] if not w["istoll"][c]]
        ck.traces += 1
        if "error" in out:
            st["rejected"] += 1
            # must be acceptable to reject: some memory's tile-reading exceeds its size
            if all(rec["tilebits"][m] <= w["size"][m] for m in mems):
                ck.violation("C06/rejects-mapping-that-fits-under-every-reading",
                             "model raised %s for %s although even the unlowered tiles fit: tile bits %s, sizes %s"
                             % (out["error"], ln.short(rec["nodes"]), rec["tilebits"], w["size"]),
                             {"world": w, "nodes": rec["nodes"], "expected": rec})
            elif all(rec["peak"][m] <= w["size"][m] for m in mems):
                st["rejected_between_peak_and_tile"] += 1
            continue
        over = [m for m in mems if rec["peak"][m] > w["size"][m]]
        if over:
            ck.violation("C06/accepts-oversubscribed-mapping",
                         "execution peak %s bits exceeds size %s of %s but the model accepted %s"
                         % (rec["peak"][over[0]], w["size"][over[0]], over[0], ln.short(rec["nodes"])),
                         {"world": w, "nodes": rec["nodes"], "expected": rec})
            continue
        nontriv = False
        for m in mems:
            got = out["usage"].get(m, Fraction(0)) * w["size"][m]
            peak, foot, tile = rec["peak"][m], rec["footprint"][m], rec["tilebits"][m]
            if foot != tile or peak != tile:
                nontriv = True
            if got < peak:
                ck.violation("C06/under-reservation",
                             "%s: reported %s bits in %s, execution-time peak is %s (footprint %s, tiles %s)"
                             % (ln.short(rec["nodes"]), got, m, peak, foot, tile),
                             {"world": w, "nodes": rec["nodes"], "expected": rec, "memory": m})
            elif got > tile:
                ck.violation("C06/over-reservation-beyond-tile-sizes",
                             "%s: reported %s bits in %s, but the holders' own tiles sum to %s"
                             % (ln.short(rec["nodes"]), got, m, tile),
                             {"world": w, "nodes": rec["nodes"], "expected": rec, "memory": m})
            elif foot == peak:
                st["readings_agree"] += 1
                if got != foot:
                    ck.violation("C06/usage-differs-from-peak",
                                 "%s: reported %s bits in %s; peak occupancy = streaming footprint = %s"
                                 % (ln.short(rec["nodes"]), got, m, foot),
                                 {"world": w, "nodes": rec["nodes"], "expected": rec, "memory": m})
            else:
                st["readings_differ"] += 1
                if got == foot:
                    st["differ_and_usage_equals_footprint"] += 1
        if nontriv:
            ck.count_nontrivial((rec["wid"], json.dumps(rec["nodes"])))
    if records:
        r = records[len(records) // 2]
        ck.sample({"generator": label, "world": r["wid"], "mapping": ln.short(r["nodes"]),
                   "peak_bits": r["peak"], "footprint_bits": r["footprint"], "tile_bits": r["tilebits"]})


def run(ck: Check):
    thorough = ck.tier == "thorough"
    ck.rule = ("TLC constructs and executes single-Einsum mappings (holders at arbitrary depths, 2-3 levels) with "
               "element-liveness tracking; expected peak / footprint / tile bits per memory are printed and compared with "
               "resource_usage()*size of evaluate_mapping; tight worlds have small inner memories so that rejection is "
               "exercised. Non-trivial = some memory where lowering or liveness makes a difference (peak or footprint "
               "below the unlowered tile sum); distinct by (world, node sequence).")
    ck.assumptions += ["fused multi-Einsum mappings, persistent tensors and n_instances scaling of C06 are not yet "
                       "covered by this check (single-Einsum nests only)"]
    small = _worlds(ck, 1, 1, exhaustive=True)
    ln.coverage_run(ck, small, "MC_LoopNest_tiny.cfg", "cov")
    ex = _worlds(ck, 2 if not thorough else 5, 10, exhaustive=True)
    res = ln.run_tlc(ck, ex, "MC_LoopNest_small.cfg" if not thorough else "MC_LoopNest_mid.cfg", "exh", timeout=3000)
    if not res.ok:
        raise Machinery("MC_LoopNest exhaustive run failed (lemma Peak<=Footprint<=Tile or execution invariant): %s\n%s"
                        % (res.violated, res.tail))
    compare(ck, ex, res.records, ln.evaluate_records(ck, ex, res.records), "exhaustive")
    for tight in (False, True):
        sim = _worlds(ck, 6 if not thorough else 24, 100 + 50 * tight, tight=tight)
        res = ln.run_tlc(ck, sim, "MC_LoopNest_sim.cfg", "sim%d" % tight,
                         simulate="num=%d" % (350 if not thorough else 5000), depth=1500,
                         seed=ck.seed + 11 + tight, workers=8, timeout=3000)
        if not res.ok:
            raise Machinery("MC_LoopNest simulation failed: %s\n%s" % (res.violated, res.tail))
        compare(ck, sim, res.records, ln.evaluate_records(ck, sim, res.records), "simulate tight=%s" % tight)
    ck.extra["role_A"] = "FootprintLemma (Peak <= Footprint <= Tile) and ExecOK hold on every explored mapping"


def replay(path):
    import os
    rec = json.load(open(path))
    w = rec["world"]
    d = os.path.join(os.path.dirname(os.path.abspath(path)), "_replay_tmp")
    out = ms.evaluate(w, rec["nodes"], d, "replay")
    exp = rec["expected"]
    print("mapping:", ln.short(rec["nodes"]))
    print("spec: peak", exp["peak"], "footprint", exp["footprint"], "tiles", exp["tilebits"], "sizes", w["size"])
    bad = False
    mems = [c for c in w["level"] if not w["istoll"][c]]
    if "error" in out:
        print("model:", out)
        bad = all(exp["tilebits"][m] <= w["size"][m] for m in mems)
    else:
        for m in mems:
            got = out["usage"].get(m, Fraction(0)) * w["size"][m]
            print("model: %s bits in %s" % (got, m))
            if got < exp["peak"][m] or got > exp["tilebits"][m] or (exp["peak"][m] == exp["footprint"][m] and got != exp["peak"][m]):
                bad = True
            if exp["peak"][m] > w["size"][m]:
                bad = True
    if bad:
        print("VIOLATION property=C06 replay=%s" % path)
        return 1
    print("no disagreement on this case")
    return 0
