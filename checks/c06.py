"""C06 — reported memory usage equals the execution-time peak occupancy.

Spec: spec/LoopNest.tla.  During execution every memory holder records, per residency,
the first and last compute step that uses each of its elements (the outermost holder of
a tensor keeps its whole tile for its whole scope); `live[m][step]` accumulates the live
bits; PeakOf(m) is the execution-time peak (element liveness, ground truth).  Two static
readings of "the tile a holder occupies" are defined next to it: TileBits (the tile at the
holder's own position, guide/spec/mapping.rst) and FootprintBits (the model's streaming
assumption).  TLC checks the lemma Peak <= Footprint <= Tile on every explored mapping
(role A) and prints all three numbers; the harness compares the real model's
resource_usage()*size with them:

  decisive:  Peak <= usage*size <= Tile                     (every mapping)
             usage*size = Footprint   where Footprint = Peak (both readings agree)
             Peak  > size  =>  InvalidMappingError ;  Tile <= size  =>  accepted
  recorded:  usage*size vs Footprint where the readings differ (evidence only)
"""
from __future__ import annotations

import json
import random
from fractions import Fraction

from harness import loopnest as ln
from harness import microspec as ms
from harness.core import Check, Machinery


def _worlds(ck, n, start, exhaustive=False, tight=False):
    rng = random.Random(7000 * ck.seed + start)
    out = []
    kinds = ["matmul", "matvec", "reduce", "elementwise", "matmul"]
    for i in range(n):
        kind = kinds[(i + ck.seed) % len(kinds)]
        nrv = {"matmul": 3, "matvec": 2, "reduce": 2, "elementwise": 2}[kind]
        if exhaustive:
            bounds = [2] * nrv if kind == "matmul" else [2, 4][:nrv]
            n_mem = 2
        else:
            bounds = [rng.choice([2, 3, 4, 4, 6]) for _ in range(nrv)]
            while 1:
                p = 1
                for b in bounds:
                    p *= b
                if p <= 48:
                    break
                bounds[bounds.index(max(bounds))] = 2
            n_mem = rng.choice([2, 3])
        w = ms.gen_world(rng, start + i, n_mem=n_mem, bounds=bounds, rich_costs=True, kind=kind)
        for c in w["size"]:
            w["size"][c] = 65536
        if i % 2 == 1:
            w["allowpers"] = True
            w["ninst"] = rng.choice([1, 2, 3])   # persistent holders keep one copy per instance
        if tight:
            # inner memories around the tile sizes so that capacity sometimes binds
            for c in w["size"]:
                if w["level"][c] > 0:
                    w["size"][c] = rng.choice([16, 32, 64, 128])
        out.append(w)
    return out


def compare(ck: Check, worlds, records, outs, label):
    byid = {w["id"]: w for w in worlds}
    st = ck.extra.setdefault("stats", {"readings_agree": 0, "readings_differ": 0,
                                       "differ_and_usage_equals_footprint": 0, "rejected": 0,
                                       "rejected_between_peak_and_tile": 0})
    for rec, out in zip(records, outs):
        w = byid[rec["wid"]]
        ck.evaluations += 1
        if "exception" in out:
            ck.impl_errors += 1
            if ck.impl_error_sample is None:
                ck.impl_error_sample = {"case": ln.short(rec["nodes"]), "traceback": out["traceback"]}
            continue
        mems = [c for c in w["level"] if not w["istoll"][c]]
        ck.traces += 1
        if "error" in out:
            st["rejected"] += 1
            # must be acceptable to reject: some memory's tile-reading exceeds its size
            if all(rec["tilebits"][m] <= w["size"][m] for m in mems):
                ck.violation("C06/rejects-mapping-that-fits-under-every-reading",
                             "model raised %s for %s although even the unlowered tiles fit: tile bits %s, sizes %s"
                             % (out["error"], ln.short(rec["nodes"]), rec["tilebits"], w["size"]),
                             {"world": w, "nodes": rec["nodes"], "expected": rec})
            elif all(rec["peak"][m] <= w["size"][m] for m in mems):
                st["rejected_between_peak_and_tile"] += 1
            continue
        over = [m for m in mems if rec["peak"][m] > w["size"][m]]
        if over:
            ck.violation("C06/accepts-oversubscribed-mapping",
                         "execution peak %s bits exceeds size %s of %s but the model accepted %s"
                         % (rec["peak"][over[0]], w["size"][over[0]], over[0], ln.short(rec["nodes"])),
                         {"world": w, "nodes": rec["nodes"], "expected": rec})
            continue
        nontriv = False
        for m in mems:
            got = out["usage"].get(m, Fraction(0)) * w["size"][m]
            peak, foot, tile = rec["peak"][m], rec["footprint"][m], rec["tilebits"][m]
            if foot != tile or peak != tile:
                nontriv = True
            if got < peak:
                ck.violation("C06/under-reservation",
                             "%s: reported %s bits in %s, execution-time peak is %s (footprint %s, tiles %s)"
                             % (ln.short(rec["nodes"]), got, m, peak, foot, tile),
                             {"world": w, "nodes": rec["nodes"], "expected": rec, "memory": m})
            elif got > tile:
                ck.violation("C06/over-reservation-beyond-tile-sizes",
                             "%s: reported %s bits in %s, but the holders' own tiles sum to %s"
                             % (ln.short(rec["nodes"]), got, m, tile),
                             {"world": w, "nodes": rec["nodes"], "expected": rec, "memory": m})
            elif foot == peak:
                st["readings_agree"] += 1
                if got != foot:
                    ck.violation("C06/usage-differs-from-peak",
                                 "%s: reported %s bits in %s; peak occupancy = streaming footprint = %s"
                                 % (ln.short(rec["nodes"]), got, m, foot),
                                 {"world": w, "nodes": rec["nodes"], "expected": rec, "memory": m})
            else:
                st["readings_differ"] += 1
                if got == foot:
                    st["differ_and_usage_equals_footprint"] += 1
        if nontriv:
            ck.count_nontrivial((rec["wid"], json.dumps(rec["nodes"])))
    if records:
        r = records[len(records) // 2]
        ck.sample({"generator": label, "world": r["wid"], "mapping": ln.short(r["nodes"]),
                   "peak_bits": r["peak"], "footprint_bits": r["footprint"], "tile_bits": r["tilebits"]})


def run(ck: Check):
    thorough = ck.tier == "thorough"
    ck.rule = ("TLC constructs and executes single-Einsum mappings (holders at arbitrary depths, 2-3 levels) with "
               "element-liveness tracking; expected peak / footprint / tile bits per memory are printed and compared with "
               "resource_usage()*size of evaluate_mapping; tight worlds have small inner memories so that rejection is "
               "exercised. Non-trivial = some memory where lowering or liveness makes a difference (peak or footprint "
               "below the unlowered tile sum); distinct by (world, node sequence).")
    ck.assumptions += ["fused trees are those the real mapper returns on 2- and 3-Einsum chains (one Sequential split; nested "
                       "splits are counted, not modelled); persistent holders are exercised in single-Einsum nests only"]
    small = _worlds(ck, 1, 1, exhaustive=True)
    ln.coverage_run(ck, small, "MC_LoopNest_tiny.cfg", "cov")
    ex = _worlds(ck, 1 if not thorough else 5, 10, exhaustive=True)
    res = ln.run_tlc(ck, ex, "MC_LoopNest_small.cfg" if not thorough else "MC_LoopNest_mid.cfg", "exh", timeout=3000)
    if not res.ok:
        raise Machinery("MC_LoopNest exhaustive run failed (lemma Peak<=Footprint<=Tile or execution invariant): %s\n%s"
                        % (res.violated, res.tail))
    compare(ck, ex, res.records, ln.evaluate_records(ck, ex, res.records), "exhaustive")
    for tight in (False, True):
        sim = _worlds(ck, 6 if not thorough else 24, 100 + 50 * tight, tight=tight)
        res = ln.run_tlc(ck, sim, "MC_LoopNest_sim.cfg", "sim%d" % tight,
                         simulate="num=%d" % (200 if not thorough else 5000), depth=1500,
                         seed=ck.seed + 11 + tight, workers=8, timeout=3000)
        if not res.ok:
            raise Machinery("MC_LoopNest simulation failed: %s\n%s" % (res.violated, res.tail))
        compare(ck, sim, res.records, ln.evaluate_records(ck, sim, res.records), "simulate tight=%s" % tight)
    ck.extra["role_A"] = "FootprintLemma (Peak <= Footprint <= Tile) and ExecOK hold on every explored mapping"
    fused_part(ck)
    persistent_part(ck)


def chain_spec(rng, n_einsums, glb_choices=(128, 256, 512, 2048), bound_choices=(2, 4), ns=None, m=None):
    """(arch yaml, workload yaml, world) for a chain of matmuls T_{i+1}[m,n_{i+1}] = T_i[m,n_i] W_i[n_i,n_{i+1}]."""
    m_, ns_ = rng.choice([2, 4]), [rng.choice(list(bound_choices)) for _ in range(n_einsums + 1)]
    m = m_ if m is None else m
    ns = ns_ if ns is None else list(ns)
    glb = rng.choice(list(glb_choices))
    e = [rng.randint(1, 8) for _ in range(5)]
    arch = """
arch:
  nodes:
  - !Memory
    name: DRAM
    size: inf
    leak_power: 0
    area: 0
    tensors: {keep: ~Intermediates, may_keep: All}
    actions:
    - {name: read, energy: %d, throughput: 2}
    - {name: write, energy: %d, throughput: 2}
  - !Memory
    name: GLB
    size: %d
    leak_power: 0
    area: 0
    tensors: {keep: ~DRAM, may_keep: All}
    actions:
    - {name: read, energy: %d, throughput: 4}
    - {name: write, energy: %d, throughput: inf}
  - !Compute
    name: MAC
    leak_power: 0
    area: 0
    actions:
    - {name: compute, energy: %d, throughput: 1}
""" % (e[0], e[1], glb, e[2], e[3], e[4])
    wl = ["workload:", "  iteration_space_shape:", "    m: 0 <= m < %d" % m]
    for i, b in enumerate(ns):
        wl.append("    n%d: 0 <= n%d < %d" % (i, i, b))
    wl += ["  bits_per_value: {All: 8}", "  einsums:"]
    einsums, proj = [], {}
    for i in range(n_einsums):
        wl += ["  - name: M%d" % i, "    tensor_accesses:",
               "    - {name: T%d, projection: [m, n%d]}" % (i, i),
               "    - {name: W%d, projection: [n%d, n%d]}" % (i, i, i + 1),
               "    - {name: T%d, projection: [m, n%d], output: True}" % (i + 1, i + 1)]
        einsums.append({"name": "M%d" % i, "tensors": ["T%d" % i, "W%d" % i, "T%d" % (i + 1)]})
        proj["T%d" % i] = ["m", "n%d" % i]
        proj["W%d" % i] = ["n%d" % i, "n%d" % (i + 1)]
        proj["T%d" % (i + 1)] = ["m", "n%d" % (i + 1)]
    bound = {"m": m}
    bound.update({"n%d" % i: b for i, b in enumerate(ns)})
    world = {"bound": bound, "proj": proj, "level": {"DRAM": 0, "GLB": 1}, "istoll": {"DRAM": False, "GLB": False},
             "bits": {c: {t: 8 for t in proj} for c in ("DRAM", "GLB")}, "einsums": einsums, "size": {"DRAM": 0, "GLB": glb}}
    return arch, "\n".join(wl) + "\n", world


def _fused_job(args):
    arch, wl, metrics, d = args
    import os, traceback
    try:
        import functools, operator
        from accelforge.frontend.spec import Spec
        from accelforge.mapper import Metrics
        from accelforge.mapper.FFM.main import map_workload_to_arch
        from accelforge.util.parallel import set_n_parallel_jobs
        from checks import mapper_common as mc
        set_n_parallel_jobs(1)
        os.makedirs(d, exist_ok=True)
        os.chdir(d)
        tag = "f%d" % os.getpid()
        pa, pw = os.path.join(d, tag + "_a.yaml"), os.path.join(d, tag + "_w.yaml")
        open(pa, "w").write(arch)
        open(pw, "w").write(wl)
        spec = Spec.from_yaml(pa, pw)
        spec.mapper.metrics = functools.reduce(operator.or_, [getattr(Metrics, m) for m in metrics])
        r = map_workload_to_arch(spec, print_progress=False)
        rows = []
        for i in range(len(r.data)):
            one = r[i]
            usage = {k: mc._x(v) for k, v in one.resource_usage().items()}
            try:
                nodes = mc.export_tree_nested(r.data.iloc[i]["Total<SEP>mapping"]())
            except Exception as e:
                nodes = None
            rows.append({"usage": usage, "nodes": nodes})
        return {"rows": rows}
    except Exception as e:
        return {"exception": "%s: %s" % (type(e).__name__, e), "traceback": traceback.format_exc()[-3000:]}


def fused_part(ck):
    """Fused multi-Einsum clause: every mapping the real mapper returns on 2- and 3-Einsum chains (front with
    RESOURCE_USAGE as an objective, so that many differently fused trees come back) is one case of
    spec/FusedNest.tla; the reported usage * size must equal the spec's peak (tile-level first-to-last-use
    liveness at the streamed reservation position)."""
    import os
    from concurrent.futures import ProcessPoolExecutor
    from checks import mapper_common as mc
    thorough = ck.tier == "thorough"
    rng = random.Random(ck.seed * 29 + 606)
    specs = [chain_spec(rng, 2) for _ in range(3 if not thorough else 10)] + \
            [chain_spec(rng, 3) for _ in range(1 if not thorough else 4)]
    d = os.path.join(ck.work, "fused")
    jobs = []
    for a, w, world in specs:
        for mset in (("ENERGY", "LATENCY", "RESOURCE_USAGE"), ("ENERGY",)):
            jobs.append((a, w, mset, d))
    with ProcessPoolExecutor(6) as ex:
        outs = list(ex.map(_fused_job, jobs))
    cases, meta, unsupported, total = [], {}, 0, 0
    for ji, (job, o) in enumerate(zip(jobs, outs)):
        ck.evaluations += 1
        world = specs[ji // 2][2]
        if "exception" in o:
            ck.impl_errors += 1
            if ck.impl_error_sample is None:
                ck.impl_error_sample = {"case": "fused job %d" % ji, "traceback": o["exception"] + "\n" + o["traceback"]}
            continue
        for ri, row in enumerate(o["rows"]):
            total += 1
            if row["nodes"] is None:
                unsupported += 1
                continue
            cid = "F%d/%d" % (ji, ri)
            cases.append({"id": cid, "world": world, "tree": row["nodes"]})
            meta[cid] = (job, world, row)
    ck.extra["fused_rows"] = total
    ck.extra["fused_rows_not_exported"] = unsupported
    if total == 0:
        raise Machinery("the mapper returned nothing on every chain spec")
    if not cases:
        raise Machinery("spec gap: every returned fused tree has a shape FusedNest does not model")
    path = os.path.join(ck.work, "fused_cases.json")
    json.dump(cases, open(path, "w"))
    res = ck.tlc("FusedTree", "FusedTree.cfg", env={"CASES_FILE": path}, coverage=False, workers=4, timeout=2400)
    if not res.ok or len(res.records) != len(cases):
        raise Machinery("FusedTree run failed: %s\n%s" % (res.violated, res.tail))
    fused_seen = nested_seen = 0
    for v in res.records:
        job, world, row = meta[v["id"]]
        ck.traces += 1
        nodes = row["nodes"]
        qpos = [j for j, n in enumerate(nodes) if n["kind"] == "Q"]
        is_fused = bool(qpos) and any(n["kind"] == "T" for n in nodes[:qpos[0]])
        nested = any(n["kind"] == "Q" for q in qpos for ch in nodes[q]["children"] for n in ch)
        nested_seen += nested
        if is_fused or nested:
            fused_seen += 1
            ck.count_nontrivial(("fused", json.dumps(nodes)))
        for m, size in world["size"].items():
            if not size:
                continue
            got = mc.fr(row["usage"].get(m, [0, 1])) * size
            if got != v["peak"][m]:
                kind = "under-reservation" if got < v["peak"][m] else "over-reservation"
                ck.violation("C06/fused/%s" % kind,
                             "fused tree %s: reported %s bits in %s, execution-time peak of the live tiles is %s"
                             % (tree_str(nodes), got, m, v["peak"][m]),
                             {"kind": "fused", "arch": job[0], "workload": job[1], "metrics": job[2], "world": world, "nodes": nodes,
                              "memory": m})
    ck.extra["fused_trees_with_shared_loops_or_nested_splits"] = fused_seen
    ck.extra["fused_trees_with_nested_splits"] = nested_seen
    if len(ck.samples) < 6 and cases:
        c = cases[len(cases) // 2]
        ck.sample({"generator": "mapper result on a chain", "tree": tree_str(c["tree"]), "spec_peak": next(v["peak"] for v in res.records if v["id"] == c["id"]),
                   "reported_usage": {k: str(mc.fr(x)) for k, x in meta[c["id"]][2]["usage"].items()}})


PERSIST_ARCH = """
arch:
  nodes:
  - !Memory
    name: DRAM
    size: inf
    leak_power: 0
    area: 0
    tensors: {keep: ~Intermediates, may_keep: All}
    actions:
    - {name: read, energy: 1, throughput: inf}
    - {name: write, energy: 1, throughput: inf}
  - !Memory
    name: GLB
    size: %d
    leak_power: 0
    area: 0
    tensors: {keep: ~DRAM, may_keep: All}
    actions:
    - {name: read, energy: 1, throughput: inf}
    - {name: write, energy: 1, throughput: inf}
  - !Compute
    name: MAC
    leak_power: 0
    area: 0
    actions:
    - {name: compute, energy: 1, throughput: 1}
"""


def persistent_case(ninst, m, n0, n1, mt, glb, shared):
    """Two fused matmuls under a shared m loop with a PERSISTENT weight held in the GLB above every loop, in a workload
    that is repeated ninst times.  shared: both Einsums use the one weight W[n0, n1] (M1 contracts over n1), otherwise
    each has its own (W0[n0, n1], W1[n1, n2] with n2 = n0's bound)."""
    w1, r2 = ("W", "n0") if shared else ("W1", "n2")
    w0 = "W" if shared else "W0"
    wl = ["workload:", "  n_instances: %d" % ninst, "  iteration_space_shape:", "    m: 0 <= m < %d" % m,
          "    n0: 0 <= n0 < %d" % n0, "    n1: 0 <= n1 < %d" % n1]
    if not shared:
        wl.append("    n2: 0 <= n2 < %d" % n0)
    wl += ["  bits_per_value: {All: 8}", "  einsums:",
           "  - name: M0", "    tensor_accesses:", "    - {name: T0, projection: [m, n0]}",
           "    - {name: %s, projection: [n0, n1], persistent: True}" % w0, "    - {name: T1, projection: [m, n1], output: True}",
           "  - name: M1", "    tensor_accesses:", "    - {name: T1, projection: [m, n1]}",
           "    - {name: %s, projection: [%s, n1], persistent: True}" % (w1, r2) if shared else
           "    - {name: %s, projection: [n1, %s], persistent: True}" % (w1, r2),
           "    - {name: T2, projection: [m, %s], output: True}" % r2]
    proj = {"T0": ["m", "n0"], w0: ["n0", "n1"], "T1": ["m", "n1"], "T2": ["m", r2]}
    if not shared:
        proj[w1] = ["n1", r2]
    bound = {"m": m, "n0": n0, "n1": n1}
    if not shared:
        bound["n2"] = n0
    persist = sorted({w0, w1})
    world = {"bound": bound, "proj": proj, "level": {"DRAM": 0, "GLB": 1}, "istoll": {"DRAM": False, "GLB": False},
             "bits": {c: {t: 8 for t in proj} for c in ("DRAM", "GLB")},
             "einsums": [{"name": "M0", "tensors": ["T0", w0, "T1"]}, {"name": "M1", "tensors": ["T1", w1, "T2"]}],
             "size": {"DRAM": 0, "GLB": glb}, "persist": persist, "ninst": ninst}
    hid = [0]

    def S(mem, t, **kw):
        hid[0] += 1
        return dict({"kind": "S", "id": hid[0], "mem": mem, "t": t}, **kw)
    inner = [{"kind": "T", "rv": "m", "tile": 1}] if mt > 1 else []
    tree = [S("DRAM", "T0"), S("DRAM", "T2")] + [S("GLB", t, persistent=True) for t in persist] + \
           [{"kind": "T", "rv": "m", "tile": mt}, S("GLB", "T0"), S("GLB", "T2"), S("GLB", "T1"),
            {"kind": "Q", "children": [
                inner + [{"kind": "T", "rv": "n0", "tile": 1}, {"kind": "T", "rv": "n1", "tile": 1}, {"kind": "C", "einsum": "M0"}],
                inner + [{"kind": "T", "rv": "n1", "tile": 1}, {"kind": "T", "rv": r2, "tile": 1}, {"kind": "C", "einsum": "M1"}]]}]
    return PERSIST_ARCH % glb, "\n".join(wl) + "\n", world, tree


def _persist_job(args):
    arch, wl, nodes, d, tag = args
    import os, traceback
    try:
        from accelforge.frontend.spec import Spec
        from accelforge.model.main import evaluate_mapping
        from accelforge.util.parallel import set_n_parallel_jobs
        from checks import mapper_common as mc
        set_n_parallel_jobs(1)
        os.makedirs(d, exist_ok=True)
        paths = []
        for name, txt in (("a", arch), ("w", wl), ("m", fused_mapping_yaml(nodes))):
            paths.append(os.path.join(d, "%s_%s.yaml" % (tag, name)))
            open(paths[-1], "w").write(txt)
        r = evaluate_mapping(Spec.from_yaml(*paths))
        return {"usage": {k: mc._x(v) for k, v in r.resource_usage().items()}}
    except Exception as e:
        return {"exception": "%s: %s" % (type(e).__name__, e), "traceback": traceback.format_exc()[-3000:]}


def persistent_part(ck):
    """Concrete fused mappings with persistent weights and a repeated workload (n_instances 1..3): the model's reported
    GLB usage against spec/FusedTree's peak, in which a persistent tile exists once per workload instance."""
    import os
    from concurrent.futures import ProcessPoolExecutor
    from checks import mapper_common as mc
    thorough = ck.tier == "thorough"
    rng = random.Random(ck.seed * 31 + 660)
    combos = []
    for shared in (True, False):
        for ninst in (1, 2, 3):
            for k in range(1 if not thorough else 4):
                m = rng.choice([4, 8])
                combos.append((ninst, m, rng.choice([2, 4]), rng.choice([2, 4]), rng.choice([1, 2, m]), rng.choice([4096, 8192]), shared))
    built = [persistent_case(*c) for c in combos]
    d = os.path.join(ck.work, "persist")
    with ProcessPoolExecutor(4) as ex:
        outs = list(ex.map(_persist_job, [(a, w, tree, d, "p%d" % i) for i, (a, w, world, tree) in enumerate(built)]))
    cases = [{"id": "P%d" % i, "world": world, "tree": tree} for i, (a, w, world, tree) in enumerate(built)]
    path = os.path.join(ck.work, "persist_cases.json")
    json.dump(cases, open(path, "w"))
    res = ck.tlc("FusedTree", "FusedTree.cfg", env={"CASES_FILE": path}, coverage=False, workers=2, timeout=1200)
    if not res.ok or len(res.records) != len(cases):
        raise Machinery("FusedTree run (persistent part) failed: %s\n%s" % (res.violated, res.tail))
    peaks = {v["id"]: v["peak"] for v in res.records}
    done = 0
    for i, ((a, w, world, tree), o, combo) in enumerate(zip(built, outs, combos)):
        ck.evaluations += 1
        if "exception" in o:
            ck.impl_errors += 1
            if ck.impl_error_sample is None:
                ck.impl_error_sample = {"case": "persistent fused mapping %s" % (combo,), "traceback": o["exception"] + "\n" + o["traceback"]}
            continue
        ck.traces += 1
        done += 1
        if combo[0] > 1:
            ck.count_nontrivial(("persist", combo))
        got = mc.fr(o["usage"].get("GLB", [0, 1])) * world["size"]["GLB"]
        peak = peaks["P%d" % i]["GLB"]
        if got != peak:
            ck.violation("C06/fused/persistent/%s" % ("under-reservation" if got < peak else "over-reservation"),
                         "fused tree %s with persistent %s, n_instances %d: reported %s bits in GLB, execution-time peak is %s"
                         % (tree_str(tree), world["persist"], combo[0], got, peak),
                         {"kind": "fused", "arch": a, "workload": w, "metrics": None, "world": world, "nodes": tree, "memory": "GLB"})
    ck.extra["persistent_fused_mappings_evaluated"] = done
    if not done:
        raise Machinery("persistent part: the model evaluated none of the concrete fused mappings: %s" % ck.impl_error_sample)


def tree_str(nodes):
    out = []
    for n in nodes:
        if n["kind"] == "S":
            out.append("%s[%s]" % (n["mem"], n["t"]))
        elif n["kind"] == "T":
            out.append("for %s:%s" % (n["rv"], n["tile"]))
        elif n["kind"] == "C":
            out.append("C(%s)" % n["einsum"])
        else:
            out.append("Seq{" + " || ".join(tree_str(ch) for ch in n["children"]) + "}")
    return " / ".join(out)


def fused_mapping_yaml(nodes):
    out = ["mapping:", "  nodes:"]

    def emit(ns, ind):
        for n in ns:
            if n["kind"] == "S":
                out.append("%s- !Storage {tensors: [%s], component: %s%s}" % (ind, n["t"], n["mem"],
                                                                              ", persistent: True" if n.get("persistent") else ""))
            elif n["kind"] == "T":
                out.append("%s- !Temporal {rank_variable: %s, tile_shape: %d}" % (ind, n["rv"], n["tile"]))
            elif n["kind"] == "C":
                out.append("%s- !Compute {einsum: %s, component: MAC}" % (ind, n["einsum"]))
            else:
                out.append("%s- !Sequential" % ind)
                out.append("%s  nodes:" % ind)
                for ch in n["children"]:
                    out.append("%s  - !Nested" % ind)
                    out.append("%s    nodes:" % ind)
                    emit(ch, ind + "    ")
    emit(nodes, "  ")
    return "\n".join(out) + "\n"


def replay_fused(path, rec):
    import os
    from accelforge.frontend.spec import Spec
    from accelforge.model.main import evaluate_mapping
    from checks import mapper_common as mc
    from accelforge.util.parallel import set_n_parallel_jobs
    set_n_parallel_jobs(1)
    d = os.path.join(os.path.dirname(os.path.abspath(path)), "_replay_tmp")
    os.makedirs(d, exist_ok=True)
    for name, txt in (("a", rec["arch"]), ("w", rec["workload"]), ("m", fused_mapping_yaml(rec["nodes"]))):
        open(os.path.join(d, name + ".yaml"), "w").write(txt)
    r = evaluate_mapping(Spec.from_yaml(*[os.path.join(d, x + ".yaml") for x in "awm"]))
    usage = r.resource_usage()
    ck = Check("C06", "quick", 0)
    ck.work = d
    p = os.path.join(d, "case.json")
    json.dump([{"id": "r", "world": rec["world"], "tree": rec["nodes"]}], open(p, "w"))
    res = ck.tlc("FusedTree", "FusedTree.cfg", env={"CASES_FILE": p}, coverage=False, workers=1, timeout=600)
    v = res.records[0]
    bad = False
    for m, size in rec["world"]["size"].items():
        if size:
            got = Fraction(*float(usage.get(m, 0)).as_integer_ratio()) * size
            print("%s: model %s bits, spec peak %s" % (m, got, v["peak"][m]))
            bad |= got != v["peak"][m]
    if bad:
        print("VIOLATION property=C06 replay=%s" % path)
        return 1
    print("no disagreement on this case")
    return 0


def replay(path):
    import os
    rec = json.load(open(path))
    if rec.get("kind") == "fused":
        return replay_fused(path, rec)
    w = rec["world"]
    d = os.path.join(os.path.dirname(os.path.abspath(path)), "_replay_tmp")
    out = ms.evaluate(w, rec["nodes"], d, "replay")
    exp = rec["expected"]
    print("mapping:", ln.short(rec["nodes"]))
    print("spec: peak", exp["peak"], "footprint", exp["footprint"], "tiles", exp["tilebits"], "sizes", w["size"])
    bad = False
    mems = [c for c in w["level"] if not w["istoll"][c]]
    if "error" in out:
        print("model:", out)
        bad = all(exp["tilebits"][m] <= w["size"][m] for m in mems)
    else:
        for m in mems:
            got = out["usage"].get(m, Fraction(0)) * w["size"][m]
            print("model: %s bits in %s" % (got, m))
            if got < exp["peak"][m] or got > exp["tilebits"][m] or (exp["peak"][m] == exp["footprint"][m] and got != exp["peak"][m]):
                bad = True
            if exp["peak"][m] > w["size"][m]:
                bad = True
    if bad:
        print("VIOLATION property=C06 replay=%s" % path)
        return 1
    print("no disagreement on this case")
    return 0
