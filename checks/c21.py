"""C21 -- spec expressions evaluate in dependency order with correct scoping; cycles raise
EvaluationError.

Spec: spec/ExprEval.tla (definition Resolve/HasCycle/Val/Expected; the algorithm EvalField,
role A), spec/MC_ExprEval.tla (families G1/G2 and the random generator),
spec/Trace_ExprEval.tla (role C).

Binding B: every record TLC prints (definitions per scope in key order, as source text,
and Expected = "error" or the value of every definition) is built into a real
accelforge Spec
    scope 1 Spec.variables            scope 2 arch.variables
    scope 3 CompA.extra_attributes_for_component_model   scope 4 CompA declared attributes
    scope 5 CompB.extra_attributes_for_component_model   scope 6 CompB declared attributes
(CompA is a Memory, CompB a Compute, both directly under the arch) and evaluated through
Spec._spec_eval_expressions, Spec.calculate_component_costs and (a YAML file ->)
Spec.from_yaml -> _spec_eval_expressions; every evaluated value is compared exactly with
TLC's, and a case with a cycle must raise EvaluationError.

Binding C: while _spec_eval_expressions runs, every eval_field call on a generated
definition is recorded (scope, name, value); TLC (Trace_ExprEval) accepts the recorded
order only if it is a behaviour of ExprEval.
"""
from __future__ import annotations

import json
import os
from concurrent.futures import ProcessPoolExecutor
from fractions import Fraction

from harness.core import Check, Machinery

COMP_A, COMP_B = "CompA", "CompB"
# attributes whose value calculate_component_costs legitimately rewrites (base*scales)
REWRITTEN_BY_COSTS = {"area", "leak_power", "total_area", "total_leak_power"}


# ----------------------------------------------------------------------------- building
def _value(d):
    return int(d["src"]) if d["kind"] == "int" else d["src"]


def _scope_dict(rec, s):
    return {d["n"]: _value(d) for d in rec["scopes"][s - 1]}


def build_spec(rec):
    from accelforge.frontend.spec import Spec
    from accelforge.frontend.arch import Arch, Memory, Compute
    fa = _scope_dict(rec, 4)
    fb = _scope_dict(rec, 6)
    # attributes the classes require and the case does not mention: plain numbers that no
    # generated expression refers to (a reference would not be WellScoped in the spec)
    for f, dflt in (("size", 1), ("area", 0), ("leak_power", 0)):
        fa.setdefault(f, dflt)
    for f, dflt in (("area", 0), ("leak_power", 0)):
        fb.setdefault(f, dflt)
    return Spec(
        variables=_scope_dict(rec, 1),
        arch=Arch(
            variables=_scope_dict(rec, 2),
            nodes=[
                Memory(name=COMP_A, **fa,
                       extra_attributes_for_component_model=_scope_dict(rec, 3),
                       actions=[dict(name="read", energy=1, throughput=1),
                                dict(name="write", energy=1, throughput=1)]),
                Compute(name=COMP_B, **fb,
                        extra_attributes_for_component_model=_scope_dict(rec, 5),
                        actions=[dict(name="compute", energy=1, throughput=1)]),
            ]))


def to_yaml(rec):
    def block(s, ind):
        return "".join("%s%s: %s\n" % (" " * ind, d["n"], d["src"]) for d in rec["scopes"][s - 1])
    have = lambda s: {d["n"] for d in rec["scopes"][s - 1]}
    y = "variables:\n" + block(1, 2) if rec["scopes"][0] else ""
    y += "arch:\n"
    if rec["scopes"][1]:
        y += "  variables:\n" + block(2, 4)
    y += "  nodes:\n  - !Memory\n    name: %s\n" % COMP_A
    for f, dflt in (("size", 1), ("area", 0), ("leak_power", 0)):
        if f not in have(4):
            y += "    %s: %s\n" % (f, dflt)
    y += block(4, 4)
    if rec["scopes"][2]:
        y += "    extra_attributes_for_component_model:\n" + block(3, 6)
    y += "    actions:\n    - {name: read, energy: 1, throughput: 1}\n    - {name: write, energy: 1, throughput: 1}\n"
    y += "  - !Compute\n    name: %s\n" % COMP_B
    for f, dflt in (("area", 0), ("leak_power", 0)):
        if f not in have(6):
            y += "    %s: %s\n" % (f, dflt)
    y += block(6, 4)
    if rec["scopes"][4]:
        y += "    extra_attributes_for_component_model:\n" + block(5, 6)
    y += "    actions:\n    - {name: compute, energy: 1, throughput: 1}\n"
    return y


def read_values(ev, rec):
    """Abstraction function: evaluated Spec -> list (per scope) of values in key order."""
    a = ev.arch.find(COMP_A)
    b = ev.arch.find(COMP_B)
    holders = {1: ev.variables, 2: ev.arch.variables,
               3: a.extra_attributes_for_component_model, 4: a,
               5: b.extra_attributes_for_component_model, 6: b}
    out = []
    for s in range(1, 7):
        row = []
        for d in rec["scopes"][s - 1]:
            try:
                row.append(getattr(holders[s], d["n"]))
            except AttributeError:
                row.append("<missing>")
        out.append(row)
    return out


def _same(got, exp):
    if isinstance(got, bool) or not isinstance(got, (int, float)):
        return False
    try:
        return Fraction(got) == Fraction(exp)
    except (ValueError, OverflowError):
        return False


# ----------------------------------------------------------------------------- tracing
class _Recorder:
    """Records (scope, name, value) for every eval_field call on a generated definition."""

    def __init__(self):
        import accelforge.util._basetypes as bt
        self.bt = bt
        self.orig = bt.eval_field
        self.stack = []
        self.events = None
        self.names = None
        bt.eval_field = self._wrapped

    def _scope_of(self, parent):
        from accelforge.frontend.variables import Variables
        from accelforge.frontend.arch import Arch, Component
        from accelforge.util._basetypes import EvalExtras
        if isinstance(parent, Variables):
            return 1
        if isinstance(parent, Component):
            return {COMP_A: 4, COMP_B: 6}.get(parent.name)
        if isinstance(parent, EvalExtras) and self.stack:
            pp, pf = self.stack[-1]
            if isinstance(pp, Arch) and pf == "variables":
                return 2
            if isinstance(pp, Component) and pf == "extra_attributes_for_component_model":
                return {COMP_A: 3, COMP_B: 5}.get(pp.name)
        return None

    def _wrapped(self, field, value, validator, symbol_table, parent, **kw):
        if self.events is None:
            return self.orig(field, value, validator, symbol_table, parent, **kw)
        s = self._scope_of(parent)
        self.stack.append((parent, field))
        try:
            r = self.orig(field, value, validator, symbol_table, parent, **kw)
        finally:
            self.stack.pop()
        if s is not None and (s, field) in self.names:
            self.events.append([s, field, r])
        return r

    def start(self, rec):
        self.names = {(s, d["n"]) for s in range(1, 7) for d in rec["scopes"][s - 1]}
        self.events = []
        self.stack = []

    def stop(self):
        ev, self.events = self.events, None
        return ev


_REC = None


def _init_worker():
    global _REC
    import logging
    import warnings
    warnings.filterwarnings("ignore")
    logging.disable(logging.CRITICAL)
    import accelforge  # noqa
    _REC = _Recorder()


# ----------------------------------------------------------------------------- one case
def run_entry(rec, entry, workdir=None, tag="x"):
    """Drive one entry point; returns (outcome, values|message, events)
    outcome in ok / EvaluationError / other:<Type> / build:<Type>."""
    from accelforge.util.exceptions import EvaluationError
    from accelforge.frontend.spec import Spec
    events = None
    try:
        if entry == "yaml":
            path = os.path.join(workdir or ".", "case_%s.yaml" % tag)
            with open(path, "w") as f:
                f.write(to_yaml(rec))
            try:
                spec = Spec.from_yaml(path)
            finally:
                os.unlink(path)
        else:
            spec = build_spec(rec)
    except Exception as e:  # noqa
        return "build:" + type(e).__name__, "%s" % e, None
    try:
        if entry == "costs":
            ev = spec.calculate_component_costs()
        else:
            if entry == "eval" and _REC is not None:
                _REC.start(rec)
            try:
                ev = spec._spec_eval_expressions()
            finally:
                if entry == "eval" and _REC is not None:
                    events = _REC.stop()
        return "ok", read_values(ev, rec), events
    except EvaluationError as e:
        return "EvaluationError", str(e)[:300], events
    except Exception as e:  # noqa
        return "other:" + type(e).__name__, ("%s" % e)[:300], events


def judge(rec, entry, outcome, payload):
    """None if the implementation agrees with TLC's expectation, else (signature, detail).
    ('impl', msg) marks an exception that the property neither requires nor forbids."""
    exp = rec["result"]
    shadow = "shadowing" if rec["flags"]["shadow"] else "no-shadowing"
    if outcome.startswith("build:"):
        return ("impl", "%s while building the Spec: %s" % (outcome, payload))
    if exp == "error":
        if outcome == "EvaluationError":
            return None
        if outcome == "ok":
            return ("C21/%s/cycle-produces-values" % entry,
                    "the definitions contain a dependency cycle but evaluation returned values %s"
                    % json.dumps(payload, default=repr))
        return ("C21/%s/cycle-raises-%s" % (entry, outcome.split(":", 1)[1]),
                "the definitions contain a dependency cycle; the property requires EvaluationError, got %s: %s"
                % (outcome, payload))
    # acyclic
    if outcome == "EvaluationError":
        kind = "false-cycle" if "ircular" in payload else "evaluation-error"
        return ("C21/%s/acyclic-raises-EvaluationError/%s" % (entry, kind),
                "acyclic definitions, every name visible, but evaluation raised EvaluationError: %s" % payload)
    if outcome != "ok":
        return ("impl", "%s: %s" % (outcome, payload))
    bad = []
    for s in range(1, 7):
        for d, g, x in zip(rec["scopes"][s - 1], payload[s - 1], rec["val"][s - 1]):
            if entry == "costs" and s in (4, 6) and d["n"] in REWRITTEN_BY_COSTS:
                continue
            if not _same(g, x):
                bad.append((s, d["n"], d["src"], g, x))
    if bad:
        s, n, src, g, x = bad[0]
        return ("C21/%s/wrong-value/%s" % (entry, shadow),
                "scope %d: %s = %r evaluated to %r, the definition gives %r (%d value(s) differ)"
                % (s, n, src, g, x, len(bad)))
    return None


def _warm(i):
    import time
    time.sleep(0.3)
    return os.getpid()


def _eval_chunk(args):
    recs, entries, workdir, base = args
    if _REC is None:
        _init_worker()
    out = []      # (k, entry, signature, detail)
    traces = []   # (k, events, outcome)
    n_eval = 0
    for k, rec in enumerate(recs):
        for entry in entries:
            outcome, payload, events = run_entry(rec, entry, workdir, "%d_%d" % (os.getpid(), k))
            n_eval += 1
            v = judge(rec, entry, outcome, payload)
            if v is not None:
                out.append((k, entry, v[0], v[1]))
            if entry == "eval" and events is not None and outcome in ("ok", "EvaluationError"):
                if all(isinstance(e[2], int) and not isinstance(e[2], bool) and abs(e[2]) < 2 ** 31
                       for e in events):
                    traces.append((k, events, "ok" if outcome == "ok" else "error"))
    return out, traces, n_eval


# ----------------------------------------------------------------------------- TLC side
def _defs_of(rec):
    return [[{"n": d["n"], "e": d["e"]} for d in sc] for sc in rec["scopes"]]


def validate_traces(ck, items, label):
    """items: list of (rec, events, outcome).  TLC decides; returns indices rejected."""
    if not items:
        return []
    path = os.path.join(ck.work, "traces_%s.json" % label)
    with open(path, "w") as f:
        json.dump([{"defs": _defs_of(r), "order": ev, "outcome": oc} for r, ev, oc in items], f)
    res = ck.tlc("Trace_ExprEval", "Trace_ExprEval.cfg", env={"TRACE_FILE": path}, workers=1,
                 coverage=False, timeout=3000)
    if not res.ok or not res.records:
        raise Machinery("trace validation run failed (%s): %s\n%s" % (label, res.violated, res.tail))
    rep = res.records[-1]
    if rep.get("n") != len(items):
        raise Machinery("trace validation did not consume all traces: %r of %d" % (rep, len(items)))
    os.unlink(path)
    return [int(i) - 1 for i in rep["bad"]]


def _nontrivial(rec):
    return rec["flags"]["edges"] >= 1 and rec["flags"]["ndefs"] >= 2


def _brief(rec):
    return {"scopes": [[[d["n"], d["src"] if d["kind"] == "str" else int(d["src"])] for d in sc]
                       for sc in rec["scopes"]],
            "expected": rec["result"], "values": rec["val"]}


def _replay(ck: Check, pool, ncpu, recs, label, entries, trace_every, items):
    """Replay the records of one generator run; append the traces selected for TLC to items."""
    size = max(25, min(1000, len(recs) // (ncpu * 3) + 1))
    chunks = [recs[i:i + size] for i in range(0, len(recs), size)]
    results = list(pool.map(_eval_chunk, [(c, entries, ck.work, i) for i, c in enumerate(chunks)]))
    for ci, (out, traces, n_eval) in enumerate(results):
        ck.evaluations += n_eval
        for (k, entry, sig, detail) in out:
            rec = chunks[ci][k]
            if sig == "impl":
                ck.impl_errors += 1
                if ck.impl_error_sample is None:
                    ck.impl_error_sample = {"case": _brief(rec), "traceback": detail}
                continue
            ck.violation(sig, detail + "\ncase: " + json.dumps(_brief(rec)),
                         {"record": rec, "entry": entry, "generator": label})
        for (k, events, oc) in traces:
            if (ci * size + k) % trace_every == 0:
                items.append((chunks[ci][k], events, oc, label))
    for rec in recs:
        ck.traces += 1
        if _nontrivial(rec):
            ck.count_nontrivial(json.dumps(rec["scopes"], sort_keys=True))
        for key, cond in (("cases_with_cycle", rec["result"] == "error"),
                          ("cases_with_shadowing", rec["flags"]["shadow"])):
            if cond:
                ck.extra[key] = ck.extra.get(key, 0) + 1
    if recs:
        pick = [r for r in recs if r["flags"]["shadow"] and r["result"] == "ok"] or recs
        ck.sample({"generator": label, "case": _brief(pick[len(pick) // 2])})


# ----------------------------------------------------------------------------- run
def _account(ck, module, res, required_actions=()):
    """Same bookkeeping as Check.tlc, for TLC runs started from a thread."""
    ck.states += res.distinct
    ck.transitions += res.generated
    for a, (d, g) in res.coverage.items():
        k = "%s.%s" % (module, a)
        old = ck.cov.get(k, [0, 0])
        ck.cov[k] = [old[0] + d, old[1] + g]
    ck.tlc_cmds.append(res.cmd)
    for a in required_actions:
        if res.coverage.get(a, (0, 0))[1] == 0:
            raise Machinery("vacuity: action %s of %s was never taken (%s)" % (a, module, res.cfg))


def run(ck: Check):
    import time
    from concurrent.futures import ThreadPoolExecutor
    from harness import tlc as _tlc
    thorough = ck.tier == "thorough"
    ck.rule = ("TLC (spec/MC_ExprEval.tla) enumerates every dependency graph on 3 (thorough: also 4) "
               "names of one scope (the names are prefixes of each other: a, a_b, ab / area, area_scale, "
               "leak_power) with every key order, placed in each kind of scope; every combination of "
               "definitions of a/ab in three nested or sibling scopes; and draws random cases of up to ~16 "
               "definitions over six scopes with random + - * expression trees, random key orders and "
               "injected cycles.  Expected (values or error) = ExprEval!Expected evaluated by TLC.  Each case "
               "is built into a Spec and evaluated through _spec_eval_expressions, calculate_component_costs "
               "and from_yaml; the recorded evaluation orders are validated by TLC (Trace_ExprEval).  "
               "Non-trivial = at least two definitions and at least one use of a name; distinct by the "
               "definitions in key order.")
    ck.trusted += ["ExprEval!Render (AST -> source text) and the placement of scopes 1-6 into "
                   "Spec.variables / arch.variables / component extra attributes / component attributes "
                   "(checks/c21.py build_spec, to_yaml, read_values)",
                   "monkey-patched accelforge.util._basetypes.eval_field, used only to RECORD the order of evaluation"]
    ck.assumptions += [
        "a definition 'x: <expr mentioning x>' in a scope whose enclosing scopes (or the predefined math "
        "constants e, pi, ...) also define x is not generated: the property's words admit two readings "
        "(cycle / the outer x) and the code takes the second",
        "names are Python identifiers that are not reserved by accelforge (spec, arch, variables, ...); "
        "literals are small integers; values stay below 40000 (TLC integers are 32 bit)",
        "generated expressions only use names visible from their scope (an undefined name is not a "
        "'definition over already-evaluated names')"]
    ncpu = min(8, os.cpu_count() or 1)
    timing = ck.extra.setdefault("stage_seconds", {})

    def tlc_job(cfg, **kw):
        t0 = time.time()
        kw.setdefault("workdir", ck.work)
        kw.setdefault("timeout", 3000)
        res = _tlc.run("MC_ExprEval", cfg, **kw)
        timing["tlc " + cfg + (" seed %d" % kw["seed"] if "seed" in kw else "")] = round(time.time() - t0, 1)
        return res

    # ---- plan
    ent_all = ("eval", "costs", "yaml")
    if thorough:
        plan_a = [("MC_ExprEval_roleA_g1.cfg", 2), ("MC_ExprEval_roleA_g1n4.cfg", 3),
                  ("MC_ExprEval_roleA_g2.cfg", 4), ("MC_ExprEval_roleA_g2sib.cfg", 4)]
        plan = [("MC_ExprEval_g1n3.cfg", None, ent_all, 2),
                ("MC_ExprEval_g2chain.cfg", None, ent_all, 3),
                ("MC_ExprEval_g2sib235.cfg", None, ("eval", "costs"), 3),
                ("MC_ExprEval_g2sib135.cfg", None, ("eval", "yaml"), 3),
                ("MC_ExprEval_g1n4.cfg", None, ("eval", "costs"), 25),
                ("MC_ExprEval_g1n4all.cfg", None, ("eval",), 100)]
        plan += [("MC_ExprEval_rand_t.cfg", ck.seed * 100 + i, ent_all, 1) for i in range(2)]
    else:
        plan_a = [("MC_ExprEval_roleA_q.cfg", 2)]
        plan = [("MC_ExprEval_exh_q.cfg", None, ent_all, 6),
                ("MC_ExprEval_rand.cfg", ck.seed, ent_all, 1)]
    items = []
    with ProcessPoolExecutor(ncpu, initializer=_init_worker) as pool, ThreadPoolExecutor(6) as tp:
        # All worker processes are forked HERE, before any thread starts a TLC subprocess: a
        # fork that happens while subprocess.Popen is between fork and exec inherits Popen's
        # error pipe and blocks that Popen (and with it TLC's stdout) for ever.
        if len(set(pool.map(_warm, range(ncpu * 4)))) < 1:
            raise Machinery("worker pool did not start")
        # role A runs and the generators run side by side (each TLC run is small; JVM start-up
        # dominates); accounting happens here, in the main thread
        # (the random generators, the slowest jobs, are started first; role A last, its
        # results are only needed at the end)
        fut_g = []
        for cfg, seed, entries, every in sorted(plan, key=lambda p: p[1] is None):
            kw = {"coverage": False, "workers": 4}
            if seed is not None:
                kw.update(seed=seed, workers=1, simulate="num=1", depth=200000)
            fut_g.append((cfg, seed, entries, every, tp.submit(tlc_job, cfg, **kw)))
        fut_a = [(cfg, tp.submit(tlc_job, cfg, workers=w)) for cfg, w in plan_a]
        fut_neg = tp.submit(tlc_job, "MC_ExprEval_roleA_neg.cfg", workers=1)
        for cfg, seed, entries, every, fut in sorted(fut_g, key=lambda f: f[1] is not None):
            res = fut.result()
            _account(ck, "MC_ExprEval", res)
            if not res.ok:
                raise Machinery("generator %s failed: %s\n%s" % (cfg, res.violated, res.tail))
            if not res.records:
                raise Machinery("generator %s printed no cases" % cfg)
            t0 = time.time()
            label = cfg + ("" if seed is None else " seed %d" % seed)
            _replay(ck, pool, ncpu, res.records, label, entries, every, items)
            timing["replay " + label] = round(time.time() - t0, 1)
            ck.extra.setdefault("cases_per_generator", {})[label] = len(res.records)
            del res
        # ---- role C: one TLC run over all selected traces
        t0 = time.time()
        for i in validate_traces(ck, [(r, ev, oc) for r, ev, oc, _ in items], "all"):
            rec, events, oc, label = items[i]
            ck.violation("C21/trace-rejected",
                         "the recorded evaluation order %s (outcome %s) is not a behaviour of ExprEval\ncase: %s"
                         % (json.dumps(events), oc, json.dumps(_brief(rec))),
                         {"record": rec, "entry": "trace", "events": events, "outcome": oc, "generator": label})
        timing["tlc Trace_ExprEval (%d traces)" % len(items)] = round(time.time() - t0, 1)
        ck.extra["traces_accepted_or_rejected_by_tlc"] = len(items)
        # ---- role A results
        for cfg, fut in fut_a:
            res = fut.result()
            _account(ck, "MC_ExprEval", res, required_actions=("RoleANext",))
            if not res.ok:
                raise Machinery("TLC reports a problem in design-level run %s: %s\n%s"
                                % (cfg, res.violated, res.tail))
        res = fut_neg.result()
        _account(ck, "MC_ExprEval", res)
        if res.ok or "ConfluentAcyclic" not in (res.violated or ""):
            raise Machinery("role-A lemma: evaluating in key order against a symbol table must break "
                            "ConfluentAcyclic, but TLC reports: %s\n%s" % (res.violated, res.tail))
    ck.extra["role_A"] = ("ExprEval (EvalField enabled once all resolved dependencies have values): in every "
                          "reachable state evaluated fields hold the definition's value (Confluent), a terminal "
                          "state has pending fields iff the case has a dependency cycle (StuckIffCycle), and "
                          "without a cycle the terminal valuation is Expected; evaluation in key order against "
                          "a symbol table violates ConfluentAcyclic (%s)" % res.violated)
    for key in ("cases_with_cycle", "cases_with_shadowing"):
        if not ck.extra.get(key):
            raise Machinery("vacuity: no generated case had %s" % key)
    ck.exhaustive = False
    ck.extra["exhaustive_parts"] = [p[0] for p in plan if p[1] is None]
    ck.extra["not_covered"] = ("self-reference over an outer/predefined definition of the same name (ambiguous); "
                               "names reserved by accelforge; division, functions, non-integer values")


# ----------------------------------------------------------------------------- replay
def replay(path):
    rec0 = json.load(open(path))
    rec, entry = rec0["record"], rec0["entry"]
    _init_worker()
    print("case:", json.dumps(_brief(rec)))
    if entry == "trace":
        from harness import tlc as _tlc
        work = os.path.join(_tlc.VERIF, ".work", "C21-replay")
        os.makedirs(work, exist_ok=True)
        outcome, payload, events = run_entry(rec, "eval", work)
        oc = "ok" if outcome == "ok" else "error"
        print("recorded order:", json.dumps(events, default=repr), "outcome", outcome)
        tf = os.path.join(work, "trace.json")
        json.dump([{"defs": _defs_of(rec), "order": events, "outcome": oc}], open(tf, "w"), default=repr)
        res = _tlc.run("Trace_ExprEval", "Trace_ExprEval.cfg", workdir=work, env={"TRACE_FILE": tf},
                       workers=1, coverage=False)
        if not res.records:
            raise Machinery("trace validation produced no report:\n" + res.tail)
        if res.records[-1]["bad"]:
            print("TLC rejects the recorded order")
            print("VIOLATION property=C21 replay=%s" % path)
            return 1
        print("TLC accepts the recorded order")
        return 0
    from harness import tlc as _tlc
    work = os.path.join(_tlc.VERIF, ".work", "C21-replay")
    os.makedirs(work, exist_ok=True)
    outcome, payload, _ = run_entry(rec, entry, work)
    print("entry point:", entry)
    print("implementation:", outcome, json.dumps(payload, default=repr))
    print("definition    :", rec["result"], json.dumps(rec["val"]))
    v = judge(rec, entry, outcome, payload)
    if v is not None and v[0] != "impl":
        print(v[1])
        print("VIOLATION property=C21 replay=%s" % path)
        return 1
    print("no disagreement on this case")
    return 0
