"""C10 -- tile-shape candidates and mapspace counts are complete and exact.

Spec: spec/TileShapes.tla (PerfectCands, ImperfectOK, ChainSet/Chains -- all brute force),
spec/MC_TileShapes.tla (generators + lemmas), spec/Trace_TileShapes.tla (verdict on recorded sets).

B (spec->code): TLC prints, for every outer size in the tier's range and every inner size dividing
   it, the perfect candidate set, and for every n <= 64 and every imperfection pattern of length
   <= 4 the number of factorisation chains; the harness compares get_possible_factor_sizes(outer,
   False, inner, 1), _factorize(outer) and _count_factorizations(n, pattern) with them exactly.
C (code->spec): the sets get_possible_factor_sizes(outer, True, inner, 1) returns are recorded
   into a JSON file and TLC evaluates TileShapes!ImperfectOK on each; ok = FALSE is a violation.
"""
from __future__ import annotations

import json
import os
import random
from concurrent.futures import ProcessPoolExecutor

from harness.core import Check, Machinery
from harness import tlc as _tlc

JAVA_ENV = {"JAVA_TOOL_OPTIONS": "-XX:ParallelGCThreads=2"}


# ----------------------------------------------------------------------------- real code
def _perfect_chunk(pairs):
    from accelforge.mapper.FFM._make_pmappings.make_pmappings_from_templates.make_tile_shapes import (
        get_possible_factor_sizes, _factorize)
    out = []
    for outer, inner in pairs:
        try:
            got = [int(x) for x in get_possible_factor_sizes(outer, False, inner, 1)]
            fz = [int(x) for x in _factorize(outer)] if inner == 1 else None
            out.append((outer, inner, got, fz, None))
        except Exception as e:  # noqa
            out.append((outer, inner, None, None, "%s: %s" % (type(e).__name__, e)))
    return out


def _imperfect_chunk(pairs):
    from accelforge.mapper.FFM._make_pmappings.make_pmappings_from_templates.make_tile_shapes import (
        get_possible_factor_sizes)
    out = []
    for outer, inner in pairs:
        try:
            got = [int(x) for x in get_possible_factor_sizes(outer, True, inner, 1)]
            out.append((outer, inner, got, None))
        except Exception as e:  # noqa
            out.append((outer, inner, None, "%s: %s" % (type(e).__name__, e)))
    return out


def _pmap(fn, items, chunk=400):
    if len(items) <= 20000:      # importing accelforge in worker processes costs more than it saves
        return fn(items)
    chunks = [items[i:i + chunk] for i in range(0, len(items), chunk)]
    with ProcessPoolExecutor(min(8, os.cpu_count() or 1)) as ex:
        return [r for part in ex.map(fn, chunks) for r in part]


def _n_prime_factors(n):
    k, p = 0, 2
    while p * p <= n:
        if n % p == 0:
            k += 1
            while n % p == 0:
                n //= p
        p += 1
    return k + (1 if n > 1 else 0)


# ----------------------------------------------------------------------------- parameters
def _params(ck: Check):
    rng = random.Random(1000 + ck.seed)
    if ck.tier == "thorough":
        p = {"max_outer": 4096, "extra_outers": sorted(rng.sample(range(4097, 6001), 24)),
             "nmax": 64, "lmax": 4, "lemma_outer": 10, "lemma_n": 14}
    else:
        p = {"max_outer": 512, "extra_outers": sorted(rng.sample(range(513, 4097), 48)),
             "nmax": 64, "lmax": 4, "lemma_outer": 7, "lemma_n": 8}
    return p


def run(ck: Check):
    P = _params(ck)
    ck.rule = ("TLC enumerates every outer size in 1..%d (plus %d seeded sizes up to %d), every inner size dividing it, "
               "and every (n<=%d, imperfection pattern of length 0..%d); expected sets/counts are TileShapes!PerfectCands "
               "and TileShapes!Chains; imperfect sets returned by the code are judged by TileShapes!ImperfectOK. "
               "Non-trivial = outer/inner has at least two distinct prime factors (candidate cases), or pattern length "
               ">= 2 and n >= 2 (counter cases); distinct by (mode, outer, inner) / (n, pattern)."
               % (P["max_outer"], len(P["extra_outers"]), max(P["extra_outers"]), P["nmax"], P["lmax"]))
    ck.assumptions += ["coarseness = 1 only (the property's quantifier)",
                       "'smallest shape giving that count' is decisive only where the two readings (smallest integer "
                       "shape / smallest multiple of the inner size) agree that the set is wrong; for inner = 1 they "
                       "coincide"]
    import time
    T = {}
    t0 = time.time()

    def lap(name):
        nonlocal t0
        T[name] = round(time.time() - t0, 1)
        t0 = time.time()
    ck.extra["phase_wall_s"] = T
    pfile = os.path.join(ck.work, "params.json")
    json.dump(P, open(pfile, "w"))
    env = dict(JAVA_ENV, PARAM_FILE=pfile)

    # ---- one TLC run: lemmas (the fast predicates and the recursive chain enumeration equal the brute-force
    #      definitions), expected perfect candidate sets, expected chain counts
    res = ck.tlc("MC_TileShapes", "MC_TileShapes_all.cfg", env=env, required_actions=("Compute",),
                 timeout=3000, workers=6)
    if not res.ok:
        if "LemmaHolds" in (res.violated or ""):
            raise Machinery("a TileShapes lemma fails (the spec's own definitions disagree): %s\n%s"
                            % (res.violated, res.tail))
        raise Machinery("generator failed: %s\n%s" % (res.violated, res.tail))
    perfect_recs = [r for r in res.records if r["job"]["kind"] == "perfect"]
    chain_recs = [r for r in res.records if r["job"]["kind"] == "chains"]
    n_lemma = res.distinct // 2 - len(perfect_recs) - len(chain_recs)
    if n_lemma < 1:
        raise Machinery("no lemma job was run")
    ck.extra["role_A"] = ("TLC checked on every subset C of 0..outer+1 (outer <= %d, inner | outer) that ImperfectOK and both "
                          "readings' fast forms equal their Min-based definitions and that the readings coincide for "
                          "inner = 1; and for n <= %d, all patterns of length <= 4, that ChainSet equals the filter over all "
                          "choice sequences and, for perfect patterns, counts the ordered factorisations (%d lemma jobs, "
                          "invariant LemmaHolds)" % (P["lemma_outer"], P["lemma_n"], n_lemma))
    lap("tlc_lemmas_and_generators")
    # ---- B1: perfect candidate sets
    expected = {}
    for r in perfect_recs:
        o = r["job"]["a"]
        for inner, cands in r["out"]:
            expected[(o, inner)] = sorted(cands)
    outers = set(range(1, P["max_outer"] + 1)) | set(P["extra_outers"])
    if {o for o, _ in expected} != outers:
        raise Machinery("perfect generator did not cover every outer size")
    pairs = sorted(expected)
    n_multi = 0
    for outer, inner, got, fz, err in _pmap(_perfect_chunk, pairs):
        ck.traces += 1
        ck.evaluations += 1
        case = {"kind": "perfect", "outer": outer, "inner": inner}
        if err is not None:
            ck.impl_errors += 1
            if ck.impl_error_sample is None:
                ck.impl_error_sample = {"case": case, "traceback": err}
            continue
        exp = expected[(outer, inner)]
        if _n_prime_factors(outer // inner) >= 2:
            ck.count_nontrivial(("perfect", outer, inner))
            n_multi += 1
        if set(got) != set(exp) or len(got) != len(set(got)):
            missing = sorted(set(exp) - set(got))
            extra = sorted(set(got) - set(exp))
            kind = "+".join(k for k, v in (("missing-candidate", missing), ("extra-candidate", extra),
                                           ("duplicate-candidate", len(got) != len(set(got)))) if v)
            ck.violation("C10/perfect/" + kind,
                         "get_possible_factor_sizes(%d, False, %d, 1) = %s; the multiples of %d dividing %d are %s "
                         "(missing %s, extra %s)" % (outer, inner, got, inner, outer, exp, missing, extra),
                         dict(case, expected=exp))
        if fz is not None and fz != exp:
            ck.violation("C10/_factorize/" + ("missing-divisor" if set(exp) - set(fz) else "not-the-sorted-divisor-set"),
                         "_factorize(%d) = %s; the divisors are %s" % (outer, fz, exp),
                         {"kind": "factorize", "n": outer, "expected": exp})
    ck.sample({"kind": "perfect", "outer": 360, "inner": 6, "expected": expected.get((360, 6))})

    lap("perfect_replay")
    # ---- B2: mapspace-size counter
    want = P["nmax"] * (2 ** (P["lmax"] + 1) - 1)
    if len(chain_recs) != want:
        raise Machinery("chain generator printed %d cases, expected %d" % (len(chain_recs), want))
    from accelforge.util._mathfuncs import _count_factorizations
    for r in sorted(chain_recs, key=lambda r: (r["job"]["a"], len(r["job"]["pat"]), r["job"]["pat"])):
        n, pat, exp = r["job"]["a"], [bool(x) for x in r["job"]["pat"]], r["out"]
        ck.traces += 1
        ck.evaluations += 1
        case = {"kind": "count", "n": n, "pat": pat}
        try:
            got = _count_factorizations(n, tuple(pat))
        except Exception as e:  # noqa
            ck.impl_error(e, case)
            continue
        if len(pat) >= 2 and n >= 2:
            ck.count_nontrivial(("count", n, tuple(pat)))
        if got != exp or isinstance(got, bool):
            ck.violation("C10/count/" + ("with-imperfect-loop" if any(pat[:-1]) else "all-perfect"),
                         "_count_factorizations(%d, %s) = %r; enumerating the chains gives %d" % (n, tuple(pat), got, exp),
                         dict(case, expected=exp))
        if n == 60 and pat == [True, False, False]:
            ck.sample(dict(case, expected=exp))

    lap("chains_replay")
    # ---- C: imperfect candidate sets recorded from the code, judged by TLC
    recorded = []
    for outer, inner, got, err in _pmap(_imperfect_chunk, pairs):
        ck.evaluations += 1
        if err is not None:
            ck.impl_errors += 1
            if ck.impl_error_sample is None:
                ck.impl_error_sample = {"case": {"kind": "imperfect", "outer": outer, "inner": inner}, "traceback": err}
            continue
        recorded.append({"outer": outer, "inner": inner, "cands": got})
    lap("imperfect_record")
    cfile = os.path.join(ck.work, "imperfect_recorded.json")
    json.dump(recorded, open(cfile, "w"))
    res = ck.tlc("Trace_TileShapes", "Trace_TileShapes.cfg", env=dict(env, CASE_FILE=cfile), coverage=False,
                 timeout=3000, workers=6)
    if not res.ok:
        raise Machinery("trace validation failed to run: %s\n%s" % (res.violated, res.tail))
    lap("imperfect_tlc")
    if sorted(v["idx"] for v in res.records) != list(range(1, len(recorded) + 1)):
        raise Machinery("TLC judged %d of %d recorded sets" % (len(res.records), len(recorded)))
    n_not_multiple = 0
    for v in sorted(res.records, key=lambda v: v["idx"]):
        rec = recorded[v["idx"] - 1]
        assert (rec["outer"], rec["inner"]) == (v["outer"], v["inner"])
        ck.traces += 1
        if _n_prime_factors(rec["outer"] // rec["inner"]) >= 2:
            ck.count_nontrivial(("imperfect", rec["outer"], rec["inner"]))
        if not v["ok_mult"]:
            n_not_multiple += 1
        if not v["ok"]:
            why = "exceeds-outer-or-nonpositive" if not v["within"] else "missing-smallest-shape-for-a-tile-count"
            sig = "C10/imperfect/%s/%s" % (why, "inner=1" if rec["inner"] == 1 else "inner>1")
            ck.violation(sig,
                         "get_possible_factor_sizes(%d, True, %d, 1) = %s is rejected by TileShapes!ImperfectOK: "
                         "within-outer=%s, tile counts without their smallest shape: %s"
                         % (rec["outer"], rec["inner"], rec["cands"], v["within"], v["missing"]),
                         {"kind": "imperfect", "outer": rec["outer"], "inner": rec["inner"]})
    for rec in recorded:
        if (rec["outer"], rec["inner"]) == (360, 1):
            ck.sample({"kind": "imperfect", "outer": 360, "inner": 1, "returned": rec["cands"], "verdict": "accepted"})
    ck.exhaustive = True
    ck.extra["exhaustive_over"] = {"outer": "1..%d and every inner dividing it, both modes" % P["max_outer"],
                                   "seeded_extra_outers": P["extra_outers"],
                                   "counter": "n in 1..%d x all boolean patterns of length 0..%d" % (P["nmax"], P["lmax"])}
    ck.extra["candidate_cases"] = len(pairs)
    ck.extra["candidate_cases_with_two_or_more_prime_factors"] = n_multi
    ck.extra["observation_not_decisive"] = (
        "%d of %d recorded imperfect sets satisfy only the 'smallest integer shape' reading: for inner > 1 the code "
        "returns shapes that are not multiples of the inner size (e.g. outer=12, inner=4 -> [4, 6, 12])"
        % (n_not_multiple, len(recorded)))


# ----------------------------------------------------------------------------- replay
def replay(path):
    rec = json.load(open(path))
    kind = rec["kind"]
    if kind == "perfect":
        (_, _, got, _, err), = _perfect_chunk([(rec["outer"], rec["inner"])])
        print("get_possible_factor_sizes(%d, False, %d, 1) = %s%s" % (rec["outer"], rec["inner"], got, err or ""))
        print("definition (TLC)                              = %s" % rec["expected"])
        bad = got is None or set(got) != set(rec["expected"]) or len(got) != len(set(got))
    elif kind == "factorize":
        from accelforge.mapper.FFM._make_pmappings.make_pmappings_from_templates.make_tile_shapes import _factorize
        got = [int(x) for x in _factorize(rec["n"])]
        print("_factorize(%d) = %s; divisors (TLC) = %s" % (rec["n"], got, rec["expected"]))
        bad = got != rec["expected"]
    elif kind == "count":
        from accelforge.util._mathfuncs import _count_factorizations
        got = _count_factorizations(rec["n"], tuple(bool(x) for x in rec["pat"]))
        print("_count_factorizations(%d, %s) = %r; chains enumerated by TLC = %d"
              % (rec["n"], tuple(rec["pat"]), got, rec["expected"]))
        bad = got != rec["expected"]
    elif kind == "imperfect":
        (_, _, got, err), = _imperfect_chunk([(rec["outer"], rec["inner"])])
        if got is None:
            raise Machinery("implementation raised: %s" % err)
        work = os.path.join(_tlc.VERIF, ".work", "C10-replay")
        os.makedirs(work, exist_ok=True)
        cfile = os.path.join(work, "case.json")
        json.dump([{"outer": rec["outer"], "inner": rec["inner"], "cands": got}], open(cfile, "w"))
        res = _tlc.run("Trace_TileShapes", "Trace_TileShapes_strict.cfg", workdir=work,
                       env=dict(JAVA_ENV, CASE_FILE=cfile), workers=1, coverage=False)
        print("get_possible_factor_sizes(%d, True, %d, 1) = %s" % (rec["outer"], rec["inner"], got))
        print("TLC verdict:", res.records[0] if res.records else res.tail)
        if res.ok:
            bad = False
        elif "Accepted" in (res.violated or ""):
            bad = True
        else:
            raise Machinery("TLC failed: %s" % res.violated)
    else:
        raise Machinery("unknown replay kind %r" % kind)
    if bad:
        print("VIOLATION property=C10 replay=%s" % path)
        return 1
    print("no disagreement on this case")
    return 0
