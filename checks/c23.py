"""C23 -- the concise Einsum notation is equivalent to the verbose form.

Spec: spec/EinsumSyntax.tla (verbose record, rendering as tokens, the documented grammar as
a parser `Parse`, the list of corruptions), spec/MC_EinsumSyntax.tla (the emitter as actions
Emit / Space / Malform / Finish, exhaustive and random case generators).
Binding B: every finished state TLC prints (the string, and what Parse says it denotes: the
verbose record or "error") is replayed into accelforge:
  Workload(einsums=[string])           vs TLC's record (or: must raise)
  Workload(einsums=[verbose dict])     vs TLC's record   (dict projections, and the list
                                          form when every entry is a bare rank variable)
  both again with extra attributes merged in ({"einsum": string, ...extras}).
Python only builds the objects and compares names / (rank, expression) lists / flags.
"""
from __future__ import annotations

import json
import os
import re
from concurrent.futures import ProcessPoolExecutor, ThreadPoolExecutor

from harness import tlc as _tlc
from harness.core import Check, Machinery

PID = "C23"

# ---- extra attributes (TLC chooses the bundle numbers; this is their concrete spelling)
EINSUM_X = [
    {},
    {"is_copy_operation": True},
    {"n_instances": 3},
    {"rank_sizes": {"Zq": 5}},
    {"renames": {"input": None}},          # None -> name of the first input tensor
    {"iteration_space_shape": ["0 <= a < 4"]},
    {"name": "Renamed"},
    {"is_copy_operation": True, "n_instances": 2},
]
ACCESS_X = [
    {},
    {"bits_per_value": 16},
    {"persistent": True},
    {"bits_per_value": 8, "backing_storage_size_scale": 2.0},
]

RESIDUE = {("DropLb", "last-of-several-inputs"), ("DropLb", "earlier-of-several-inputs"),
           ("DropName", "last-of-several-inputs"), ("DropName", "earlier-of-several-inputs"),
           ("Braces", "last-of-several-inputs"), ("Braces", "earlier-of-several-inputs"),
           ("DropRb", "last-of-several-inputs")}


def mal_signature(rec):
    k, where = rec["mal"], rec["where"]
    if (k, where) in RESIDUE:
        # a tensor reference on the right-hand side that lost its name or a bracket leaves text
        # that is no reference at all, next to at least one intact input reference
        return "C23/malformed-accepted/broken-input-reference-beside-intact-input"
    if k == "EmptyExpr" or (k == "DropRb" and where == "earlier-of-several-inputs" and rec.get("lastx")):
        # `Rank:` with nothing after the colon, or a `Rank: expr` entry whose reference lost its "]" so
        # that the expression runs on into the next tensor reference ("3*pq*T0[pq")
        return "C23/malformed-accepted/expression-after-colon-not-validated"
    if k == "DupRankBefore" and rec.get("short"):
        return "C23/malformed-accepted/duplicate-rank-shorthand-after-explicit"
    return "C23/malformed-accepted/%s/%s" % (k, where)


_WS = re.compile(r"\s+")


def view(w):
    """(name, [(tensor, [(rank, expression without white space)...], output)...]) of the only Einsum"""
    if len(w.einsums) != 1:
        return ("<%d einsums>" % len(w.einsums), [])
    e = w.einsums[0]
    return (str(e.name),
            [(str(t.name), [(str(k), _WS.sub("", str(v))) for k, v in t.projection.items()], bool(t.output))
             for t in e.tensor_accesses])


def expected_view(rec):
    return (rec["name"], [(a["name"], [(p["rank"], p["x"]) for p in a["proj"]], bool(a["output"])) for a in rec["acc"]])


def verbose_entry(rec, as_list):
    tas = []
    for i, a in enumerate(rec["acc"]):
        if as_list and rec["aslist"][i]:
            proj = [p["x"] for p in a["proj"]]
        else:
            proj = {p["rank"]: p["x"] for p in a["proj"]}
        ta = {"name": a["name"], "projection": proj}
        if a["output"]:
            ta["output"] = True
        tas.append(ta)
    return {"name": rec["name"], "tensor_accesses": tas}


def extras_of(rec):
    ex = dict(EINSUM_X[rec["xt"]["e"] % len(EINSUM_X)])
    if "renames" in ex:
        ex["renames"] = {"input": rec["acc"][0]["name"]}
    ax = {}
    for i, a in enumerate(rec["acc"]):
        b = ACCESS_X[rec["xt"]["a"][i] % len(ACCESS_X)]
        if b:
            ax[a["name"]] = dict(b)
    return ex, ax


def with_extras_concise(rec):
    ex, ax = extras_of(rec)
    e = {"einsum": rec["s"]}
    e.update(json.loads(json.dumps(ex)))
    if ax:
        e["tensor_accesses"] = [dict(name=t, **json.loads(json.dumps(b))) for t, b in ax.items()]
    return e


def with_extras_verbose(rec):
    ex, ax = extras_of(rec)
    e = verbose_entry(rec, False)
    for ta in e["tensor_accesses"]:
        ta.update(json.loads(json.dumps(ax.get(ta["name"], {}))))
    e.update(json.loads(json.dumps(ex)))
    return e


def bad_extras(rec):
    kind = rec["xt"]["bad"]
    if kind == 1:
        a = rec["acc"][0]
        ta = {"name": a["name"], "projection": {p["rank"]: p["x"] for p in a["proj"]}}
    else:
        ta = {"name": rec["acc"][-1]["name"], "output": True}
    return {"einsum": rec["s"], "tensor_accesses": [ta]}


def _extras_check(w, rec, which):
    """the merged attributes are present with the values that were given"""
    ex, ax = extras_of(rec)
    e = w.einsums[0]
    bad = []
    for k, v in ex.items():
        if k == "renames":
            got = [(r.name, r.source) for r in e.renames]
            if ("input", v["input"]) not in [(str(a), str(b)) for a, b in got]:
                bad.append(("renames", v, got))
        elif k == "rank_sizes":
            if dict(e.rank_sizes) != v:
                bad.append((k, v, dict(e.rank_sizes)))
        elif k == "iteration_space_shape":
            if list(e.iteration_space_shape) != v:
                bad.append((k, v, list(e.iteration_space_shape)))
        else:
            if getattr(e, k) != v:
                bad.append((k, v, getattr(e, k)))
    for t, b in ax.items():
        tas = [x for x in e.tensor_accesses if x.name == t]
        for k, v in b.items():
            if not tas or getattr(tas[0], k) != v:
                bad.append(("%s.%s" % (t, k), v, getattr(tas[0], k) if tas else None))
    return [("C23/extra-attribute-ignored/%s" % (k if "." not in k else k.split(".")[1]),
             "%s with extras: attribute %s given as %r is %r after the merge" % (which, k, v, g)) for k, v, g in bad]


def evaluate(rec):
    """-> (list of (signature, detail), n_calls, notes)"""
    from accelforge.frontend.workload import Workload
    out = []
    calls = 0
    notes = {}
    s = rec["s"]

    def build(entry):
        nonlocal calls
        calls += 1
        try:
            return Workload(einsums=[entry]), None
        except Exception as ex:  # noqa
            return None, ex

    w, err = build(s)
    if rec["expect"] == "error":
        if err is None:
            out.append((mal_signature(rec), "the string %r is malformed (%s at %s) but was accepted as %s"
                        % (s, rec["mal"], rec["where"], view(w))))
        # the same through the {"einsum": ...} entry form
        w2, err2 = build({"einsum": s})
        if (err is None) != (err2 is None):
            out.append(("C23/string-and-einsum-key-disagree", "string %r: Workload(einsums=[s]) %s but {'einsum': s} %s"
                        % (s, "raised" if err else "accepted", "raised" if err2 else "accepted")))
        return out, calls, notes
    exp = expected_view(rec)
    if rec["scalar"]:
        # a tensor with no ranks: `T[]`.  The quantifier (0-4 ranks) puts it inside the property, the
        # repository's own tests call the empty bracket malformed.  Only the common part is decisive:
        # it is either rejected or parsed to the verbose record.
        if err is not None:
            notes["scalar_rejected"] = 1
        else:
            notes["scalar_accepted"] = 1
            if view(w) != exp:
                out.append(("C23/scalar-tensor/accepted-with-different-result", "string %r gives %s, the verbose form is %s" % (s, view(w), exp)))
        return out, calls, notes
    if err is not None:
        out.append(("C23/valid-string-rejected/%s" % type(err).__name__,
                    "the string %r is well formed but was rejected: %s" % (s, str(err)[:200])))
    elif view(w) != exp:
        out.append(("C23/concise-differs-from-verbose", "string %r gives %s, the verbose form is %s" % (s, view(w), exp)))
    # verbose forms
    for as_list in ((False, True) if any(rec["aslist"]) else (False,)):
        wv, errv = build(verbose_entry(rec, as_list))
        tag = "list" if as_list else "dict"
        if errv is not None:
            out.append(("C23/verbose-%s-form-rejected" % tag, "verbose form %s rejected: %s" % (verbose_entry(rec, as_list), str(errv)[:200])))
        elif view(wv) != exp:
            out.append(("C23/verbose-%s-form-differs" % tag, "verbose form %s gives %s, expected %s" % (verbose_entry(rec, as_list), view(wv), exp)))
    # extra attributes merged in
    ex, ax = extras_of(rec)
    exp_x = exp if "name" not in ex else (ex["name"],) + exp[1:]
    wc, errc = build(with_extras_concise(rec))
    wx, errx = build(with_extras_verbose(rec))
    if errc is not None:
        out.append(("C23/extras/concise-rejected", "%s rejected: %s" % (with_extras_concise(rec), str(errc)[:200])))
    else:
        if view(wc)[1] != exp[1]:
            out.append(("C23/extras/change-the-accesses", "%s gives %s, expected %s" % (with_extras_concise(rec), view(wc), exp)))
        out += _extras_check(wc, rec, "concise")
    if errx is not None:
        out.append(("C23/extras/verbose-rejected", "%s rejected: %s" % (with_extras_verbose(rec), str(errx)[:200])))
    else:
        if view(wx) != exp_x:
            out.append(("C23/extras/verbose-differs", "%s gives %s, expected %s" % (with_extras_verbose(rec), view(wx), exp_x)))
        out += _extras_check(wx, rec, "verbose")
    if rec["xt"]["bad"]:
        # documented: "the einsum keyword will set the tensors and projections for the Einsum, and an
        # error will be raised if these are specified again in the same entry"
        wb, errb = build(bad_extras(rec))
        if errb is None:
            out.append(("C23/extras/respecified-%s-accepted" % ("projection" if rec["xt"]["bad"] == 1 else "output"),
                        "%s was accepted" % bad_extras(rec)))
    return out, calls, notes


def _chunk(recs):
    res = []
    calls = 0
    notes = {}
    for k, rec in enumerate(recs):
        try:
            out, c, nt = evaluate(rec)
        except Exception as ex:  # harness problem: surface it
            import traceback
            res.append((k, "HARNESS", "".join(traceback.format_exception(type(ex), ex, ex.__traceback__))[-1500:]))
            continue
        calls += c
        for a, b in nt.items():
            notes[a] = notes.get(a, 0) + b
        for sig, detail in out:
            res.append((k, sig, detail))
    return res, calls, notes


def _tlc_parallel(ck: Check, jobs):
    def one(j):
        kw = dict(j)
        module = kw.pop("module")
        cfg = kw.pop("cfg")
        kw.setdefault("workdir", os.path.join(ck.work, "tlc-%s-%s" % (cfg.replace(".cfg", ""), kw.get("seed", "x"))))
        return _tlc.run(module, cfg, **kw)
    with ThreadPoolExecutor(len(jobs)) as ex:
        results = list(ex.map(one, jobs))
    for j, res in zip(jobs, results):
        ck.states += res.distinct
        ck.transitions += res.generated
        for a, (d, g) in res.coverage.items():
            k = "%s.%s" % (j["module"], a)
            old = ck.cov.get(k, [0, 0])
            ck.cov[k] = [old[0] + d, old[1] + g]
        ck.tlc_cmds.append(res.cmd)
        ck.extra.setdefault("tlc_runs", []).append({"cfg": j["cfg"], "seed": j.get("seed"), "wall_s": round(res.wall_s, 1),
                                                     "states": res.distinct, "records": len(res.records)})
    return results


def run(ck: Check):
    thorough = ck.tier == "thorough"
    ck.rule = ("verbose Einsum records are enumerated (small alphabet of %s entries: 1-2 inputs, 0-%s ranks, every choice of one "
               "long-form entry, every applicable corruption, every placement of <= %s blanks) or drawn (1-4 inputs, 0-4 ranks, 7 expression "
               "shapes, random long forms, white space ' ', '  ', tab chosen by the simulator at every gap) by TLC from "
               "spec/MC_EinsumSyntax.tla; expected = Parse(tokens) of spec/EinsumSyntax.tla (the documented grammar): the verbose "
               "record, or error for the 23 corruption kinds. Non-trivial = a well-formed string with white space and at least one "
               "'Rank: expression' entry, or a corrupted string; distinct by the string."
               % (("5", "2", "2") if thorough else ("3", "1", "1")))
    ck.trusted += ["spelling of the extra-attribute bundles chosen by TLC (checks/c23.py EINSUM_X / ACCESS_X)",
                   "removal of white space from the implementation's expression strings before comparison"]
    ck.assumptions += ["a tensor without ranks (`T[]`) is inside the quantifier (0-4 ranks) but the repository treats the empty "
                       "bracket as malformed; for such records only 'rejected, or equal to the verbose form' is decisive",
                       "rank variable / rank / tensor names are drawn from fixed tables that avoid ISL operator words (EQ, NE, ...)"]
    jobs = []
    if thorough:
        jobs.append(dict(module="MC_EinsumSyntax", cfg="MC_EinsumSyntax_exh_t2.cfg", workers=6, timeout=1100, coverage=False))
        jobs.append(dict(module="MC_EinsumSyntax", cfg="MC_EinsumSyntax_exh_q2.cfg", workers=2, timeout=1100, coverage=False))
    else:
        jobs.append(dict(module="MC_EinsumSyntax", cfg="MC_EinsumSyntax_exh_q1.cfg", workers=4, timeout=900, coverage=False))
    nsim = 4 if thorough else 1
    for i in range(nsim):
        jobs.append(dict(module="MC_EinsumSyntax", cfg="MC_EinsumSyntax_rand_%s.cfg" % ("t" if thorough else "q"),
                         simulate="num=1", depth=2000000, seed=ck.seed * 1000 + i + 1, workers=1, timeout=1100, coverage=False))
    results = _tlc_parallel(ck, jobs)
    labelled = []
    for j, res in zip(jobs, results):
        if not res.ok:
            raise Machinery("TLC run %s failed (RoundTrip / MalformedIsMalformed / TypeOK are checked in it): %s\n%s"
                            % (j["cfg"], res.violated, res.tail))
        if not res.records:
            raise Machinery("generator %s printed no cases" % j["cfg"])
        label = j["cfg"] + ("" if "seed" not in j else ":seed=%d" % j["seed"])
        if "exh" in j["cfg"]:
            # vacuity of the emitter's actions, read off the finished states (coverage collection is
            # switched off for these runs because it halves TLC's speed)
            if not any(r["mal"] for r in res.records):
                raise Machinery("vacuity: action Malform never taken in %s" % j["cfg"])
            if not any(r["nws"] > 0 for r in res.records) or not any(r["nws"] == 0 for r in res.records):
                raise Machinery("vacuity: action Space never / always taken in %s" % j["cfg"])
            if not any(r["nlong"] > 0 and r["expect"] == "ok" for r in res.records):
                raise Machinery("vacuity: no long-form rendering in %s" % j["cfg"])
        else:
            nd = len({r["s"] for r in res.records})
            if nd < 0.5 * len(res.records):
                raise Machinery("random generator %s produced only %d distinct strings out of %d" % (label, nd, len(res.records)))
        labelled += [(label, r) for r in res.records]
    ck.extra["role_A"] = ("on every explored state TLC checked RoundTrip (Parse(EinsumToks(rec)) = rec: rendering and grammar "
                          "agree, the notation is unambiguous), MalformedIsMalformed (each of the 23 corruptions leaves the "
                          "grammar wherever it is applicable) and TypeOK of the emitter")
    recs = [r for _, r in labelled]
    ncpu = 6 if thorough else 4
    size = max(200, min(4000, len(recs) // (ncpu * 4) + 1))
    chunks = [recs[i:i + size] for i in range(0, len(recs), size)]
    with ProcessPoolExecutor(ncpu) as ex:
        outs = list(ex.map(_chunk, chunks))
    notes = {}
    base = 0
    for chunk, (res, calls, nt) in zip(chunks, outs):
        ck.evaluations += calls
        for a, b in nt.items():
            notes[a] = notes.get(a, 0) + b
        for (k, sig, detail) in res:
            if sig == "HARNESS":
                raise Machinery("harness failed on %s:\n%s" % (json.dumps(chunk[k])[:500], detail))
            ck.violation(sig, detail, {"case": chunk[k], "generator": labelled[base + k][0]})
        base += len(chunk)
    kinds = {}
    for r in recs:
        ck.traces += 1
        if r["expect"] == "error":
            kinds[r["mal"]] = kinds.get(r["mal"], 0) + 1
            ck.count_nontrivial(r["s"])
        elif r["nws"] > 0 and any(p["x"] != p["rank"].lower() or r["nlong"] for a in r["acc"] for p in a["proj"]):
            ck.count_nontrivial(r["s"])
    ck.extra["corruption_kinds_replayed"] = kinds
    ck.extra["scalar_tensor_records"] = notes
    # (the quick exhaustive family has no projection with two entries, so DoubleComma can only
    # come from the random part there)
    if len(kinds) < (23 if thorough else 21):
        raise Machinery("vacuity: only %d of 23 corruption kinds were generated: %s" % (len(kinds), sorted(kinds)))
    oks = [i for i, r in enumerate(recs) if r["expect"] == "ok" and r["nws"] > 0 and not r["scalar"]]
    bads = [i for i, r in enumerate(recs) if r["expect"] == "error"]
    for idx in (oks[len(oks) // 2], oks[-1], bads[len(bads) // 3], bads[-1]):
        r = recs[idx]
        ck.sample({"generator": labelled[idx][0], "string": r["s"], "expect": r["expect"], "corruption": r["mal"],
                   "where": r["where"], "verbose": verbose_entry(r, False) if r["expect"] == "ok" else None,
                   "extras": with_extras_concise(r) if r["expect"] == "ok" else None})
    ck.exhaustive = False
    ck.extra["exhaustive_parts"] = [j["cfg"] for j in jobs if "exh" in j["cfg"]]


def replay(path):
    rec = json.load(open(path))
    case = rec["case"]
    print("string:", repr(case["s"]))
    print("the grammar says:", case["expect"], "" if case["expect"] == "error" else expected_view(case))
    out, _, _ = evaluate(case)
    for sig, detail in out:
        print("  %s: %s" % (sig, detail))
    if out:
        print("VIOLATION property=%s replay=%s" % (PID, path))
        return 1
    print("no disagreement on this case")
    return 0
