"""C18 — relaxing the mapspace never makes the optimum worse.

Spec: spec/ConfigLattice.tla action Relax (enabled iff opt' <= opt for energy, latency and
EDP); role A lemma in spec/Mapspace.tla terms: every relaxation below only ever ADDS
terminal states (larger may_keep / smaller keep enlarge KeepChoices, a larger memory only
removes capacity rejections) — checked by TLC on the enumerated mapspaces (superset test).
Binding C: the real mapper's optimum for the base micro-spec and for each single
relaxation is recorded and TLC validates every (base, Relax, relaxed) step.
"""
from __future__ import annotations

import copy
import json
import random

from checks import config_common as cc
from checks import mapper_common as mc
from harness.core import Check, Machinery


def relaxations(w, rng):
    out = []
    inner = [c for c in w["level"] if w["level"][c] > 0 and not w["istoll"][c]]
    for m in inner:
        if w["size"][m]:
            v = copy.deepcopy(w); v["size"][m] = 2 * w["size"][m]
            out.append(("bigger_memory:%s" % m, v, None))
        missing = [t for t in w["tensors"] if t not in w["keep"][m] and t not in w["maykeep"][m]]
        if missing:
            v = copy.deepcopy(w); v["maykeep"][m] = w["maykeep"][m] + [missing[0]]
            out.append(("larger_may_keep:%s+%s" % (m, missing[0]), v, None))
        if w["keep"][m]:
            t = w["keep"][m][0]
            v = copy.deepcopy(w); v["keep"][m] = w["keep"][m][1:]; v["maykeep"][m] = w["maykeep"][m] + [t]
            out.append(("smaller_keep:%s-%s" % (m, t), v, None))
    out.append(("imperfect_factorisation:on", copy.deepcopy(w), {"explore_imperfect_temporal_loops": True}))
    return out


def keep_chain_worlds(ck, n):
    """3-level hierarchies without fanout (DRAM -> GLB -> RF, RF keeps everything, GLB may keep everything): the same
    tensor can sit in two adjacent levels, and GLB's keep set has k = 3, 2, 1 tensors, so that the smaller_keep
    relaxation walks the chain All -> ... -> Nothing (each step only adds storage choices)."""
    rng = random.Random(31 * ck.seed + 18)
    out = []
    for i in range(n):
        bounds = [[4, 8, 8], [8, 4, 4], [4, 4, 8]][(i // 3) % 3]
        w = mc.gen_microspec(rng, 700 + i, n_mem=3, bounds=bounds, kind="matmul")
        mems = sorted(w["level"], key=lambda c: w["level"][c])
        for t in w["tensors"]:
            w["wbits"][t] = 8
            for c in w["bits"]:
                w["bits"][c][t] = 8
        for c, e in zip(mems, (rng.choice([20, 16]), 4, 1)):
            for a in w["cost"][c]["energy"]:
                w["cost"][c]["energy"][a] = e
                w["cost"][c]["tput"][a] = [1, 0]
        order = list(w["tensors"])
        rng.shuffle(order)
        k = 3 - i % 3
        w["keep"][mems[1]], w["maykeep"][mems[1]] = order[:k], order[k:]
        w["keep"][mems[2]], w["maykeep"][mems[2]] = list(w["tensors"]), []
        w["size"][mems[1]], w["size"][mems[2]] = 512, 64
        w["mac"]["energy"], w["mac"]["tput"] = 1, [1, 1]
        out.append(w)
    return out


def superset_lemma(ck, pairs):
    """role A: on the spec's mapspace a keep/may_keep relaxation only adds mappings."""
    worlds = []
    for i, (b, v) in enumerate(pairs):
        b2, v2 = copy.deepcopy(b), copy.deepcopy(v)
        b2["id"], v2["id"] = 2 * i, 2 * i + 1
        worlds += [b2, v2]
    by = mc.enumerate_mapspace(ck, worlds, "lemma")
    for i in range(len(pairs)):
        base = {json.dumps(n) for n in by.get(2 * i, [])}
        rel = {json.dumps(n) for n in by.get(2 * i + 1, [])}
        if not base <= rel:
            raise Machinery("role-A lemma fails: relaxation removes mappings from the spec's mapspace")
    ck.extra["role_A"] = "Mapspace(relaxed) is a superset of Mapspace(base) for %d keep/may_keep relaxations" % len(pairs)


def run(ck: Check):
    thorough = ck.tier == "thorough"
    ck.rule = ("micro-specs (1 Einsum, 2-3 memories, keep/may_keep, finite sizes); every single relaxation among: doubled "
               "memory size, one more tensor in may_keep, one tensor moved from keep to may_keep, imperfect factorisation on; "
               "optimum of ENERGY, LATENCY, EDP recorded for base and relaxed spec; TLC validates each step. Non-trivial = "
               "every (base, relaxed) step (how many strictly improved an optimum is reported separately); distinct by "
               "(micro-spec, relaxation).")
    ck.assumptions += ["relaxations that need spatial fanout or several Einsums (loop_bounds removal, fused-loop limit, "
                       "min_usage) are not exercised yet"]
    rng = random.Random(77 * ck.seed + 5)
    worlds = cc.small_worlds(ck, 3 if not thorough else 14, 1)
    worlds += keep_chain_worlds(ck, 3 if not thorough else 9)
    configs, steps = [], {}
    lemma_pairs = []
    for w in worlds:
        configs.append((("base", w["id"]), w, None))
        for arg, v, knobs in relaxations(w, rng):
            configs.append(((arg, w["id"]), v, knobs))
            if knobs is None and not arg.startswith("bigger"):
                lemma_pairs.append((w, v))
    # the lemma is about the spec's mapspace, not about the mapper: check it on small dedicated worlds
    small_pairs = []
    lrng = random.Random(ck.seed + 181)
    for i, (kind, b) in enumerate((("reduce", [4, 2]), ("matvec", [2, 4]), ("elementwise", [2, 2]), ("matmul", [2, 2, 2]))):
        if not thorough and i >= 2:
            break
        lw = mc.gen_microspec(lrng, 800 + i, n_mem=2, kind=kind, bounds=b)
        inner = [c for c in lw["level"] if lw["level"][c] > 0][0]
        lw["keep"][inner] = [lw["tensors"][0]]
        lw["maykeep"][inner] = [lw["tensors"][-1]]
        for arg, v, knobs in relaxations(lw, lrng):
            if knobs is None and not arg.startswith("bigger"):
                small_pairs.append((lw, v))
    superset_lemma(ck, small_pairs)
    obs = cc.observe(ck, configs)
    traces, cfg_by_step = [], {}
    for w in worlds:
        o = obs[("base", w["id"])]
        tr = {"id": str(w["id"]), "base": cc.tla_obs(o), "steps": []}
        for key, v, knobs in configs:
            if key[1] != w["id"] or key[0] == "base":
                continue
            p = obs[key]
            if o["errors"] or p["errors"]:
                continue
            tr["steps"].append({"act": "Relax", "arg": key[0], "f": [1, 1], "t": [0, 1], "r": [0, 1], "obs": cc.tla_obs(p)})
            cfg_by_step[(tr["id"], len(tr["steps"]))] = (w, v, knobs, o, p)
            ck.count_nontrivial((w["id"], key[0]))
            if any(p.get(k) is not None and o.get(k) is not None and p[k] < o[k] for k in ("optE", "optL", "optEDP")):
                ck.extra["steps_where_an_optimum_strictly_improved"] = ck.extra.get("steps_where_an_optimum_strictly_improved", 0) + 1
        traces.append(tr)
    verdicts = cc.validate(ck, traces)
    cc.report(ck, "C18", traces, verdicts, None, cfg_by_step)


def replay(path):
    import os
    from harness.core import Check
    rec = json.load(open(path))
    ck = Check("C18", "quick", 0)
    ck.work = os.path.join(os.path.dirname(os.path.abspath(path)), "_replay_tmp")
    os.makedirs(ck.work, exist_ok=True)
    obs = cc.observe(ck, [("base", rec["base_world"], None), ("new", rec["new_world"], rec.get("knobs"))])
    tr = {"id": "r", "base": cc.tla_obs(obs["base"]),
          "steps": [{"act": "Relax", "arg": rec["arg"], "f": [1, 1], "t": [0, 1], "r": [0, 1], "obs": cc.tla_obs(obs["new"])}]}
    v = cc.validate(ck, [tr])[0]
    print({k: str(x) for k, x in obs["base"].items()}, "->", {k: str(x) for k, x in obs["new"].items()}, v["verdict"])
    if not all(v["verdict"].values()):
        print("VIOLATION property=C18 replay=%s" % path)
        return 1
    print("no disagreement on this case")
    return 0
