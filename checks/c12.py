"""C12 — pmapping-table Pareto pruning respects objectives, reservations and tolerances.

Spec: spec/ParetoTable.tla (column classes, ExpectVec for zero tolerance, Covers for a
tolerance; EXTENDS Pareto), spec/MC_ParetoTable.tla (table generators: schemas of real
column names, tolerance grid, constant columns to add), spec/Trace_ParetoTable.tla
(validation of recorded results).

Binding B (zero tolerance): every record TLC prints carries ExpectVec; the table is
replayed into `makepareto` and `PmappingDataframe.make_pareto` (plain and with the
constant columns added) and the kept rows are compared with it.
Binding C (every tolerance): the kept rows the implementation returned are written to a
case file and TLC evaluates ParetoTable!Covers and the equality of the two kept sets.
"""
from __future__ import annotations

import json
import os
from concurrent.futures import ProcessPoolExecutor

from harness.core import Check, Machinery
from harness import tlc as _tlc

PATHS = ("makepareto", "PmappingDataframe.make_pareto")
NPROC = int(os.environ.get("VERIF_NPROC", "8"))


# ----------------------------------------------------------------------------- driving the code
def _tolerances(tol):
    """(objective, relative reservation, absolute reservation) as the floats given to the code."""
    return (tol["on"] / tol["od"], tol["rn"] / tol["rd"], (tol["an"] / tol["ad"]) / tol["rs"])


def _column(name, cls, vals, rs, f32):
    import numpy as np
    ft = np.float32 if f32 else np.float64
    if cls == "obj":
        return np.array(vals, dtype=ft)
    if cls == "res":
        return np.array([v / rs for v in vals], dtype=ft)   # rs is a power of two: exact
    if cls == "diff":
        return np.array(vals, dtype=np.uint8 if f32 else np.int64)
    if cls == "niter":
        return np.array(vals, dtype=np.float64)
    if cls == "tensor":
        return np.array([v / 16 for v in vals], dtype=ft)
    if name.endswith("mapping"):
        return np.array(["mapping-%04d" % v for v in vals], dtype=object)
    return np.array(vals, dtype=np.int64)


def _frame(rec, with_const, f32):
    import pandas as pd
    rs = rec["tol"]["rs"]
    n = len(rec["T"])
    cols = [(nm, _column(nm, k, [r[c] for r in rec["T"]], rs, f32))
            for c, (nm, k) in enumerate(zip(rec["names"], rec["cls"]))]
    if with_const:
        extra = [(cc["name"], _column(cc["name"], cc["cls"], [cc["v"]] * n, rs, f32))
                 for cc in rec["const"]["cols"]]
        cols = extra + cols if rec["const"]["front"] else cols + extra
    return pd.DataFrame(dict(cols))


def _kept(rec, path, with_const):
    """1-based numbers of the rows the implementation keeps."""
    to, tr, ta = _tolerances(rec["tol"])
    if path == "makepareto":
        from accelforge.mapper.FFM._pareto_df.pareto import makepareto
        df = _frame(rec, with_const, f32=False)
        out = makepareto(df, objective_tolerance=to, resource_usage_tolerance=tr,
                         absolute_resource_usage_tolerance=ta)
    else:
        from accelforge.mapper.FFM._join_pmappings.pmapping_dataframe import PmappingDataframe
        df = _frame(rec, with_const, f32=True)
        p = PmappingDataframe(df, 1, 1, ignored_resources=set(), drop_valid_reservations=False,
                              skip_pareto=True)
        p.make_pareto(objective_tolerance=to, resource_usage_tolerance=tr,
                      absolute_resource_usage_tolerance=ta)
        out = p.data
    return sorted(int(i) + 1 for i in out.index)


def _eval_chunk(recs):
    out = []
    for rec in recs:
        res = {}
        for path in PATHS:
            try:
                res[path] = (_kept(rec, path, False), _kept(rec, path, True))
            except Exception as e:  # noqa
                import traceback
                res[path] = "EXC:" + "".join(traceback.format_exception(type(e), e, e.__traceback__))[-1500:]
        out.append(res)
    return out


def _warm(_):
    """Import accelforge and make numba compile every signature the replay will use (objective-only, with
    fused-loop columns, both dtypes, with and without rounding); forked workers inherit the compiled code."""
    E, L, G0 = "Total<SEP>energy", "Total<SEP>latency", "reservation<SEP>GlobalBuffer<SEP>0<SEP>left"
    F1, F2 = "fused_loop<SEP>Matmul0<SEP>stride<SEP>n1<SEP>0", "fused_loop<SEP>Matmul1<SEP>initial<SEP>m<SEP>1"
    zero = {"on": 0, "od": 1, "rn": 0, "rd": 1, "an": 0, "ad": 1, "rs": 1}
    some = {"on": 1, "od": 4, "rn": 1, "rd": 2, "an": 1, "ad": 1, "rs": 16}
    const = {"front": False, "cols": [{"name": "Total<SEP>leak_energy", "cls": "obj", "v": 0}]}
    shapes = [([E, L], ["obj", "obj"], [[1, 2], [2, 1], [2, 2]]),
              ([E, L, G0], ["obj", "obj", "res"], [[1, 2, 3], [2, 1, 3], [3, 2, 1], [3, 3, 3]]),
              ([E, G0, F1], ["obj", "res", "diff"], [[1, 2, 1], [2, 1, 1], [2, 2, 1], [1, 1, 2], [2, 2, 2]]),
              ([E, L, G0, F1, F2], ["obj", "obj", "res", "diff", "diff"],
               [[1, 2, 3, 1, 1], [2, 1, 3, 1, 1], [3, 2, 1, 1, 1], [3, 3, 3, 1, 1], [1, 2, 2, 2, 1], [2, 1, 4, 2, 1],
                [1, 3, 5, 2, 1], [2, 2, 2, 2, 2]]),
              (["Matmul0<SEP>mapping", E, F1], ["other", "obj", "diff"], [[1, 1, 1], [2, 2, 1], [3, 1, 2]])]
    out = []
    for names, cls, T in shapes:
        for tol in (zero, some):
            rec = {"T": T, "names": names, "cls": cls, "tol": tol, "const": const}
            out += [_kept(rec, p, c) for p in PATHS for c in (False, True)]
    return out


# ----------------------------------------------------------------------------- comparing
def _tolkind(tol):
    k = [n for n, f in (("obj", "on"), ("rel", "rn"), ("abs", "an")) if tol[f] != 0]
    return "+".join(k) or "zero"


def _b_compare(ck, rec, path, kept, with_const, label):
    """Zero tolerance: kept rows against ParetoTable!ExpectVec printed by TLC."""
    ks = set(kept)
    for i, e in enumerate(rec["expect"], start=1):
        if e == "keep" and i not in ks:
            direction = "drops-nondominated-row"
        elif e == "drop" and i in ks:
            direction = "keeps-dominated-row"
        else:
            continue
        sig = "C12/zero-tolerance/%s%s" % (direction, "/with-constant-columns" if with_const else "")
        ck.violation(sig,
                     "%s on table %s (columns %s%s) keeps rows %s; the definition gives %s (row %d)"
                     % (path, json.dumps(rec["T"]), rec["names"],
                        ", constant columns %s added" % [c["name"] for c in rec["const"]["cols"]] if with_const else "",
                        kept, rec["expect"], i),
                     {"kind": "zero", "rec": rec, "path": path, "with_const": with_const, "generator": label})
        return False
    return True


def _validate_with_tlc(ck_or_none, cases, workdir, tag):
    """Run Trace_ParetoTable on the recorded cases; returns {id: verdict record}."""
    path = os.path.join(workdir, "cases-%s.json" % tag)
    with open(path, "w") as f:
        json.dump(cases, f)
    kw = dict(env={"CASE_FILE": path}, coverage=False, timeout=3000, workers=8)
    if ck_or_none is not None:
        res = ck_or_none.tlc("Trace_ParetoTable", "Trace_ParetoTable.cfg", **kw)
    else:
        res = _tlc.run("Trace_ParetoTable", "Trace_ParetoTable.cfg", workdir=workdir, **kw)
    if not res.ok:
        raise Machinery("Trace_ParetoTable failed: %s\n%s" % (res.violated, res.tail))
    got = {r["id"]: r for r in res.records}
    if len(got) != len(cases):
        raise Machinery("Trace_ParetoTable returned %d verdicts for %d cases" % (len(got), len(cases)))
    return got


def _process(ck: Check, pool, recs, label, stats, pending):
    """Replay the generated records into the code; B-compare the zero-tolerance ones and queue
    what Trace_ParetoTable has to judge in `pending`."""
    size = 250 if len(recs) > 2000 else max(1, len(recs) // NPROC + 1)
    chunks = [recs[i:i + size] for i in range(0, len(recs), size)]
    results = [r for ch in pool.map(_eval_chunk, chunks) for r in ch]
    for k, (rec, res) in enumerate(zip(recs, results)):
        ck.traces += 1
        zero = bool(rec["expect"])
        nontrivial = False
        mine = {}
        for path in PATHS:
            r = res[path]
            if isinstance(r, str):
                ck.evaluations += 1
                ck.impl_errors += 1
                if ck.impl_error_sample is None:
                    ck.impl_error_sample = {"case": rec, "traceback": r}
                continue
            kept, keptc = r
            ck.evaluations += 2
            if 0 < len(kept) < len(rec["T"]):
                nontrivial = True
            need_tlc = not zero
            if zero:
                ok = _b_compare(ck, rec, path, kept, False, label) and \
                    _b_compare(ck, rec, path, keptc, True, label)
                dups = [i for i, e in enumerate(rec["expect"], start=1) if e == "dup"]
                stats["dup_rows"] += len(dups)
                stats["dup_rows_kept"] += len([i for i in dups if i in kept])
                need_tlc = ok and bool(dups)       # otherwise kept = keptc is already forced
            if need_tlc:
                key = (tuple(kept), tuple(keptc))
                if key in mine:                     # both paths returned the same: one TLC case
                    mine[key]["paths"].append(path)
                    continue
                mine[key] = {"rec": rec, "paths": [path], "label": label, "kept": kept, "keptc": keptc}
                pending.append(mine[key])
        if nontrivial:
            ck.count_nontrivial((label, json.dumps(rec["T"]), rec["sid"], rec["ti"]))
        stats["by_tol"][_tolkind(rec["tol"])] = stats["by_tol"].get(_tolkind(rec["tol"]), 0) + 1
    if recs:
        r = recs[len(recs) // 2]
        res = results[len(recs) // 2]
        ck.sample({"generator": label, "columns": r["names"], "classes": r["cls"], "table": r["T"][:8],
                   "rows": len(r["T"]), "tolerance": r["tol"], "expected(zero tolerance)": r["expect"][:8],
                   "kept_by_implementation": {p: (v if isinstance(v, str) else v[0]) for p, v in res.items()}})


def _judge(ck: Check, pending, stats):
    """One Trace_ParetoTable run over everything recorded; TLC's Covers / const_same are the verdicts."""
    cases = [{"id": i + 1, "T": p["rec"]["T"], "cls": p["rec"]["cls"], "tol": p["rec"]["tol"],
              "kept": p["kept"], "keptc": p["keptc"]} for i, p in enumerate(pending)]
    verdicts = _validate_with_tlc(ck, cases, ck.work, "all")
    for case, p in zip(cases, pending):
        v = verdicts[case["id"]]
        rec, paths = p["rec"], p["paths"]
        stats["tlc_validated"] += 1
        if not v["tight"]:
            stats["exceeds_tight_reservation_reading"] += 1
        replay = {"kind": "tol", "rec": rec, "path": paths[0], "generator": p["label"]}
        if not v["subset"] or not v["covers"]:
            d = v["uncovered"]
            ck.violation("C12/tolerance[%s]/dropped-row-not-covered-by-a-kept-row" % _tolkind(rec["tol"]),
                         "%s on table %s (columns %s) with tolerance %s keeps rows %s; dropped row %d = %s "
                         "has no kept row with the same fused-loop columns within (1+t) on objectives and "
                         "the reservation slack (TLC: ParetoTable!Covers is FALSE)"
                         % (paths, json.dumps(rec["T"]), rec["names"], rec["tol"], case["kept"], d,
                            rec["T"][d - 1] if d else None), replay)
        if not v["const_same"]:
            ck.violation("C12/constant-columns-change-result[%s]" % _tolkind(rec["tol"]),
                         "%s on table %s (columns %s, tolerance %s) keeps rows %s, but rows %s after adding the "
                         "constant columns %s" % (paths, json.dumps(rec["T"]), rec["names"], rec["tol"],
                                                  case["kept"], case["keptc"], rec["const"]["cols"]), replay)


def run(ck: Check):
    import multiprocessing
    import time
    thorough = ck.tier == "thorough"
    ck.rule = ("tables are enumerated (exh config: every table of every family of ExhQuick / ExhThorough) or drawn "
               "(rand configs, -simulate with the seed) by TLC from spec/MC_ParetoTable.tla with column names of "
               "the real naming convention, one tolerance triple of TolGrid and constant columns to add; zero "
               "tolerance: kept rows compared with ParetoTable!ExpectVec; every tolerance: TLC evaluates "
               "ParetoTable!Covers on the kept rows the implementation returned.  Both makepareto (float64) and "
               "PmappingDataframe.make_pareto (float32).  Non-trivial = the implementation kept at least one and "
               "dropped at least one row; distinct by (generator, table, schema, tolerance).")
    ck.trusted += ["checks/c12.py:_frame (table of integers -> DataFrame: identity on values, reservations and "
                   "the absolute tolerance divided by the power of two tol.rs, float(n/d) for tolerances)"]
    ck.assumptions += ["decimal tolerances (1/10, 1/100) reach the code as the nearest double; on integer tables "
                       "below 2^12 the bound k*td <= (td+tn)*d has the same truth value for both"]
    plan = [("MC_ParetoTable_exh_%s.cfg" % ("t" if thorough else "q"), None, None)]
    for i in range(3 if thorough else 1):
        s = ck.seed * 100 + i
        plan += [("MC_ParetoTable_rand.cfg", s, 1500 if thorough else 1000),
                 ("MC_ParetoTable_rand_big.cfg", s, 40 if thorough else 15)]
    stats = {"dup_rows": 0, "dup_rows_kept": 0, "tlc_validated": 0,
             "exceeds_tight_reservation_reading": 0, "by_tol": {}}
    timings = {}
    t0 = time.time()
    _warm(0)             # import accelforge and JIT-compile once; the forked workers inherit the compiled code
    timings["warmup"] = round(time.time() - t0, 1)
    pending = []
    warmed = set()
    for cfg, seed, depth in plan:
        t0 = time.time()
        kw = {"workers": 8}
        if seed is not None:
            kw = {"seed": seed, "workers": 1, "simulate": "num=1", "depth": depth}
        res = ck.tlc("MC_ParetoTable", cfg, timeout=3000, coverage=False, **kw)
        if not res.ok:
            raise Machinery("generator %s failed: %s\n%s" % (cfg, res.violated, res.tail))
        if not res.records:
            raise Machinery("generator %s printed no cases" % cfg)
        t1 = time.time()
        # numba compiles one variant per dtype/layout: let the parent meet one record of every
        # (schema, tolerance) first, then fork the workers (they inherit the compiled code)
        first = []
        for r in res.records:
            if (r["sid"], r["ti"]) not in warmed:
                warmed.add((r["sid"], r["ti"]))
                first.append(r)
        _eval_chunk(first)
        t2 = time.time()
        with ProcessPoolExecutor(NPROC, mp_context=multiprocessing.get_context("fork")) as pool:
            _process(ck, pool, res.records, cfg, stats, pending)
        timings[cfg + ("" if seed is None else "@%d" % seed)] = {
            "records": len(res.records), "tlc_generate_s": round(t1 - t0, 1),
            "compile_s": round(t2 - t1, 1), "replay_s": round(time.time() - t2, 1)}
    if not pending:
        raise Machinery("no case reached Trace_ParetoTable")
    t0 = time.time()
    _judge(ck, pending, stats)
    timings["Trace_ParetoTable"] = {"cases": len(pending), "s": round(time.time() - t0, 1)}
    ck.extra["timings"] = timings
    ck.exhaustive = False
    ck.extra["exhaustive_parts"] = [p[0] for p in plan if p[1] is None]
    ck.extra["c12_stats"] = stats
    ck.extra["non_decisive"] = ("rows equal to an earlier non-dominated row on all compared columns ('dup') may be "
                                "kept or dropped; the tighter reservation reading max((1+r)d, d+a) is only counted "
                                "(exceeds_tight_reservation_reading)")


def replay(path):
    rec0 = json.load(open(path))
    rec, p = rec0["rec"], rec0["path"]
    print("table", rec["T"])
    print("columns", rec["names"], "tolerance", rec["tol"], "path", p)
    kept, keptc = _kept(rec, p, False), _kept(rec, p, True)
    print("implementation keeps rows", kept, "; with constant columns", keptc)
    bad = False
    if rec0["kind"] == "zero":
        k = keptc if rec0.get("with_const") else kept
        print("definition (ParetoTable!ExpectVec, from TLC):", rec["expect"])
        for i, e in enumerate(rec["expect"], start=1):
            if (e == "keep" and i not in k) or (e == "drop" and i in k):
                bad = True
    else:
        work = os.path.join(_tlc.VERIF, ".work", "C12-replay")
        os.makedirs(work, exist_ok=True)
        v = _validate_with_tlc(None, [{"id": 1, "T": rec["T"], "cls": rec["cls"], "tol": rec["tol"],
                                       "kept": kept, "keptc": keptc}], work, "replay")[1]
        print("TLC:", v)
        bad = not (v["covers"] and v["const_same"] and v["subset"])
    if bad:
        print("VIOLATION property=C12 replay=%s" % path)
        return 1
    print("no disagreement on this case")
    return 0
