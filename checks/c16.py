"""C16 — tolerance settings stay within their documented optimality bound.

Spec: spec/ConfigLattice.tla action SetTolerance(t, r): enabled iff opt <= opt' <= (1+t) opt
for every metric (t = objective_tolerance) and, when r = resource_usage_tolerance > 0,
every returned mapping is still valid (decided by spec/Trace_Mapping.tla executing it).
The exact optimum `opt` is the zero-tolerance observation of the same micro-spec (that it
is the mapspace optimum is C01's business).
"""
from __future__ import annotations

import copy
import json
import random

from checks import config_common as cc
from harness.core import Check, Machinery

TOLS = [[1, 100], [1, 10], [1, 2]]


def run(ck: Check):
    thorough = ck.tier == "thorough"
    ck.rule = ("micro-specs (1 Einsum, 2-3 memories, finite sizes); objective_tolerance and resource_usage_tolerance in "
               "{0.01, 0.1, 0.5} separately and together; optimum of ENERGY, LATENCY, EDP recorded; every returned mapping "
               "of a tolerant run is executed by Trace_Mapping. Non-trivial = every run with a non-zero tolerance (the "
               "number of steps where the tolerance actually changed an optimum is reported separately); distinct by "
               "(micro-spec, t, r).")
    worlds = cc.small_worlds(ck, 2 if not thorough else 12, 600)
    combos = []
    tl = TOLS if thorough else [TOLS[ck.seed % 3], TOLS[(ck.seed + 1) % 3]]
    for t in tl:
        combos += [(t, [0, 1]), ([0, 1], t), (t, t)]
    configs = []
    for w in worlds:
        configs.append((("base", w["id"], "0"), w, None))
        for t, r in combos:
            knobs = {}
            if t[0]:
                knobs["objective_tolerance"] = t[0] / t[1]
            if r[0]:
                knobs["resource_usage_tolerance"] = r[0] / r[1]
            configs.append((("SetTolerance", w["id"], "t=%d/%d,r=%d/%d" % (t[0], t[1], r[0], r[1])), w, knobs))
    obs = cc.observe(ck, configs, need_valid=True)
    traces, cfg_by_step = [], {}
    for w in worlds:
        o = obs[("base", w["id"], "0")]
        tr = {"id": str(w["id"]), "base": cc.tla_obs(o), "steps": []}
        for key, v, knobs in configs:
            if key[1] != w["id"] or key[0] == "base":
                continue
            p = obs[key]
            if o["errors"] or p["errors"]:
                continue
            ts, rs = key[2].split(",")
            t = [int(x) for x in ts[2:].split("/")]
            r = [int(x) for x in rs[2:].split("/")]
            tr["steps"].append({"act": "SetTolerance", "arg": key[2], "f": [1, 1], "t": t, "r": r, "obs": cc.tla_obs(p)})
            cfg_by_step[(tr["id"], len(tr["steps"]))] = (w, v, knobs, o, p)
            ck.count_nontrivial((w["id"], key[2]))
            if any(p.get(k) != o.get(k) for k in ("optE", "optL", "optEDP")):
                ck.extra["steps_where_tolerance_changed_an_optimum"] = ck.extra.get("steps_where_tolerance_changed_an_optimum", 0) + 1
        traces.append(tr)
    verdicts = cc.validate(ck, traces)
    cc.report(ck, "C16", traces, verdicts, None, cfg_by_step)
    bucket_part(ck)


def bucket_part(ck):
    """The classing that every tolerant pruning step uses (logscale_to_tolerance) must be monotone and narrow:
    values in one class are within the factor 1+t of each other (spec/ToleranceBuckets.tla)."""
    import os
    import numpy as np, pandas as pd
    from accelforge.mapper.FFM._pareto_df.pareto import logscale_to_tolerance
    thorough = ck.tier == "thorough"
    ck.tlc_expect_ok("ToleranceBuckets", "ToleranceBuckets_A.cfg", timeout=900)
    r = ck.tlc("ToleranceBuckets", "ToleranceBuckets_wide.cfg", timeout=900)
    if r.ok:
        raise Machinery("role-A negative lemma: classes wider than 1+t must lose the near-optimum")
    ck.extra["role_A_buckets"] = ("ToleranceBuckets: with a monotone classing whose classes span at most 1+t, keeping an "
                                  "arbitrary member per class keeps a value within 1+t of the minimum; with wider classes TLC "
                                  "finds a table where it does not")
    tables = []
    n = 1500 if not thorough else 6000
    for on, od in ((1, 100), (1, 10), (1, 2), (1, 1)):
        for scale, name in ((1, "ints"), (7, "x7"), (1000, "x1000")):
            xs = [i * scale for i in range(1, n + 1)]
            out = logscale_to_tolerance(pd.Series(np.array(xs, dtype=np.float64)), on / od)
            vals = [float(v) for v in out]
            ranks = {v: i for i, v in enumerate(sorted(set(vals)))}
            # class ids in the order of the representatives; a representative that is not monotone in x shows as
            # a class id that decreases
            tables.append({"id": "t=%d/%d,%s" % (on, od, name), "on": on, "od": od, "xs": xs, "cls": [ranks[v] for v in vals]})
    # TLC's integers are 32-bit: x * (od + on) stays below 2^31 for x <= 6000 * 1000 and od + on <= 101
    path = os.path.join(ck.work, "buckets.json")
    # NarrowT compares all pairs: keep each table short by sending only class boundaries (first and last member
    # of every class) plus, for monotonicity, the full sequence in chunks
    slim = []
    for tb in tables:
        keep = [i for i in range(len(tb["xs"])) if i == 0 or i == len(tb["xs"]) - 1
                or tb["cls"][i] != tb["cls"][i - 1] or tb["cls"][i] != tb["cls"][i + 1]]
        slim.append(dict(tb, xs=[tb["xs"][i] for i in keep], cls=[tb["cls"][i] for i in keep]))
        # (between two kept neighbours every dropped index has the class of both: nothing is lost for either clause)
    json.dump(slim, open(path, "w"))
    res = ck.tlc("ToleranceBuckets", "ToleranceBuckets_trace.cfg", env={"BUCKETS_FILE": path}, coverage=False, workers=4, timeout=1500)
    if not res.ok or len(res.records) != len(slim):
        raise Machinery("ToleranceBuckets validation failed: %s\n%s" % (res.violated, res.tail))
    by = {t["id"]: t for t in slim}
    for v in res.records:
        ck.traces += 1
        ck.count_nontrivial(("buckets", v["id"]))
        tb = by[v["id"]]
        if not v["monotone"] or not v["narrow"]:
            j = v["witness"]
            what = "class-wider-than-tolerance" if not v["narrow"] else "classing-not-monotone"
            detail = ""
            if j:
                i = next(i for i in range(len(tb["xs"])) if tb["cls"][i] == tb["cls"][j - 1])
                detail = ": %s and %s are in one class, ratio %.4f > 1 + %d/%d" % (tb["xs"][i], tb["xs"][j - 1],
                                                                                 tb["xs"][j - 1] / tb["xs"][i], tb["on"], tb["od"])
            ck.violation("C16/buckets/%s" % what,
                         "logscale_to_tolerance with tolerance %d/%d on %s%s" % (tb["on"], tb["od"], v["id"], detail),
                         {"kind": "buckets", "on": tb["on"], "od": tb["od"], "xs": tb["xs"][:400]})
    ck.extra["bucket_tables_validated"] = len(res.records)


def replay(path):
    import os
    rec = json.load(open(path))
    if rec.get("kind") == "buckets":
        import numpy as np, pandas as pd
        from accelforge.mapper.FFM._pareto_df.pareto import logscale_to_tolerance
        xs = rec["xs"]
        out = [float(v) for v in logscale_to_tolerance(pd.Series(np.array(xs, dtype=np.float64)), rec["on"] / rec["od"])]
        bad = [(a, b) for a, va in zip(xs, out) for b, vb in zip(xs, out)
               if va == vb and a <= b and b * rec["od"] > a * (rec["od"] + rec["on"])]
        print("pairs in one class with a ratio above 1 + %d/%d: %s" % (rec["on"], rec["od"], bad[:5]))
        if bad:
            print("VIOLATION property=C16 replay=%s" % path)
            return 1
        print("no disagreement on this case")
        return 0
    ck = Check("C16", "quick", 0)
    ck.work = os.path.join(os.path.dirname(os.path.abspath(path)), "_replay_tmp")
    os.makedirs(ck.work, exist_ok=True)
    obs = cc.observe(ck, [("base", rec["base_world"], None), ("new", rec["new_world"], rec.get("knobs"))], need_valid=True)
    ts, rs = rec["arg"].split(",")
    tr = {"id": "r", "base": cc.tla_obs(obs["base"]),
          "steps": [{"act": "SetTolerance", "arg": rec["arg"], "f": [1, 1], "t": [int(x) for x in ts[2:].split("/")],
                     "r": [int(x) for x in rs[2:].split("/")], "obs": cc.tla_obs(obs["new"])}]}
    v = cc.validate(ck, [tr])[0]
    print({k: str(x) for k, x in obs["base"].items()}, "->", {k: str(x) for k, x in obs["new"].items()}, v["verdict"])
    if not all(v["verdict"].values()):
        print("VIOLATION property=C16 replay=%s" % path)
        return 1
    print("no disagreement on this case")
    return 0
