"""C16 — tolerance settings stay within their documented optimality bound.

Spec: spec/ConfigLattice.tla action SetTolerance(t, r): enabled iff opt <= opt' <= (1+t) opt
for every metric (t = objective_tolerance) and, when r = resource_usage_tolerance > 0,
every returned mapping is still valid (decided by spec/Trace_Mapping.tla executing it).
The exact optimum `opt` is the zero-tolerance observation of the same micro-spec (that it
is the mapspace optimum is C01's business).
"""
from __future__ import annotations

import copy
import json
import random

from checks import config_common as cc
from harness.core import Check, Machinery

TOLS = [[1, 100], [1, 10], [1, 2]]


def run(ck: Check):
    thorough = ck.tier == "thorough"
    ck.rule = ("micro-specs (1 Einsum, 2-3 memories, finite sizes); objective_tolerance and resource_usage_tolerance in "
               "{0.01, 0.1, 0.5} separately and together; optimum of ENERGY, LATENCY, EDP recorded; every returned mapping "
               "of a tolerant run is executed by Trace_Mapping. Non-trivial = every run with a non-zero tolerance (the "
               "number of steps where the tolerance actually changed an optimum is reported separately); distinct by "
               "(micro-spec, t, r).")
    worlds = cc.small_worlds(ck, 2 if not thorough else 12, 600)
    combos = []
    tl = TOLS if thorough else [TOLS[ck.seed % 3], TOLS[(ck.seed + 1) % 3]]
    for t in tl:
        combos += [(t, [0, 1]), ([0, 1], t), (t, t)]
    configs = []
    for w in worlds:
        configs.append((("base", w["id"], "0"), w, None))
        for t, r in combos:
            knobs = {}
            if t[0]:
                knobs["objective_tolerance"] = t[0] / t[1]
            if r[0]:
                knobs["resource_usage_tolerance"] = r[0] / r[1]
            configs.append((("SetTolerance", w["id"], "t=%d/%d,r=%d/%d" % (t[0], t[1], r[0], r[1])), w, knobs))
    obs = cc.observe(ck, configs, need_valid=True)
    traces, cfg_by_step = [], {}
    for w in worlds:
        o = obs[("base", w["id"], "0")]
        tr = {"id": str(w["id"]), "base": cc.tla_obs(o), "steps": []}
        for key, v, knobs in configs:
            if key[1] != w["id"] or key[0] == "base":
                continue
            p = obs[key]
            if o["errors"] or p["errors"]:
                continue
            ts, rs = key[2].split(",")
            t = [int(x) for x in ts[2:].split("/")]
            r = [int(x) for x in rs[2:].split("/")]
            tr["steps"].append({"act": "SetTolerance", "arg": key[2], "f": [1, 1], "t": t, "r": r, "obs": cc.tla_obs(p)})
            cfg_by_step[(tr["id"], len(tr["steps"]))] = (w, v, knobs, o, p)
            ck.count_nontrivial((w["id"], key[2]))
            if any(p.get(k) != o.get(k) for k in ("optE", "optL", "optEDP")):
                ck.extra["steps_where_tolerance_changed_an_optimum"] = ck.extra.get("steps_where_tolerance_changed_an_optimum", 0) + 1
        traces.append(tr)
    verdicts = cc.validate(ck, traces)
    cc.report(ck, "C16", traces, verdicts, None, cfg_by_step)
    ck.nontrivial_count += 0


def replay(path):
    import os
    rec = json.load(open(path))
    ck = Check("C16", "quick", 0)
    ck.work = os.path.join(os.path.dirname(os.path.abspath(path)), "_replay_tmp")
    os.makedirs(ck.work, exist_ok=True)
    obs = cc.observe(ck, [("base", rec["base_world"], None), ("new", rec["new_world"], rec.get("knobs"))], need_valid=True)
    ts, rs = rec["arg"].split(",")
    tr = {"id": "r", "base": cc.tla_obs(obs["base"]),
          "steps": [{"act": "SetTolerance", "arg": rec["arg"], "f": [1, 1], "t": [int(x) for x in ts[2:].split("/")],
                     "r": [int(x) for x in rs[2:].split("/")], "obs": cc.tla_obs(obs["new"])}]}
    v = cc.validate(ck, [tr])[0]
    print({k: str(x) for k, x in obs["base"].items()}, "->", {k: str(x) for k, x in obs["new"].items()}, v["verdict"])
    if not all(v["verdict"].values()):
        print("VIOLATION property=C16 replay=%s" % path)
        return 1
    print("no disagreement on this case")
    return 0
