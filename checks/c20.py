"""C20 — mapper results do not depend on scheduling, hashing or caching.

Spec: spec/Determinism.tla — seen[spec] = result of the first run; action Run(spec, env,
result) enabled iff the result equals seen[spec]; a recorded sequence of runs is accepted
iff every step is an enabled Run (TLC, POSTCONDITION Accepted).  spec/MC_Schedules.tla
generates the schedules (execution and arrival priority vectors per parallel() call)
that the hook in accelforge/util/parallel.py imposes (ACCELFORGE_VERIF_SCHEDULE).
Binding B (schedules from TLC into the code) + C (recorded runs validated by TLC).
Every run is a fresh interpreter: 1 worker; N real worker processes; N workers under each
TLC schedule and under seeded schedules; PYTHONHASHSEED in {1, 7, ...}; cold then warm
cache_dir.  The result is the set of (objective vector, LoopTree structure) pairs.
"""
from __future__ import annotations

import hashlib
import json
import os
import random
import subprocess
import sys
from concurrent.futures import ThreadPoolExecutor

from checks import c28
from checks import mapper_common as mc
from harness import microspec as ms
from harness.core import Check, Machinery, VERIF

RUNNER = os.path.join(VERIF, "checks", "_c20_runner.py")


def one_run(args):
    spec_id, arch, wl, metrics, n_jobs, env_extra, cache, cwd = args
    env = dict(os.environ)
    env.update({"PYTHONHASHSEED": "0", "ACCELFORGE_VERIF": "1"})
    for k in ("ACCELFORGE_VERIF_SCHEDULE", "ACCELFORGE_VERIF_SCHEDULE_SEED", "ACCELFORGE_VERIF_TRACE"):
        env.pop(k, None)
    env.update(env_extra)
    os.makedirs(cwd, exist_ok=True)
    cmd = [sys.executable, RUNNER, arch, wl, metrics, str(n_jobs)] + ([cache] if cache else [])
    p = subprocess.run(cmd, cwd=cwd, env=env, capture_output=True, text=True, timeout=1800)
    for ln in p.stdout.splitlines():
        if ln.startswith("C20RESULT "):
            return {"rows": json.loads(ln[len("C20RESULT "):])}
    return {"exception": (p.stderr or p.stdout)[-3000:]}


def run(ck: Check):
    thorough = ck.tier == "thorough"
    ck.rule = ("1- and 2-Einsum micro-specs; per spec and metric set one baseline run (1 worker, hash seed 0) and runs that "
               "vary one environment component: 4 real worker processes; 4 workers under TLC-generated schedules (execution and "
               "arrival order of every parallel() call permuted) and under seeded schedules; PYTHONHASHSEED 1, 7 (+more); cold "
               "then warm cache_dir. Non-trivial = run whose environment differs from the baseline; distinct by (spec, env).")
    rng = random.Random(ck.seed * 17 + 3)
    # schedules from TLC
    res = ck.tlc("MC_Schedules", "MC_Schedules_gen.cfg", simulate="num=1", depth=60, seed=ck.seed + 1, workers=1, coverage=False)
    scheds = [r["calls"] for r in res.records]
    res2 = ck.tlc("MC_Schedules", "MC_Schedules_exh.cfg", coverage=False)
    exh = [r["calls"] for r in res2.records]
    if len(scheds) < 5 or len(exh) != 36:
        raise Machinery("schedule generation produced %d random / %d exhaustive schedules" % (len(scheds), len(exh)))
    sdir = os.path.join(ck.work, "sched")
    os.makedirs(sdir, exist_ok=True)
    sfiles = []
    pick = scheds[1:(4 if not thorough else 16)] + [exh[i] for i in rng.sample(range(36), 3 if not thorough else 12)]
    for i, s in enumerate(pick):
        p = os.path.join(sdir, "s%d.json" % i)
        json.dump(s, open(p, "w"))
        sfiles.append(p)
    # specs
    specs = []
    ydir = os.path.join(ck.work, "yaml")
    os.makedirs(ydir, exist_ok=True)
    for i in range(2 if not thorough else 5):
        a, w = c28.two_einsum_yaml(rng)
        specs.append(("chain%d" % i, a, w))
    for w in mc.mapper_worlds(ck, 2 if not thorough else 6, 3000):
        specs.append(("w%d" % w["id"], ms.arch_yaml(w, mc.keep_yaml(w)), ms.workload_yaml(w)))
    jobs = []
    for sid, a, w in specs:
        pa, pw = os.path.join(ydir, sid + "_a.yaml"), os.path.join(ydir, sid + "_w.yaml")
        open(pa, "w").write(a)
        open(pw, "w").write(w)
        for metrics in ("ENERGY", "ENERGY+LATENCY"):
            key = sid + "/" + metrics
            cwd = os.path.join(ck.work, "run")
            envs = [("workers=1", 1, {}, None)]
            envs.append(("workers=4", 4, {}, None))
            for sf in sfiles:
                envs.append(("workers=4,schedule=%s" % os.path.basename(sf), 4, {"ACCELFORGE_VERIF_SCHEDULE": sf}, None))
            for sd in ([11] if not thorough else [11, 12, 13]):
                envs.append(("workers=4,schedule_seed=%d" % sd, 4, {"ACCELFORGE_VERIF_SCHEDULE_SEED": str(sd)}, None))
            for hs in ([1, 7] if not thorough else [1, 7, 42, 12345]):
                envs.append(("hashseed=%d" % hs, 1, {"PYTHONHASHSEED": str(hs)}, None))
            cache = os.path.join(ck.work, "cache", hashlib.md5(key.encode()).hexdigest())
            envs.append(("cache=cold", 1, {}, cache))
            for name, nj, ee, cdir in envs:
                jobs.append((key, name, (key, pa, pw, metrics, nj, ee, cdir, os.path.join(cwd, "%d" % len(jobs)))))
            jobs.append((key, "cache=warm", None))  # placeholder: must run after the cold run
    # run everything except warm-cache runs concurrently, then the warm ones
    first = [j for j in jobs if j[2] is not None]
    with ThreadPoolExecutor(8) as ex:
        outs = list(ex.map(lambda j: one_run(j[2]), first))
    results = {(j[0], j[1]): o for j, o in zip(first, outs)}
    warm = []
    for key, name, _ in [j for j in jobs if j[2] is None]:
        cold = next(j for j in first if j[0] == key and j[1] == "cache=cold")
        a = list(cold[2])
        a[7] = a[7] + "w"
        warm.append((key, "cache=warm", tuple(a)))
    with ThreadPoolExecutor(8) as ex:
        outs = list(ex.map(lambda j: one_run(j[2]), warm))
    results.update({(j[0], j[1]): o for j, o in zip(warm, outs)})
    # the recorded runs as one trace, baseline first per spec
    runs, payload = [], {}
    for (key, name), o in sorted(results.items(), key=lambda kv: (kv[0][0], kv[0][1] != "workers=1", kv[0][1])):
        ck.evaluations += 1
        if "exception" in o:
            ck.impl_errors += 1
            if ck.impl_error_sample is None:
                ck.impl_error_sample = {"case": {"spec": key, "env": name}, "traceback": o["exception"]}
            continue
        digest = hashlib.sha256(json.dumps(o["rows"], sort_keys=True).encode()).hexdigest()[:16]
        runs.append({"spec": key, "env": name, "result": digest})
        payload[(key, name)] = o["rows"]
        if name != "workers=1":
            ck.count_nontrivial((key, name))
    if not runs:
        raise Machinery("no run produced a result")
    # validate spec by spec so that every spec gets a verdict (a rejected step stops one trace only)
    for key in sorted({r["spec"] for r in runs}):
        tr = [r for r in runs if r["spec"] == key]
        path = os.path.join(ck.work, "runs.json")
        json.dump(tr, open(path, "w"))
        res = ck.tlc("Determinism", "Determinism_trace.cfg", env={"RUNS_FILE": path}, coverage=False, workers=1, timeout=600)
        accepted = max((r["accepted"] for r in res.records), default=0)
        ck.traces += accepted
        if not res.ok or accepted < len(tr):
            bad = tr[accepted] if accepted < len(tr) else tr[-1]
            base = tr[0]
            a, b = payload[(key, base["env"])], payload[(key, bad["env"])]
            kind = bad["env"].split("=")[0].split(",")[-1]
            only_a = [x for x in a if x not in b][:2]
            only_b = [x for x in b if x not in a][:2]
            same_vecs = sorted(x[0] for x in a) == sorted(x[0] for x in b)
            ck.violation("C20/result-depends-on-%s/%s" % (kind, "structures-differ" if same_vecs else "objectives-differ"),
                         "spec %s: run with %s returns a different front than the baseline run (%s): %d vs %d rows; only in "
                         "baseline: %s ; only in this run: %s"
                         % (key, bad["env"], base["env"], len(a), len(b), json.dumps(only_a)[:600], json.dumps(only_b)[:600]),
                         {"spec": key, "env": bad["env"], "yaml": [open(os.path.join(ydir, key.split("/")[0] + "_a.yaml")).read(),
                                                                    open(os.path.join(ydir, key.split("/")[0] + "_w.yaml")).read()],
                          "schedule": json.load(open(os.path.join(sdir, bad["env"].split("schedule=")[1])))
                          if "schedule=" in bad["env"] else None})
        if len(ck.samples) < 3:
            ck.sample({"spec": key, "runs": [(r["env"], r["result"]) for r in tr][:8]})


def replay(path):
    rec = json.load(open(path))
    d = os.path.join(os.path.dirname(os.path.abspath(path)), "_replay_tmp")
    os.makedirs(d, exist_ok=True)
    pa, pw = os.path.join(d, "a.yaml"), os.path.join(d, "w.yaml")
    open(pa, "w").write(rec["yaml"][0])
    open(pw, "w").write(rec["yaml"][1])
    metrics = rec["spec"].split("/")[1]
    base = one_run((rec["spec"], pa, pw, metrics, 1, {}, None, os.path.join(d, "b")))
    env, nj, cache = {}, 1, None
    e = rec["env"]
    if "workers=4" in e:
        nj = 4
    if rec.get("schedule"):
        sp = os.path.join(d, "s.json")
        json.dump(rec["schedule"], open(sp, "w"))
        env["ACCELFORGE_VERIF_SCHEDULE"] = sp
    if "schedule_seed=" in e:
        env["ACCELFORGE_VERIF_SCHEDULE_SEED"] = e.split("schedule_seed=")[1]
    if "hashseed=" in e:
        env["PYTHONHASHSEED"] = e.split("hashseed=")[1]
    other = one_run((rec["spec"], pa, pw, metrics, nj, env, cache, os.path.join(d, "o")))
    if "exception" in base or "exception" in other:
        print(base.get("exception"), other.get("exception")); return 2
    print("baseline rows:", len(base["rows"]), " run rows:", len(other["rows"]))
    if base["rows"] != other["rows"]:
        print("VIOLATION property=C20 replay=%s" % path)
        return 1
    print("no disagreement on this case")
    return 0
