"""C11 — the Pareto filter keeps exactly the non-dominated rows.

Spec: spec/Pareto.tla (definition Mask), spec/ParetoSFS.tla (the algorithm, role A),
spec/MC_Pareto.tla (case generators).  Binding B: every record TLC prints
(matrix, goals, expected mask) is replayed into fast_pareto_mask and
makepareto_numpy with float32 and float64 data.
"""
from __future__ import annotations

import json
import math
import os
from concurrent.futures import ProcessPoolExecutor

from harness.core import Check, Machinery

INF = float("inf")
VALMAPS = {
    # abstract value -> float; strictly increasing and exactly representable in float32
    "small": {0: 0.0, 1: 1.0, 2: INF},
    "small4": {0: 0.0, 1: 1.0, 2: 2.0, 3: INF},
    "mag": {0: 0.0, 1: 1.0, 2: 2.0, 3: 3.0, 4: 16777216.0, 5: 16777218.0, 6: 1e8, 7: INF},
    "ident": None,
}


def _mapped(M, vm):
    if vm is None:
        return [[float(v) for v in r] for r in M]
    return [[vm[v] for v in r] for r in M]


def _classify(data, goals, exp, got):
    """Signature of a disagreement: which code path of _sfs_bnl_core the group took and
    in which direction the mask is wrong.  Used to match known findings."""
    import numpy as np
    a = np.asarray(data, dtype=np.float64)
    n = a.shape[0]
    bad = [i for i in range(n) if bool(exp[i]) != bool(got[i])]
    i = bad[0]
    diff = [c for c, g in enumerate(goals) if g == "diff"]
    grp = [r for r in range(n) if all(a[r, c] == a[i, c] for c in diff)]
    opt = [c for c, g in enumerate(goals) if g in ("min", "max")]
    pf = any(g.endswith("prime_factor") for g in goals)
    eff = [c for c in opt if len(set(a[:, c])) > 1]
    var = [c for c in eff if len(set(a[grp, c])) > 1]
    path = "pf" if pf else {0: "const", 1: "1d"}.get(len(eff), None)
    if path is None:
        path = {0: "novary", 1: "1vary", 2: "2d"}.get(len(var), "sfs")
    direction = "drops-nondominated" if exp[i] else "keeps-dominated"
    extra = ""
    if path == "2d" and exp[i]:
        sign = -1.0 if goals[var[1]] == "max" else 1.0
        if sign * a[i, var[1]] == INF:
            extra = ":inf-in-second-varying-column"
    if path == "sfs" and not exp[i]:
        s = lambda r: sum(np.float32((-1.0 if goals[c] == "max" else 1.0) * a[r, c]) for c in var)
        # float32 running sum as the implementation forms it
        def fsum(r):
            t = np.float32(0.0)
            for c in var:
                t = np.float32(t + np.float32((-1.0 if goals[c] == "max" else 1.0) * a[r, c]))
            return t
        si = fsum(i)
        doms = [r for r in grp if r != i and all(
            ((a[r, c] <= a[i, c]) if goals[c] == "min" else (a[r, c] >= a[i, c])) for c in var)
            and any(a[r, c] != a[i, c] for c in var)]
        if doms and all((fsum(r) == si) or (math.isnan(fsum(r)) or math.isnan(si)) for r in doms):
            extra = ":float32-sum-key-ties-with-every-dominator"
    return "C11/%s/%s%s" % (path, direction, extra)


def _eval_chunk(args):
    recs, vmname = args
    import numpy as np
    from accelforge.mapper.FFM._pareto_df.fast_pareto import fast_pareto_mask
    from accelforge.mapper.FFM._pareto_df.pareto import makepareto_numpy
    vm = VALMAPS[vmname]
    out = []  # (idx, fn, dtype, got) for disagreements; errors too
    stats = {"n": 0, "nontrivial": 0, "err": 0}
    for k, rec in enumerate(recs):
        M, G, exp = rec["M"], rec["G"], rec["mask"]
        data = _mapped(M, vm)
        for dt in ("float32", "float64"):
            arr = np.array(data, dtype=dt)
            for fn in ("fast_pareto_mask", "makepareto_numpy"):
                try:
                    if fn == "fast_pareto_mask":
                        got = fast_pareto_mask(arr.copy(), list(G))
                    else:
                        got = makepareto_numpy(arr.copy(), list(G))
                    got = [bool(x) for x in got]
                except Exception as e:  # noqa
                    stats["err"] += 1
                    out.append((k, fn, dt, "EXC:%s: %s" % (type(e).__name__, e)))
                    continue
                stats["n"] += 1
                if got != [bool(x) for x in exp]:
                    out.append((k, fn, dt, got))
    return out, stats


def _nontrivial(rec):
    M, exp = rec["M"], rec["mask"]
    rows = {tuple(r) for r in M}
    return len(rows) >= 2 and (not all(exp)) and any(exp)


def _replay_records(ck: Check, recs, vmname, label):
    ncpu = min(16, os.cpu_count() or 1)
    chunks = [recs[i:i + 2000] for i in range(0, len(recs), 2000)]
    with ProcessPoolExecutor(ncpu) as ex:
        results = list(ex.map(_eval_chunk, [(c, vmname) for c in chunks]))
    for ci, (out, stats) in enumerate(results):
        ck.evaluations += stats["n"] + stats["err"]
        for (k, fn, dt, got) in out:
            rec = chunks[ci][k]
            data = _mapped(rec["M"], VALMAPS[vmname])
            if isinstance(got, str):
                ck.impl_errors += 1
                if ck.impl_error_sample is None:
                    ck.impl_error_sample = {"case": rec, "traceback": got}
                continue
            sig = _classify(data, rec["G"], rec["mask"], got)
            ck.violation(sig,
                         "%s(%s) on %s with goals %s returns %s, the definition gives %s"
                         % (fn, dt, json.dumps(data), rec["G"], got, rec["mask"]),
                         {"data": data, "goals": rec["G"], "expected": rec["mask"],
                          "fn": fn, "dtype": dt, "generator": label})
    for rec in recs:
        ck.traces += 1
        if _nontrivial(rec):
            ck.count_nontrivial((vmname, json.dumps(rec["M"]), tuple(rec["G"])))
    if recs:
        r = recs[len(recs) // 2]
        ck.sample({"generator": label, "matrix": _mapped(r["M"], VALMAPS[vmname]),
                   "goals": r["G"], "expected_mask": r["mask"]})


def run(ck: Check):
    thorough = ck.tier == "thorough"
    ck.rule = ("matrices are enumerated (exhaustive configs) or drawn (random configs) by TLC from "
               "spec/MC_Pareto.tla; expected mask = Pareto!Mask evaluated by TLC; each is replayed into "
               "fast_pareto_mask and makepareto_numpy in float32 and float64. Non-trivial = at least two "
               "distinct rows, at least one row kept and one dropped; distinct by (alphabet, matrix, goals).")
    ck.trusted += ["strictly increasing map abstract value -> float (checks/c11.py VALMAPS)"]
    # ---- role A: the algorithm as a transition system
    for mode in ("exact", "coarse_lex"):
        ck.tlc_expect_ok("ParetoSFS", "ParetoSFS_%s%s.cfg" % (mode, "" if thorough else "_q"),
                         required_actions=("Admit", "Reject"), timeout=1200)
    res = ck.tlc("ParetoSFS", "ParetoSFS_coarse%s.cfg" % ("" if thorough else "_q"), timeout=1200)
    if res.ok:
        raise Machinery("role-A lemma: a non-injective (rounding) sum key must break SFS, but TLC found no "
                        "counterexample; the model of the algorithm is too weak")
    ck.extra["role_A"] = ("ParetoSFS: exact sum key and rounding key with lexicographic tie-break satisfy "
                          "Correct; plain rounding key violates it (%s)" % res.violated)
    # ---- role B: generated cases replayed into the implementation
    plan = [
        ("MC_Pareto_exh33.cfg", "small", None),
        ("MC_Pareto_exh42.cfg", "small4", None),
    ]
    if thorough and os.environ.get("C11_EXH43"):
        # every 4x3 matrix over {0,1,inf} x every goal multiset: several million cases, hours of replay
        plan += [("MC_Pareto_exh43.cfg", "small", None)]
    nrand = 1 if not thorough else 6
    for i in range(nrand):
        plan += [("MC_Pareto_rand_mag.cfg", "mag", ck.seed * 100 + i),
                 ("MC_Pareto_rand_mag8.cfg", "mag", ck.seed * 100 + i),
                 ("MC_Pareto_rand_pf.cfg", "ident", ck.seed * 100 + i),
                 ("MC_Pareto_rand_big.cfg", "mag", ck.seed * 100 + i)]
    exh_all = True
    for cfg, vm, seed in plan:
        kw = {}
        if seed is not None:
            kw = {"seed": seed, "workers": 1, "simulate": "num=1", "depth": 5000}
        res = ck.tlc("MC_Pareto", cfg, timeout=3000, coverage=False, **kw)
        if not res.ok:
            raise Machinery("generator %s failed: %s\n%s" % (cfg, res.violated, res.tail))
        if not res.records:
            raise Machinery("generator %s printed no cases" % cfg)
        _replay_records(ck, res.records, vm, cfg)
    ck.exhaustive = False
    ck.extra["exhaustive_parts"] = [p[0] for p in plan if p[2] is None]


def replay(path):
    import numpy as np
    from accelforge.mapper.FFM._pareto_df.fast_pareto import fast_pareto_mask
    from accelforge.mapper.FFM._pareto_df.pareto import makepareto_numpy
    rec = json.load(open(path))
    arr = np.array(rec["data"], dtype=rec["dtype"])
    fn = fast_pareto_mask if rec["fn"] == "fast_pareto_mask" else makepareto_numpy
    got = [bool(x) for x in fn(arr, list(rec["goals"]))]
    print("data", rec["data"], "goals", rec["goals"], "dtype", rec["dtype"])
    print("implementation:", got)
    print("definition    :", rec["expected"])
    if got != [bool(x) for x in rec["expected"]]:
        print("VIOLATION property=C11 replay=%s" % path)
        return 1
    print("no disagreement on this case")
    return 0
