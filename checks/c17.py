"""C17 — optima are consistent across metric combinations.

Spec: spec/ConfigLattice.tla action SetMetrics: from the configuration that optimises one
metric at a time (observed optE, optL, optEDP) to the configuration ENERGY|LATENCY
(observed front): enabled iff the minimum energy on the front equals optE, the minimum
latency equals optL, the minimum energy*latency over the front equals optEDP, and the
reported EDP column equals energy*latency for every returned mapping.  Binding C: four
real mapper runs per micro-spec are one trace.  Products energy*latency are formed by the
harness in exact rational arithmetic (trusted base); the EDP column is compared with a
float32-rounding allowance.
"""
from __future__ import annotations

import json, os
from fractions import Fraction

from checks import config_common as cc
from checks import mapper_common as mc
from harness.core import Check, Machinery

REL = Fraction(1, 2 ** 22)


def front_obs(res):
    rows = res["rows"]
    es = [mc.fr(r["totals"]["energy"]) for r in rows]
    ls = [mc.fr(r["totals"]["latency"]) for r in rows]
    edpcol = True
    for r, e, l in zip(rows, es, ls):
        c = r["totals"].get("energy_delay_product")
        if c is not None and not isinstance(c, str):
            c = mc.fr(c)
            if not (c == e * l or abs(c - e * l) <= REL * max(abs(c), abs(e * l))):
                edpcol = False
    return {"minE": min(es) if es else None, "minL": min(ls) if ls else None,
            "minEDP": min(e * l for e, l in zip(es, ls)) if es else None, "edpcol": edpcol, "n": len(rows)}


def edpcol_of(res):
    return front_obs(res)["edpcol"]


def run(ck: Check):
    thorough = ck.tier == "thorough"
    ck.rule = ("micro-specs (1 Einsum, 2-3 memories, finite sizes) and memory-bound 3-level 8x8x8-class matmuls; four mapper runs each: ENERGY, LATENCY, EDP, "
               "ENERGY|LATENCY; one SetMetrics step per micro-spec validated by TLC. Non-trivial = every micro-spec with "
               "all four runs recorded (fronts with at least two points are counted separately); distinct by micro-spec.")
    worlds = cc.small_worlds(ck, 4 if not thorough else 20, 900)
    if os.environ.get("C17_ONLY_BW"):
        worlds = []
    worlds += cc.bandwidth_worlds(ck, 2 if not thorough else 8, 950)
    worlds += cc.tradeoff_worlds(ck, 4 if not thorough else 12, 970)
    obs = cc.observe(ck, [(("single", w["id"]), w, None) for w in worlds])
    fr_runs = mc.run_mapper(ck, [(w, ("ENERGY", "LATENCY"), None, True) for w in worlds])
    edp_runs = mc.run_mapper(ck, [(w, ("ENERGY_DELAY_PRODUCT",), None, True) for w in worlds])
    traces, cfg = [], {}
    for w, fres, eres in zip(worlds, fr_runs, edp_runs):
        o = obs[("single", w["id"])]
        ck.evaluations += 1
        if "exception" in fres or "exception" in eres or o["errors"]:
            ck.impl_errors += 1
            if ck.impl_error_sample is None:
                ck.impl_error_sample = {"case": w["id"], "traceback": fres.get("traceback") or eres.get("traceback")}
            continue
        p = front_obs(fres)
        p["edpcol"] = p["edpcol"] and edpcol_of(eres)
        ck.count_nontrivial(w["id"])
        if p["n"] >= 2:
            ck.extra["fronts_with_at_least_two_points"] = ck.extra.get("fronts_with_at_least_two_points", 0) + 1
        small = all(x is None or (abs(x.numerator) < 2 ** 26 and x.denominator < 16)
                    for x in (o["optE"], o["optL"], o["optEDP"], p["minE"], p["minL"], p["minEDP"]))
        if not small:
            # SetMetrics only compares values for equality: an order-preserving renumbering of the values of this
            # trace keeps every clause and keeps TLC's 32-bit cross-multiplication in range
            vals = sorted({x for x in (o["optE"], o["optL"], o["optEDP"], p["minE"], p["minL"], p["minEDP"]) if x is not None})
            rank = {x: Fraction(i + 1) for i, x in enumerate(vals)}
            o = dict(o, **{k_: (rank[o[k_]] if o.get(k_) is not None else None) for k_ in ("optE", "optL", "optEDP")})
            p = dict(p, **{k_: (rank[p[k_]] if p.get(k_) is not None else None) for k_ in ("minE", "minL", "minEDP")})
            ck.extra["traces_with_rank_transformed_values"] = ck.extra.get("traces_with_rank_transformed_values", 0) + 1
        tobs = {"optE": cc.NONE, "optL": cc.NONE, "optEDP": cc.NONE, "valid": True,
                "minE": cc.fz(p["minE"]), "minL": cc.fz(p["minL"]), "minEDP": cc.fz(p["minEDP"]), "edpcol": p["edpcol"]}
        tr = {"id": str(w["id"]), "base": cc.tla_obs(o),
              "steps": [{"act": "SetMetrics", "arg": "ENERGY|LATENCY", "f": [1, 1], "t": [0, 1], "r": [0, 1], "obs": tobs}]}
        traces.append(tr)
        cfg[(tr["id"], 1)] = (w, w, None, o, p)
    if not traces:
        raise Machinery("no trace could be recorded")
    verdicts = cc.validate(ck, traces)
    cc.report(ck, "C17", traces, verdicts, None, cfg)


def replay(path):
    import os
    rec = json.load(open(path))
    ck = Check("C17", "quick", 0)
    ck.work = os.path.join(os.path.dirname(os.path.abspath(path)), "_replay_tmp")
    os.makedirs(ck.work, exist_ok=True)
    w = rec["base_world"]
    o = cc.observe(ck, [("s", w, None)])["s"]
    fres = mc.run_mapper(ck, [(w, ("ENERGY", "LATENCY"), None, True)])[0]
    eres = mc.run_mapper(ck, [(w, ("ENERGY_DELAY_PRODUCT",), None, True)])[0]
    p = front_obs(fres)
    p["edpcol"] = p["edpcol"] and edpcol_of(eres)
    tobs = {"optE": cc.NONE, "optL": cc.NONE, "optEDP": cc.NONE, "valid": True,
            "minE": cc.fz(p["minE"]), "minL": cc.fz(p["minL"]), "minEDP": cc.fz(p["minEDP"]), "edpcol": p["edpcol"]}
    tr = {"id": "r", "base": cc.tla_obs(o),
          "steps": [{"act": "SetMetrics", "arg": "ENERGY|LATENCY", "f": [1, 1], "t": [0, 1], "r": [0, 1], "obs": tobs}]}
    v = cc.validate(ck, [tr])[0]
    print({k: str(x) for k, x in o.items()}, {k: str(x) for k, x in p.items()}, v["verdict"])
    if not all(v["verdict"].values()):
        print("VIOLATION property=C17 replay=%s" % path)
        return 1
    print("no disagreement on this case")
    return 0
