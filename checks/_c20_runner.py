"""Runs the real mapper once in a fresh interpreter (so that PYTHONHASHSEED, worker count,
the schedule hook and the cache directory are those of the environment under test) and
prints one JSON line: the returned front as a sorted list of [objective vector, LoopTree
structure].  Usage: _c20_runner.py arch.yaml workload.yaml METRIC[+METRIC] n_jobs [cache_dir]"""
import json
import os
import sys


def tree(node):
    k = type(node).__name__
    d = {"k": k}
    for a in ("tensors", "component", "rank_variable", "tile_shape", "einsum", "name"):
        if hasattr(node, a):
            v = getattr(node, a)
            if a == "tensors":
                v = [str(x) for x in v]
            elif a == "rank_variable" and isinstance(v, (set, frozenset)):
                v = sorted(str(x) for x in v)
            elif v is not None and not isinstance(v, (int, float, str, list)):
                v = str(v)
            d[a] = v
    if hasattr(node, "nodes"):
        d["nodes"] = [tree(c) for c in node.nodes if type(c).__name__ != "Reservation"]
    return d


def main():
    arch, wl, metrics, n_jobs = sys.argv[1:5]
    cache = sys.argv[5] if len(sys.argv) > 5 else None
    import functools
    import operator
    from accelforge.frontend.spec import Spec
    from accelforge.mapper import Metrics
    from accelforge.mapper.FFM.main import map_workload_to_arch
    from accelforge.util.parallel import set_n_parallel_jobs
    set_n_parallel_jobs(int(n_jobs))
    spec = Spec.from_yaml(arch, wl)
    spec.mapper.metrics = functools.reduce(operator.or_, [getattr(Metrics, m) for m in metrics.split("+")])
    r = map_workload_to_arch(spec, print_progress=False, cache_dir=cache)
    rows = []
    for i in range(len(r.data)):
        row = r.data.iloc[i]
        vec = [float(row["Total<SEP>energy"]).hex(), float(row["Total<SEP>latency"]).hex()]
        rows.append([vec, tree(row["Total<SEP>mapping"]())])
    rows.sort(key=lambda x: json.dumps(x, sort_keys=True))
    print("C20RESULT " + json.dumps(rows, sort_keys=True))


if __name__ == "__main__":
    os.environ.setdefault("MPLBACKEND", "Agg")
    main()
