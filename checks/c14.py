"""C14 — join-stage accelerations never change the result.

Spec: spec/JoinStrategy.tla — the staged join as a transition system over abstract
pmapping sets (resource-threshold loop, objective-threshold loop with dirty pruning, the
optimality filter derived from the previous dirty result, the oversubscription test and
retry, the final clean join); TLC checks (role A) that every Return state carries the
exhaustive join's optimum for additive objectives, and that the filter is unsound without
the premise it rests on (negative lemmas).  Binding C: on real 2- and 3-Einsum
micro-specs the pmappings are generated once, then joined twice: by the staged
main.join_pmappings, and by ONE exact join with every acceleration off (no dirty
thresholds, no optimality filter, lookahead disabled, every memory tracked, all
reservations kept, reservation combining off).  The two fronts are recorded and
spec/Fronts.tla decides equality (both directions of coverage, no dominated / unmatched
returned vector).  The sequence of internal joins of the staged run is recorded through
wrappers installed by the harness and validated against JoinStrategy (Trace_JoinStrategy).
"""
from __future__ import annotations

import copy
import inspect
import json
import os
import random
import traceback
from concurrent.futures import ProcessPoolExecutor
from fractions import Fraction

from checks import c02
from checks import c28
from checks import mapper_common as mc
from harness import microspec as ms
from harness.core import Check, Machinery


def three_einsum_yaml(rng):
    a, w = c28.two_einsum_yaml(rng)
    w = w.rstrip("\n") + """
  - name: M2
    tensor_accesses:
    - {name: T2, projection: [m, n2]}
    - {name: W2, projection: [n2, n3]}
    - {name: T3, projection: [m, n3], output: True}
"""
    w = w.replace("  bits_per_value:", "    n3: 0 <= n3 < 2\n  bits_per_value:")
    return a, w


def _rows(r):
    out = []
    for i in range(len(r.data)):
        row = r.data.iloc[i]
        rec = {"totals": {}, "cols": {}}
        for c in r.data.columns:
            if "mapping" in c.split("<SEP>"):
                continue
            try:
                v = mc._x(row[c])
            except Exception:
                continue
            if c.startswith("Total<SEP>"):
                rec["totals"][c.split("<SEP>", 1)[1]] = v
            else:
                rec["cols"][c] = v
        out.append(rec)
    return out


def _job(args):
    arch, wl, metrics, d, tight = args
    try:
        import functools, operator
        from accelforge.frontend.spec import Spec
        from accelforge.mapper import Metrics
        import accelforge.mapper.FFM.main as ffm
        import accelforge.mapper.FFM._join_pmappings.join_pmappings as jp
        from accelforge.util.parallel import set_n_parallel_jobs
        from accelforge.util._frozenset import oset
        set_n_parallel_jobs(1)
        os.makedirs(d, exist_ok=True)
        os.chdir(d)
        tag = "j%d" % os.getpid()
        pa, pw = os.path.join(d, tag + "_a.yaml"), os.path.join(d, tag + "_w.yaml")
        open(pa, "w").write(arch)
        open(pw, "w").write(wl)
        spec = Spec.from_yaml(pa, pw)
        M = functools.reduce(operator.or_, [getattr(Metrics, m) for m in metrics])
        spec.mapper.metrics = M
        pm = ffm.make_pmappings(spec, print_progress=False)
        # ---- staged join, with the internal joins recorded
        events = []
        orig_join, orig_prune = jp.join_pmappings, jp.prune_with_tolerance

        def rec_join(groups, spec_, *a, **kw):
            n_in = sum(len(s.mappings.data) for sg in groups.values() for s in sg)
            tol = max((s.mappings.excess_resource_tolerance for sg in groups.values() for s in sg), default=0)
            try:
                res = orig_join(groups, spec_, *a, **kw)
            except Exception as e:
                events.append({"ev": "Join", "rows_in": n_in, "excess": float(tol), "error": type(e).__name__,
                               "filtered": kw.get("_pmapping_row_filter_function") is not None})
                raise
            over = False
            for c in res.data.columns:
                if jp.is_reservation_col(c) and float(res.data[c].max()) > 1:
                    over = True
            events.append({"ev": "Join", "rows_in": n_in, "excess": float(tol), "rows_out": len(res.data),
                           "oversubscribed": over, "filtered": kw.get("_pmapping_row_filter_function") is not None})
            return res

        def rec_prune(pmappings, objective_tolerance, resource_usage_tolerance, *a, **kw):
            res = orig_prune(pmappings, objective_tolerance, resource_usage_tolerance, *a, **kw)
            events.append({"ev": "Prune", "t": float(objective_tolerance), "r": float(resource_usage_tolerance),
                           "skipped": res is None})
            return res

        jp.join_pmappings, jp.prune_with_tolerance = rec_join, rec_prune
        try:
            staged = ffm.join_pmappings(copy.deepcopy(pm), metrics=M, print_progress=False)
        finally:
            jp.join_pmappings, jp.prune_with_tolerance = orig_join, orig_prune
        # ---- one exact join, accelerations off
        src = inspect.getsource(orig_join)
        hard = "        lookahead_filter = True\n        if lookahead_filter:"
        if hard not in src:
            return {"exception": "harness: cannot find the hard-coded lookahead switch in join_pmappings", "traceback": ""}
        ns = dict(jp.__dict__)
        exec(compile(src.replace(hard, "        if lookahead_filter:"), "<exact_join>", "exec"), ns)
        exact_join = ns["join_pmappings"]
        ns["get_memories_to_track"] = lambda groups, print_progress=True: (groups, oset())

        def direct(spec_, compressed, print_progress, metrics_, for_model, _f=None):
            for p in compressed.values():
                for pg in p:
                    pg.mappings.drop_valid_reservations = False
                    pg.mappings.excess_resource_tolerance = 0
            spec_.mapper._combine_reservations = False
            try:
                return exact_join(copy.deepcopy(compressed), spec_, lookahead_filter=False,
                                  metrics=metrics_ | Metrics.RESOURCE_USAGE, print_progress=False)
            finally:
                spec_.mapper._combine_reservations = True

        # "skipping memories judged never to overflow" also acts when the pmappings are generated
        # (make_pmappings.get_memories_to_track): for the exact run they are regenerated with every memory tracked
        # (can_combine_multiple_runs=True is the API switch for that)
        spec2 = Spec.from_yaml(pa, pw)
        spec2.mapper.metrics = M
        pm_exact = ffm.make_pmappings(spec2, print_progress=False, can_combine_multiple_runs=True)
        orig_multi = jp.multi_strategy_join
        jp.multi_strategy_join = direct
        try:
            exact = jp.clean_compress_and_join_pmappings(pmappings=pm_exact, metrics=M | Metrics.RESOURCE_USAGE,
                                                         for_model=False, require_all_einsums=True, print_progress=False)
        finally:
            jp.multi_strategy_join = orig_multi
        n_pm = {e: sum(len(g.mappings.data) for g in gs) for e, gs in pm.einsum2pmappings.items()}
        return {"staged": _rows(staged), "exact": _rows(exact), "events": events, "n_pmappings": n_pm}
    except Exception as e:
        return {"exception": "%s: %s" % (type(e).__name__, e), "traceback": traceback.format_exc()[-3000:]}


def vec(row, metrics, mems):
    t = row["totals"]
    v = []
    if "ENERGY" in metrics:
        v.append(mc.fr(t["energy"]))
    if "LATENCY" in metrics:
        v.append(mc.fr(t["latency"]))
    if "ENERGY_DELAY_PRODUCT" in metrics:
        v.append(mc.fr(t["energy_delay_product"]) if "energy_delay_product" in t
                 else mc.fr(t["energy"]) * mc.fr(t["latency"]))
    if "RESOURCE_USAGE" in metrics:
        for m in mems:
            v.append(c02.row_usage(row, m))
    return v


def run(ck: Check):
    thorough = ck.tier == "thorough"
    ck.rule = ("2- and 3-Einsum matmul chains on DRAM + finite GLB (sizes chosen so that fused mappings sometimes oversubscribe "
               "under the resource thresholds and the join must be retried); metric sets ENERGY, ENERGY|LATENCY, EDP, "
               "ENERGY|LATENCY|RESOURCE_USAGE; pmappings generated once, joined by the staged join and by one exact join. "
               "Non-trivial = case whose staged run performed at least two internal joins; distinct by (spec, metrics).")
    # role A
    ck.tlc_expect_ok("JoinStrategy", "JoinStrategy_ok.cfg", required_actions=("DirtyJoin", "CleanJoin", "Retry", "Return"),
                     timeout=1500)
    for mod, neg in (("MC_JoinStrategyNeg", "JoinStrategy_nofilterpremise.cfg"), ("JoinStrategy", "JoinStrategy_noretry.cfg")):
        r = ck.tlc(mod, neg, timeout=1500)
        if r.ok:
            raise Machinery("role-A negative lemma %s unexpectedly holds: the model does not discriminate" % neg)
    ck.extra["role_A"] = ("JoinStrategy: every Return state carries the exhaustive optimum (additive non-negative objectives); "
                          "without the monotonicity premise of the optimality filter, or without the oversubscription retry, "
                          "TLC finds counterexamples")
    rng = random.Random(ck.seed * 101 + 14)
    jobs, meta = [], []
    d = os.path.join(ck.work, "runs")
    n2, n3 = (3, 1) if not thorough else (10, 4)
    from checks import c06
    specs = [c28.two_einsum_yaml(rng) for _ in range(n2 - 1)]
    # heterogeneous chains (different rank bounds per Einsum, small GLB): the "never overflows" judgements differ per Einsum
    specs += [c06.chain_spec(rng, 2, glb_choices=(96, 128, 256), bound_choices=(2, 4, 8))[:2]]
    specs += [c06.chain_spec(rng, 3, glb_choices=(128, 192, 256), bound_choices=(2, 2, 4, 8))[:2] for _ in range(n3 - 1)]
    # a chain whose Einsums differ widely in size (big first, tiny last, or the reverse): a "this memory can never
    # overflow" judgement that is right for one Einsum is wrong for the workload
    sizes = rng.choice([[8, 8, 2, 2], [2, 2, 8, 8]] if thorough else [[8, 8, 2, 2]])
    specs += [c06.chain_spec(rng, 3, glb_choices=(256,), ns=sizes, m=4)[:2]]
    if thorough:
        specs += [c06.chain_spec(rng, 3, glb_choices=(160, 192, 256), ns=[2, 2, 8, 8], m=4)[:2],
                  c06.chain_spec(rng, 2, glb_choices=(512, 768), ns=[8, 8, 2], m=4)[:2]]
    if thorough:
        specs += [three_einsum_yaml(rng) for _ in range(2)]
    msets = [("ENERGY",), ("ENERGY", "LATENCY"), ("ENERGY_DELAY_PRODUCT",), ("ENERGY", "LATENCY", "RESOURCE_USAGE")]
    for si, (a, w) in enumerate(specs):
        for ms_ in (msets if thorough else msets[: 2 + (si % 2)] + msets[3:]):
            jobs.append((a, w, ms_, d, False))
            meta.append((si, ms_))
    with ProcessPoolExecutor(8) as ex:
        outs = list(ex.map(_job, jobs))
    cases, info, traces = [], {}, []
    for (si, mset), o, job in zip(meta, outs, jobs):
        ck.evaluations += 1
        cid = "%d/%s" % (si, "+".join(mset))
        if "exception" in o:
            ck.impl_errors += 1
            if ck.impl_error_sample is None:
                ck.impl_error_sample = {"case": cid, "traceback": o["exception"] + "\n" + o["traceback"]}
            continue
        mems = ["GLB"]
        st = [vec(r, mset, mems) for r in o["staged"]]
        exv = [vec(r, mset, mems) for r in o["exact"]]
        rc, rr = mc.rank_columns(exv, st)
        cases.append({"id": cid, "kind": "equal", "cands": rc, "ret": rr})
        info[cid] = (job, o, st, exv)
        njoins = sum(1 for e in o["events"] if e["ev"] == "Join")
        if njoins >= 2:
            ck.count_nontrivial(cid)
        evs = []
        for e in o["events"]:
            if e["ev"] == "Prune":
                evs.append({"ev": "Prune", "ti": int(round(e["t"] * 10 ** 6)), "ri": int(round(e["r"] * 10 ** 6)),
                            "skipped": bool(e["skipped"])})
            else:
                evs.append({"ev": "Join", "filtered": bool(e["filtered"]), "failed": "error" in e,
                            "oversubscribed": bool(e.get("oversubscribed", False))})
        traces.append({"id": cid, "events": evs, "resource_metric": "RESOURCE_USAGE" in mset})
    if not cases:
        raise Machinery("no case produced both fronts")
    verdicts = mc.fronts_verdicts(ck, cases)
    for cid, v in verdicts.items():
        job, o, st, exv = info[cid]
        ck.traces += 1
        problem = None
        if v["uncovered"]:
            k = v["uncovered"] - 1
            problem = ("staged-front-misses-exact-point", "exact join has %s which no staged result weakly dominates" % [str(x) for x in exv[k]])
        elif v["dominated"]:
            problem = ("staged-front-contains-dominated-point", "staged result #%d %s is dominated by another staged result" % (v["dominated"] - 1, [str(x) for x in st[v["dominated"] - 1]]))
        elif v["unmatched"]:
            problem = ("staged-point-not-in-exact-join", "%d staged results have objective vectors the exact join does not produce (staged %s, exact front %s)"
                       % (v["unmatched"], [[str(x) for x in r] for r in st][:5], [[str(x) for x in r] for r in exv][:5]))
        if problem:
            ck.violation("C14/%s/%s" % (problem[0], cid.split("/")[1]),
                         "spec %s: %s; internal joins of the staged run: %s" % (cid, problem[1], o["events"]),
                         {"arch": job[0], "workload": job[1], "metrics": job[2]})
        if len(ck.samples) < 4:
            ck.sample({"case": cid, "pmappings_per_einsum": o["n_pmappings"], "staged_front": [[str(x) for x in r] for r in st][:6],
                       "exact_rows": len(exv), "internal_events": o["events"][:12]})
    # the recorded sequence of internal joins must be a behaviour of JoinStrategy's control structure
    path = os.path.join(ck.work, "strategy_traces.json")
    json.dump(traces, open(path, "w"))
    res = ck.tlc("Trace_JoinStrategy", "Trace_JoinStrategy.cfg", env={"TRACES_FILE": path}, coverage=False, workers=1, timeout=900)
    if not res.ok or len(res.records) != len(traces):
        raise Machinery("Trace_JoinStrategy run failed: %s\n%s" % (res.violated, res.tail))
    for r in res.records:
        if not r["ok"]:
            job, o, st, exv = info[r["id"]]
            ck.violation("C14/strategy-trace-rejected/%s" % r["clause"],
                         "spec %s: the recorded sequence of internal joins is not a behaviour of JoinStrategy (clause %s at event %d): %s"
                         % (r["id"], r["clause"], r["at"], o["events"]),
                         {"arch": job[0], "workload": job[1], "metrics": job[2]})
    ck.extra["retries_observed"] = sum(1 for t in traces for e in t["events"] if e["ev"] == "Join" and e.get("oversubscribed"))


def replay(path):
    rec = json.load(open(path))
    d = os.path.join(os.path.dirname(os.path.abspath(path)), "_replay_tmp")
    o = _job((rec["arch"], rec["workload"], tuple(rec["metrics"]), d, False))
    if "exception" in o:
        print(o["exception"], o["traceback"]); return 2
    mset = tuple(rec["metrics"])
    st = sorted(vec(r, mset, ["GLB"]) for r in o["staged"])
    exv = [vec(r, mset, ["GLB"]) for r in o["exact"]]
    ck = Check("C14", "quick", 0)
    ck.work = d
    rc, rr = mc.rank_columns(exv, st)
    v = mc.fronts_verdicts(ck, [{"id": "r", "kind": "equal", "cands": rc, "ret": rr}])["r"]
    print("staged:", [[str(x) for x in r] for r in st][:8])
    print("verdict:", v)
    if v["uncovered"] or v["dominated"] or v["unmatched"]:
        print("VIOLATION property=C14 replay=%s" % path)
        return 1
    print("no disagreement on this case")
    return 0
