"""C09 — symbolic sign and monotonicity verdicts hold at every point of the box.

Spec: spec/SignVerdict.tla (expression AST, exact rational Eval, Box, Signs, Admissible =
VerdictOK, PreOK, Mono), spec/MC_SignVerdict.tla (formula generator), spec/Trace_SignVerdict.tla
(validation of recorded calls).

Binding B: TLC generates formulas + boxes and prints Signs (what is true over the box) and
PreOK; the harness builds the sympy expression, calls the real `geq_leq_zero` (without the
flag, and with terms_do_not_cross_zero=True when TLC established the precondition) and the
verdict must be Admissible.
Binding C: every call of `diff_geq_leq_zero` on the generated formulas, and every call of
`geq_leq_zero` / `diff_geq_leq_zero` the real mapper makes on small specs (harvested by
wrapping the module attributes), is recorded as (AST of the formula whose sign was judged --
for derivative verdicts the derivative formula the code itself computed --, box, flag,
verdict) and TLC evaluates SignVerdict!Admissible for each.
"""
from __future__ import annotations

import contextlib
import io
import json
import os
import signal
import time
from fractions import Fraction

from harness.core import Check, Machinery
from harness import tlc as _tlc

NPROC = int(os.environ.get("VERIF_NPROC", "8"))
CALL_TIMEOUT = int(os.environ.get("VERIF_C09_CALL_TIMEOUT", "4"))
MAXBOX = 4096
VNAME = {"ALWAYS_GEQ_THAN_ZERO": "geq", "ALWAYS_LEQ_THAN_ZERO": "leq",
         "ALWAYS_EQUAL_TO_ZERO": "eq", "UNKNOWN": "unknown"}


class _Timeout(Exception):
    pass


def _alarm(*_):
    raise _Timeout()


@contextlib.contextmanager
def _limit(seconds):
    """Limit the CPU time (not the wall time: the machine is shared) of one implementation call."""
    old = signal.signal(signal.SIGPROF, _alarm)
    signal.setitimer(signal.ITIMER_PROF, seconds)
    try:
        yield
    finally:
        signal.setitimer(signal.ITIMER_PROF, 0)
        signal.signal(signal.SIGPROF, old)


# ----------------------------------------------------------------------------- AST <-> sympy
def _symbols(n):
    import sympy
    return [sympy.Symbol("stride%d" % i, positive=True, integer=True) for i in range(n)]


def ast_to_sympy(e, syms):
    import sympy
    h = e["h"]
    if h == "int":
        return sympy.Integer(e["v"])
    if h == "rat":
        return sympy.Rational(e["n"], e["d"])
    if h == "sym":
        return syms[e["v"] - 1]
    args = [ast_to_sympy(a, syms) for a in e["a"]]
    if h == "add":
        return sympy.Add(*args)
    if h == "mul":
        return sympy.Mul(*args)
    if h == "pow":
        return sympy.Pow(args[0], sympy.Integer(e["k"]))
    if h == "ceil":
        return sympy.ceiling(args[0])
    if h == "floor":
        return sympy.floor(args[0])
    if h == "min":
        return sympy.Min(*args)
    if h == "max":
        return sympy.Max(*args)
    if h == "heav":
        return sympy.Heaviside(args[0])
    raise ValueError(h)


class Unsupported(Exception):
    pass


def sympy_to_ast(x, index):
    """Structural conversion; raises Unsupported(head) for anything the AST does not cover."""
    import sympy
    if isinstance(x, (int,)):
        return {"h": "int", "v": int(x)}
    if isinstance(x, float):
        x = sympy.Float(x)
    if isinstance(x, sympy.Integer):
        if abs(int(x)) >= 2 ** 30:
            raise Unsupported("integer-too-large")
        return {"h": "int", "v": int(x)}
    if isinstance(x, sympy.Rational):
        if abs(int(x.p)) >= 2 ** 30 or int(x.q) >= 2 ** 30:
            raise Unsupported("rational-too-large")
        return {"h": "rat", "n": int(x.p), "d": int(x.q)}
    if isinstance(x, sympy.Float):
        fr = Fraction(float(x))           # exact value of the double
        if abs(fr.numerator) >= 2 ** 30 or fr.denominator >= 2 ** 30:
            raise Unsupported("float-not-a-small-rational")
        if fr.denominator == 1:
            return {"h": "int", "v": fr.numerator}
        return {"h": "rat", "n": fr.numerator, "d": fr.denominator}
    if isinstance(x, sympy.Symbol):
        if x not in index:
            raise Unsupported("symbol-not-in-bounds")
        return {"h": "sym", "v": index[x]}
    if isinstance(x, sympy.Add):
        return {"h": "add", "a": [sympy_to_ast(a, index) for a in x.args]}
    if isinstance(x, sympy.Mul):
        return {"h": "mul", "a": [sympy_to_ast(a, index) for a in x.args]}
    if isinstance(x, sympy.Pow):
        b, k = x.args
        if not isinstance(k, sympy.Integer) or abs(int(k)) > 6:
            raise Unsupported("Pow-with-non-integer-exponent")
        return {"h": "pow", "a": [sympy_to_ast(b, index)], "k": int(k)}
    if isinstance(x, sympy.ceiling):
        return {"h": "ceil", "a": [sympy_to_ast(x.args[0], index)]}
    if isinstance(x, sympy.floor):
        return {"h": "floor", "a": [sympy_to_ast(x.args[0], index)]}
    if isinstance(x, sympy.Max):
        return {"h": "max", "a": [sympy_to_ast(a, index) for a in x.args]}
    if isinstance(x, sympy.Min):
        return {"h": "min", "a": [sympy_to_ast(a, index) for a in x.args]}
    if isinstance(x, sympy.Heaviside):
        if len(x.args) > 1 and x.args[1] != sympy.Rational(1, 2):
            raise Unsupported("Heaviside-with-H0-not-1/2")
        return {"h": "heav", "a": [sympy_to_ast(x.args[0], index)]}
    raise Unsupported(type(x).__name__)


def _reduce_box(exprs, extra_syms, bounds):
    """bounds restricted to the symbols that occur (order kept); (index, box, npoints)."""
    used = set(extra_syms)
    for x in exprs:
        used |= getattr(x, "free_symbols", set())
    keep = [(s, lo, hi) for (s, lo, hi) in bounds if s in used]
    if not keep:
        keep = list(bounds[:1])
    index = {s: i + 1 for i, (s, lo, hi) in enumerate(keep)}
    npts = 1
    for (s, lo, hi) in keep:
        npts *= (int(hi) - int(lo) + 1)
    return index, [{"lo": int(lo), "hi": int(hi)} for (s, lo, hi) in keep], npts


def _mts():
    import accelforge.mapper.FFM._make_pmappings.make_pmappings_from_templates.make_tile_shapes as MTS
    return MTS


def _case_from_call(kind, f, s, bounds, flag, verdict, origin):
    """Recorded call -> case for Trace_SignVerdict, or ("skip", reason)."""
    import sympy
    MTS = _mts()
    try:
        if kind == "d":
            if isinstance(f, sympy.Eq):
                return ("skip", "Eq")
            judged = MTS.diff(sympy.expand(f), s)     # exactly what diff_geq_leq_zero hands to geq_leq_zero
            index, box, npts = _reduce_box([f, judged], [s], bounds)
            if s not in index:
                return ("skip", "symbol-not-in-bounds")
        else:
            judged = f
            index, box, npts = _reduce_box([f], [], bounds)
        if npts > MAXBOX:
            return ("skip", "box-larger-than-%d-points" % MAXBOX)
        try:
            e = sympy_to_ast(judged, index)
        except Unsupported as u:
            if kind == "d" and str(u) in ("Subs", "Derivative") and verdict.name != "UNKNOWN":
                # derivative through a ceiling: sympy leaves Derivative(ceiling) unevaluated, so the formula the
                # code judged has no pointwise value.  Not decisive; only finite-difference monotonicity of f
                # is reported (e = 0 makes every sign statement true).
                return {"kind": "d", "e": {"h": "int", "v": 0}, "b": box, "v": VNAME[verdict.name], "flag": False,
                        "f": sympy_to_ast(f, index), "s": index[s], "origin": origin, "fdonly": True,
                        "text": str(judged)[:300], "ftext": str(f)[:300], "skip_reason": "unsupported-head:" + str(u)}
            raise
        fa = {"h": "none"}
        if kind == "d":
            try:
                fa = sympy_to_ast(f, index)
            except Unsupported:
                fa = {"h": "none"}
        return {"kind": kind, "e": e, "b": box, "v": VNAME[verdict.name], "flag": bool(flag), "f": fa,
                "s": index.get(s, 0) if kind == "d" else 0, "origin": origin,
                "text": str(judged)[:300], "ftext": str(f)[:300]}
    except Unsupported as u:
        return ("skip", "unsupported-head:" + str(u))


# ----------------------------------------------------------------------------- generated formulas (pool workers)
def _eval_generated(recs):
    """For every generator record: geq_leq_zero (flag off; flag on if TLC established the
    precondition) and diff_geq_leq_zero for every symbol of the formula."""
    import sympy
    MTS = _mts()
    out = []
    for rec in recs:
        ns = len(rec["b"])
        syms = _symbols(ns)
        f = ast_to_sympy(rec["e"], syms)
        bounds = tuple((syms[i], rec["b"][i]["lo"], rec["b"][i]["hi"]) for i in range(ns))
        r = {"g": None, "gflag": None, "d": [], "timeouts": 0, "errors": [], "text": str(f)[:300]}
        if not isinstance(f, sympy.Expr):
            out.append(r)
            continue
        for key, flag in (("g", False), ("gflag", True)):
            if flag and not rec["pre"]:
                continue
            try:
                with _limit(CALL_TIMEOUT):
                    r[key] = VNAME[MTS.geq_leq_zero(f, bounds, flag).name]
            except _Timeout:
                r["timeouts"] += 1
            except Exception as ex:  # noqa
                r["errors"].append("%s: %s" % (type(ex).__name__, str(ex)[:200]))
        for s in sorted(f.free_symbols, key=str):
            try:
                with _limit(CALL_TIMEOUT):
                    v = MTS.diff_geq_leq_zero(f, s, bounds)
                    c = _case_from_call("d", f, s, bounds, False, v, "generated")
                r["d"].append(c)
            except _Timeout:
                r["timeouts"] += 1
            except Exception as ex:  # noqa
                r["errors"].append("%s: %s" % (type(ex).__name__, str(ex)[:200]))
        out.append(r)
    return out


# ----------------------------------------------------------------------------- harvesting real calls
def _harvest(specs, log):
    """Run the real mapper in-process with geq_leq_zero / diff_geq_leq_zero wrapped."""
    import accelforge as af
    from accelforge.frontend.spec import Spec
    from accelforge.mapper import Metrics
    from accelforge.mapper.FFM.main import map_workload_to_arch
    from accelforge.util.parallel import set_n_parallel_jobs
    MTS = _mts()
    set_n_parallel_jobs(1)
    calls = []
    og, od = MTS.geq_leq_zero, MTS.diff_geq_leq_zero

    def wg(f, bounds, terms_do_not_cross_zero=False):
        r = og(f, bounds, terms_do_not_cross_zero)
        calls.append(("g", f, None, bounds, bool(terms_do_not_cross_zero), r))
        return r

    def wd(f, s, bounds):
        r = od(f, s, bounds)
        calls.append(("d", f, s, bounds, False, r))
        return r

    MTS.geq_leq_zero, MTS.diff_geq_leq_zero = wg, wd
    try:
        for name, arch, tweak, kw in specs:
            t0 = time.time()
            n0 = len(calls)
            try:
                a = af.examples.arches
                for part in arch.split("."):
                    a = getattr(a, part)
                spec = Spec.from_yaml(a, af.examples.workloads.basic.matmuls, jinja_parse_data=kw)
                if "lat" in tweak:
                    spec.mapper.metrics = Metrics.LATENCY | Metrics.ENERGY
                if "imp" in tweak:
                    spec.mapper.explore_imperfect_temporal_loops = True
                with contextlib.redirect_stdout(io.StringIO()), contextlib.redirect_stderr(io.StringIO()):
                    map_workload_to_arch(spec)
                log[name] = {"calls": len(calls) - n0, "s": round(time.time() - t0, 1)}
            except Exception as ex:  # noqa  (the property does not require the mapper to succeed)
                log[name] = {"calls": len(calls) - n0, "s": round(time.time() - t0, 1),
                             "mapper_error": "%s: %s" % (type(ex).__name__, str(ex)[:200])}
    finally:
        MTS.geq_leq_zero, MTS.diff_geq_leq_zero = og, od
    return calls


HARVEST_QUICK = [
    ("simple-1x8x4-latency", "simple", "lat",
     {"N_EINSUMS": 1, "M": 8, "KN": 4, "GlobalBufferSize": 256, "GlobalBufferThroughput": 4}),
    ("simple-1x6x5-imperfect", "simple", "lat+imp",
     {"N_EINSUMS": 1, "M": 6, "KN": 5, "GlobalBufferSize": 256, "GlobalBufferThroughput": 4}),
    ("fanout-at-glb-8x6-imperfect", "fanout_variations.at_glb", "lat+imp", {"N_EINSUMS": 1, "M": 8, "KN": 6}),
]
HARVEST_THOROUGH = HARVEST_QUICK + [
    ("simple-2x6x4-imperfect", "simple", "lat+imp",
     {"N_EINSUMS": 2, "M": 6, "KN": 4, "GlobalBufferSize": 256, "GlobalBufferThroughput": 2}),
    ("fanout-at-mac-8x8", "fanout_variations.at_mac", "lat", {"N_EINSUMS": 1, "M": 8, "KN": 8}),
    ("simple-2x8x8-fused", "simple", "lat", {"N_EINSUMS": 2, "M": 8, "KN": 8, "GlobalBufferSize": 1024}),
]


# ----------------------------------------------------------------------------- TLC validation
def _validate_with_tlc(ck_or_none, cases, workdir, tag):
    path = os.path.join(workdir, "cases-%s.json" % tag)
    slim = [{k: c[k] for k in ("id", "kind", "e", "b", "v", "flag", "f", "s")} for c in cases]
    with open(path, "w") as f:
        json.dump(slim, f)
    kw = dict(env={"CASE_FILE": path}, coverage=False, timeout=3000, workers=8)
    if ck_or_none is not None:
        res = ck_or_none.tlc("Trace_SignVerdict", "Trace_SignVerdict.cfg", **kw)
    else:
        res = _tlc.run("Trace_SignVerdict", "Trace_SignVerdict.cfg", workdir=workdir, **kw)
    if not res.ok:
        raise Machinery("Trace_SignVerdict failed: %s\n%s" % (res.violated, res.tail))
    got = {r["id"]: r for r in res.records}
    if len(got) != len(cases):
        raise Machinery("Trace_SignVerdict returned %d verdicts for %d cases" % (len(got), len(cases)))
    return got


def _sympy_claims(case):
    """Re-run the call of a failing case with _compare_to_zero traced and collect every relational
    that sympy's assumption system answered with a definite TRUE ('g >= 0' / 'g <= 0' for all
    positive integer symbols).  Each is returned as a "g" case for TLC to judge on the box."""
    import sympy
    MTS = _mts()
    ns = len(case["b"])
    syms = _symbols(ns)
    bounds = tuple((syms[i], case["b"][i]["lo"], case["b"][i]["hi"]) for i in range(ns))
    judged = ast_to_sympy(case["e"], syms)
    seen = []
    orig = MTS._compare_to_zero
    inner = getattr(orig, "__wrapped__", orig)

    def traced(f, b, check_lt_zero, terms_do_not_cross_zero=False):
        try:
            g = f.doit()
            if isinstance(g, sympy.Expr):
                g = g.replace(lambda x: x.is_Function and x.func == sympy.ceiling, lambda x: x.args[0])
                for h in MTS.partition_heaviside(g):
                    try:
                        rel = (h >= 0) if check_lt_zero else (h <= 0)
                        if rel is sympy.true or rel is True:
                            seen.append((h, "geq" if check_lt_zero else "leq"))
                    except TypeError:
                        pass
        except Exception:  # noqa
            pass
        return inner(f, b, check_lt_zero, terms_do_not_cross_zero)

    MTS._compare_to_zero = traced
    try:
        with _limit(4 * CALL_TIMEOUT):
            getattr(MTS.geq_leq_zero, "__wrapped__", MTS.geq_leq_zero)(judged, bounds, case["flag"])
    except Exception:  # noqa
        pass
    finally:
        MTS._compare_to_zero = orig
    index = {s: i + 1 for i, s in enumerate(syms)}
    claims = []
    for h, v in seen:
        try:
            claims.append({"kind": "g", "e": sympy_to_ast(h, index), "b": case["b"], "v": v, "flag": False,
                           "f": {"h": "none"}, "s": 0, "text": str(h)[:300]})
        except Unsupported:
            pass
    return claims


def _judge(ck, cases, stats, workdir, ck_for_tlc=True):
    """TLC pass 1 over all cases; pass 2 classifies the failing ones.  Returns list of (case, verdict, signature)."""
    for i, c in enumerate(cases):
        c["id"] = i + 1
    verdicts = {}
    B = 4000
    for k in range(0, len(cases), B):
        verdicts.update(_validate_with_tlc(ck if ck_for_tlc else None, cases[k:k + B], workdir, "batch%d" % (k // B)))
    failing = []
    for c in cases:
        v = verdicts[c["id"]]
        if c.get("fdonly"):
            stats["fd_only"][v["mono"]] = stats["fd_only"].get(v["mono"], 0) + 1
            if v["mono"] == "no" and len(stats["fd_only_samples"]) < 5:
                stats["fd_only_samples"].append({"f": c["ftext"], "box": c["b"], "symbol": c["s"], "verdict": c["v"]})
            continue
        stats["validated"] += 1
        stats["by_kind"][c["kind"] + ":" + c["origin"]] = stats["by_kind"].get(c["kind"] + ":" + c["origin"], 0) + 1
        stats["by_verdict"][c["v"]] = stats["by_verdict"].get(c["v"], 0) + 1
        if not v["defined"]:
            stats["undefined_or_overflow"] += 1
            continue
        if c["flag"] and not v["pre"]:
            stats["precondition_not_established"] += 1
            continue
        if v["mono"] == "no":
            stats["finite_difference_monotonicity_fails"] += 1
            if len(stats["finite_difference_samples"]) < 5:
                stats["finite_difference_samples"].append({"f": c["ftext"], "derivative": c["text"], "box": c["b"],
                                                           "symbol": c["s"], "verdict": c["v"]})
        elif v["mono"] == "yes":
            stats["finite_difference_monotonicity_holds"] += 1
        if not v["ok"]:
            failing.append((c, v))
    out = []
    if failing:
        claims = []
        owner = []
        for c, v in failing:
            for cl in _sympy_claims(c):
                cl["id"] = len(claims) + 1
                claims.append(cl)
                owner.append(c["id"])
        bad_owner = set()
        if claims:
            cv = _validate_with_tlc(ck if ck_for_tlc else None, claims, workdir, "claims")
            for cl, oid in zip(claims, owner):
                r = cv[cl["id"]]
                if r["defined"] and not r["ok"]:
                    bad_owner.add(oid)
        for c, v in failing:
            kind = "derivative" if c["kind"] == "d" else "formula"
            if c["id"] in bad_owner:
                # a relational sympy itself answered TRUE ("g >= 0" / "g <= 0") is false on the box
                sig = "C09/sympy-assumptions-answer-a-relational-wrongly"
            elif v["ceil_id"] and v["nceil"]:
                # the verdict holds for the formula with every ceiling(x) replaced by x, not for the formula
                sig = "C09/verdict-holds-only-with-ceilings-dropped"
            elif v["code_view"] and v["nheav"]:
                # ... holds when all Heaviside terms are 1 and when all are 0, not for the real steps
                sig = "C09/verdict-holds-only-with-all-Heaviside-terms-equal"
            else:
                sig = "C09/%s/verdict-%s-fails%s" % (kind, c["v"], "/terms_do_not_cross_zero" if c["flag"] else "")
            out.append((c, v, sig))
    return out


def _report(ck, failures):
    for c, v, sig in failures:
        what = ("geq_leq_zero(%s)" % c["text"]) if c["kind"] == "g" else \
            ("diff_geq_leq_zero(%s, symbol %d): derivative formula %s" % (c["ftext"], c["s"], c["text"]))
        ck.violation(sig, "%s over box %s%s returns '%s', which does not hold at every integer point of the box "
                          "(TLC: SignVerdict!Admissible is FALSE; holds with ceilings dropped: %s; holds for "
                          "all-Heaviside=1 and =0: %s) [%s]"
                     % (what, c["b"], " with terms_do_not_cross_zero=True" if c["flag"] else "", c["v"],
                        v["ceil_id"], v["code_view"], c["origin"]),
                     {"case": {k: c[k] for k in ("kind", "e", "b", "v", "flag", "f", "s", "text", "ftext", "origin")}})


# ----------------------------------------------------------------------------- run
def run(ck: Check):
    import multiprocessing
    from concurrent.futures import ProcessPoolExecutor
    thorough = ck.tier == "thorough"
    ck.rule = ("formulas: (1) generated by TLC from spec/MC_SignVerdict.tla (exhaustive small one-symbol grammar; "
               "-simulate draws of the full grammar over 1-3 symbols with the seed), (2) every geq_leq_zero / "
               "diff_geq_leq_zero call the real mapper makes on small matmul specs (harvested in-process).  "
               "B: verdict of geq_leq_zero against Signs printed by TLC; C: TLC evaluates Admissible for every "
               "recorded (formula judged, box, flag, verdict); for derivative verdicts the formula judged is the "
               "derivative the code computed (sympy.diff(sympy.expand(f), s)).  Non-trivial = verdict other than "
               "'unknown' on a formula with at least one symbol; distinct by (formula text, box, flag, kind).")
    ck.trusted += ["checks/c09.py: structural sympy <-> AST conversion (ast_to_sympy, sympy_to_ast); unsupported "
                   "heads are skipped and counted", "sympy.diff / sympy.expand (to obtain the derivative formula the "
                   "code itself judges)"]
    stats = {"validated": 0, "by_kind": {}, "by_verdict": {}, "undefined_or_overflow": 0,
             "precondition_not_established": 0, "finite_difference_monotonicity_fails": 0,
             "finite_difference_monotonicity_holds": 0, "finite_difference_samples": [],
             "fd_only": {}, "fd_only_samples": [], "skipped": {}, "call_timeouts": 0, "generated_records": 0, "b_compared": 0, "b_flag_compared": 0}
    timings = {}
    cases = []
    seen_case = set()

    def add_case(c):
        if isinstance(c, tuple):
            stats["skipped"][c[1]] = stats["skipped"].get(c[1], 0) + 1
            return
        key = (c["kind"], c["text"], c["ftext"], json.dumps(c["b"]), c["flag"], c["s"], c["v"])
        if key in seen_case:
            return
        seen_case.add(key)
        cases.append(c)
        if c.get("fdonly"):
            stats["skipped"][c["skip_reason"]] = stats["skipped"].get(c["skip_reason"], 0) + 1
        elif c["v"] != "unknown":
            ck.count_nontrivial(key)

    # ---- (2) harvest real calls first (in this process, before any fork)
    t0 = time.time()
    hlog = {}
    calls = _harvest(HARVEST_THOROUGH if thorough else HARVEST_QUICK, hlog)
    for kind, f, s, bounds, flag, verdict in calls:
        ck.evaluations += 1
        add_case(_case_from_call(kind, f, s, bounds, flag, verdict, "mapper"))
    timings["harvest_s"] = round(time.time() - t0, 1)
    ck.extra["harvest"] = hlog
    if not calls and not any("mapper_error" in v for v in hlog.values()):
        raise Machinery("the mapper runs made no geq_leq_zero / diff_geq_leq_zero call: %s" % hlog)

    # ---- (1) generated formulas
    plan = [("MC_SignVerdict_small%s.cfg" % ("" if thorough else "_q"), None, None)]
    for i in range(2 if thorough else 1):
        s = ck.seed * 100 + i
        plan += [("MC_SignVerdict_rand1.cfg", s, 150 if thorough else 100),
                 ("MC_SignVerdict_rand2.cfg", s, 350 if thorough else 220),
                 ("MC_SignVerdict_rand3.cfg", s, 120 if thorough else 80)]
    b_fail = []
    for cfg, seed, depth in plan:
        t0 = time.time()
        kw = {"workers": 8}
        if seed is not None:
            kw = {"seed": seed, "workers": 1, "simulate": "num=1", "depth": depth}
        res = ck.tlc("MC_SignVerdict", cfg, timeout=3000, coverage=False, **kw)
        if not res.ok or not res.records:
            raise Machinery("generator %s failed: %s\n%s" % (cfg, res.violated, res.tail))
        recs = res.records
        t1 = time.time()
        size = max(1, min(40, len(recs) // (NPROC * 3) + 1))
        chunks = [recs[i:i + size] for i in range(0, len(recs), size)]
        with ProcessPoolExecutor(NPROC, mp_context=multiprocessing.get_context("fork")) as pool:
            results = [r for ch in pool.map(_eval_generated, chunks) for r in ch]
        for rec, r in zip(recs, results):
            ck.traces += 1
            stats["generated_records"] += 1
            stats["call_timeouts"] += r["timeouts"]
            for e in r["errors"]:
                ck.evaluations += 1
                ck.impl_errors += 1
                if ck.impl_error_sample is None:
                    ck.impl_error_sample = {"case": r["text"], "traceback": e}
            sg = rec["signs"]
            for key, flag in (("g", False), ("gflag", True)):
                v = r[key]
                if v is None:
                    continue
                ck.evaluations += 1
                if not sg["defined"]:
                    stats["undefined_or_overflow"] += 1
                    continue
                stats["b_flag_compared" if flag else "b_compared"] += 1
                if v != "unknown":
                    ck.count_nontrivial(("g", r["text"], json.dumps(rec["b"]), flag))
                if v != "unknown" and not sg[v]:
                    # B disagreement: hand the case to TLC as well (confirms and classifies it)
                    add_case({"kind": "g", "e": rec["e"], "b": rec["b"], "v": v, "flag": flag, "f": {"h": "none"},
                              "s": 0, "origin": "generated", "text": r["text"], "ftext": r["text"]})
                    b_fail.append((r["text"], rec["b"], flag, v))
            for c in r["d"]:
                ck.evaluations += 1
                add_case(c)
        timings[cfg + ("" if seed is None else "@%d" % seed)] = {
            "records": len(recs), "tlc_generate_s": round(t1 - t0, 1), "replay_s": round(time.time() - t1, 1)}
        if recs:
            k = len(recs) // 2
            ck.sample({"generator": cfg, "formula": results[k]["text"], "box": recs[k]["b"],
                       "signs_over_box(TLC)": recs[k]["signs"], "precondition(TLC)": recs[k]["pre"],
                       "geq_leq_zero": results[k]["g"], "geq_leq_zero(terms_do_not_cross_zero)": results[k]["gflag"],
                       "diff_verdicts": [c["v"] if isinstance(c, dict) else c[1] for c in results[k]["d"]]})
    # ---- C: TLC judges every recorded case
    t0 = time.time()
    if not cases:
        raise Machinery("no case reached Trace_SignVerdict")
    failures = _judge(ck, cases, stats, ck.work)
    timings["Trace_SignVerdict"] = {"cases": len(cases), "s": round(time.time() - t0, 1)}
    confirmed = {(c["text"], json.dumps(c["b"]), c["flag"], c["v"]) for c, v, s in failures if c["kind"] == "g"}
    for text, b, flag, v in b_fail:
        if (text, json.dumps(b), flag, v) not in confirmed:
            raise Machinery("B comparison and Trace_SignVerdict disagree on %s over %s" % (text, b))
    _report(ck, failures)
    for c in cases[:2]:
        ck.sample({"origin": c["origin"], "kind": c["kind"], "formula_judged": c["text"], "box": c["b"],
                   "verdict": c["v"], "flag": c["flag"]})
    ck.extra["timings"] = timings
    ck.extra["c09_stats"] = stats
    ck.extra["non_decisive"] = ("finite-difference monotonicity of the differentiated formula (counted); calls with "
                                "terms_do_not_cross_zero=True whose precondition TLC could not establish; formulas "
                                "with heads outside the AST (skipped, counted by head); sympy calls over %d CPU-seconds "
                                "(call_timeouts)" % CALL_TIMEOUT)
    total_calls = max(1, ck.evaluations)
    if stats["call_timeouts"] > 0.35 * total_calls:
        raise Machinery("%d of %d implementation calls timed out" % (stats["call_timeouts"], total_calls))
    ck.exhaustive = False


def replay(path):
    rec = json.load(open(path))
    c = rec["case"]
    MTS = _mts()
    ns = len(c["b"])
    syms = _symbols(ns)
    bounds = tuple((syms[i], c["b"][i]["lo"], c["b"][i]["hi"]) for i in range(ns))
    if c["kind"] == "d" and c["f"]["h"] != "none":
        f = ast_to_sympy(c["f"], syms)
        s = syms[c["s"] - 1]
        v = MTS.diff_geq_leq_zero(f, s, bounds)
        case = _case_from_call("d", f, s, bounds, False, v, c["origin"])
        print("diff_geq_leq_zero(%s, %s, %s) -> %s ; derivative judged: %s" % (f, s, bounds, v.name, case["text"]))
    else:
        f = ast_to_sympy(c["e"], syms)
        v = MTS.geq_leq_zero(f, bounds, c["flag"])
        case = _case_from_call("g", f, None, bounds, c["flag"], v, c["origin"])
        print("geq_leq_zero(%s, %s, terms_do_not_cross_zero=%s) -> %s" % (f, bounds, c["flag"], v.name))
    if isinstance(case, tuple):
        print("cannot convert:", case)
        return 2
    work = os.path.join(_tlc.VERIF, ".work", "C09-replay")
    os.makedirs(work, exist_ok=True)
    case["id"] = 1
    res = _validate_with_tlc(None, [case], work, "replay")[1]
    print("TLC:", res)
    if res["defined"] and (not case["flag"] or res["pre"]) and not res["ok"]:
        print("VIOLATION property=C09 replay=%s" % path)
        return 1
    print("no disagreement on this case")
    return 0
