"""C03 — every returned mapping is valid for the architecture and constraints.

Binding C: every LoopTree the real mapper returns on generated micro-specs is exported
structurally and EXECUTED by spec/Trace_Mapping.tla (the LoopNest machine): TLC decides
well-formedness (one compute, every rank variable fully iterated with perfectly
factorising tile shapes, hierarchy order), that every point of the iteration space is
computed exactly once, that every tensor of a memory's keep set has a holder there (and
nothing outside keep|may_keep is held), and that neither the execution-time peak nor the
reserved footprint exceeds a finite memory size.
"""
from __future__ import annotations

import json

from checks import mapper_common as mc
from harness import loopnest as ln
from harness.core import Check, Machinery

CLAUSES = ("wellformed", "once", "keep", "may", "cap")


def run(ck: Check):
    thorough = ck.tier == "thorough"
    ck.rule = ("micro-specs (1 Einsum; 2-3 memory levels; random keep/may_keep; finite inner sizes around the tile sizes; "
               "optional Toll) are mapped by the real mapper for ENERGY, LATENCY, ENERGY|LATENCY and "
               "ENERGY|LATENCY|RESOURCE_USAGE; every returned LoopTree is one trace. Non-trivial = returned tree with a "
               "holder below a loop; distinct by (world, metrics, row).")
    ck.assumptions += ["spatial fanout, loop_bounds constraints and fused-loop limits are not exercised yet: the micro-specs "
                       "have no spatial dimensions and a single Einsum"]
    worlds = mc.mapper_worlds(ck, 6 if not thorough else 30, 1, tolls=True)
    msets = [("ENERGY",), ("LATENCY",), ("ENERGY", "LATENCY"), ("ENERGY", "LATENCY", "RESOURCE_USAGE")]
    cases, info = mc.returned_cases(ck, worlds, msets, detail_both=False)
    unsupported = [c for c, m in info.items() if m.get("unsupported") or m.get("nodes") is None]
    if unsupported:
        raise Machinery("spec gap: %d returned mappings contain node kinds Trace_Mapping does not know (e.g. %s)"
                        % (len(unsupported), info[unsupported[0]]))
    if not cases:
        raise Machinery("the mapper returned nothing on every micro-spec")
    verdicts = mc.trace_mapping_verdicts(ck, cases, "c03")
    for cid, v in verdicts.items():
        meta = info[cid]
        ck.traces += 1
        nodes = meta["nodes"]
        if any(n["kind"] == "S" and any(m["kind"] == "T" for m in nodes[:j]) for j, n in enumerate(nodes)):
            ck.count_nontrivial(cid)
        for cl in CLAUSES:
            if not v.get(cl, False):
                ck.violation("C03/%s" % cl,
                             "returned mapping %s of world %d (%s) fails clause '%s' (sizes %s, keep %s, footprint %s, peak %s)"
                             % (ln.short(nodes), meta["world"]["id"], "+".join(meta["mset"]), cl, meta["world"]["size"],
                                meta["world"]["keep"], v.get("footprint"), v.get("peak")),
                             {"world": meta["world"], "nodes": nodes, "clause": cl, "metrics": meta["mset"]})
                break
        if len(ck.samples) < 4:
            ck.sample({"mapping": ln.short(nodes), "metrics": meta["mset"], "sizes": meta["world"]["size"],
                       "verdict": {k: v.get(k) for k in CLAUSES}, "footprint": v.get("footprint")})


def replay(path):
    import os, sys
    from harness.core import Check
    rec = json.load(open(path))
    ck = Check("C03", "quick", 0)
    ck.work = os.path.join(os.path.dirname(os.path.abspath(path)), "_replay_tmp")
    os.makedirs(ck.work, exist_ok=True)
    res = mc._mapper_job((rec["world"], tuple(rec["metrics"]), None, ck.work, True))
    if "exception" in res:
        print(res["traceback"]); return 2
    cases = [{"id": str(i), "world": rec["world"], "nodes": r["nodes"], "join": {"energy": [0, 1], "latency": [0, 1]},
              "model": {"energy": [0, 1], "latency": [0, 1]}} for i, r in enumerate(res["rows"])]
    v = mc.trace_mapping_verdicts(ck, cases, "replay")
    bad = [(i, cl) for i, vv in v.items() for cl in CLAUSES if not vv.get(cl, False)]
    for i, vv in v.items():
        print(ln.short(cases[int(i)]["nodes"]), {k: vv.get(k) for k in CLAUSES})
    if bad:
        print("VIOLATION property=C03 replay=%s" % path)
        return 1
    print("no disagreement on this case")
    return 0
