"""C03 — every returned mapping is valid for the architecture and constraints.

Binding C: every LoopTree the real mapper returns on generated micro-specs is exported
structurally and EXECUTED by spec/Trace_Mapping.tla (the LoopNest machine): TLC decides
well-formedness (one compute, every rank variable fully iterated with perfectly
factorising tile shapes, hierarchy order), that every point of the iteration space is
computed exactly once, that every tensor of a memory's keep set has a holder there (and
nothing outside keep|may_keep is held), and that neither the execution-time peak nor the
reserved footprint exceeds a finite memory size.
"""
from __future__ import annotations

import json

from checks import mapper_common as mc
from harness import loopnest as ln
from harness.core import Check, Machinery

CLAUSES = ("wellformed", "once", "keep", "may", "cap", "fanout", "bounds")


def spatial_worlds(ck, n):
    import random
    rng = random.Random(ck.seed * 37 + 303)
    out = []
    for i in range(n):
        w = mc.gen_microspec(rng, 900 + i, n_mem=2, bounds=rng.choice([[8, 4, 2], [4, 4, 2], [8, 2, 2]]), kind="matmul")
        w["keep"]["GLB"] = []
        w["maykeep"]["GLB"] = ["A", "B", "Z"]
        w["size"]["GLB"] = rng.choice([256, 512])
        for c in w["cost"]:
            for a in w["cost"][c]["tput"]:
                w["cost"][c]["tput"][a] = [2, 1]
        w["fanout"] = [{"comp": "PEs", "dim": "X", "n": rng.choice([2, 4])}]
        vars_ = rng.choice([["m"], ["n", "k"], ["m", "n", "k"], ["k"]])
        fan = w["fanout"][0]["n"]
        if len(vars_) > 1 and rng.random() < 0.7:
            # product operators over several rank variables (a product over one variable is rewritten to the
            # per-variable operator by Comparison._eval_expressions); keep the constraint satisfiable
            op, product = rng.choice(["==", "<=", ">=", "<", ">"]), True
            value = rng.choice([1, 2, 4])
            if op in (">=", "==") and value > fan:
                value = fan
            if op == ">" and value >= fan:
                value = 1
            if op == "<" and value == 1:
                value = 2
        else:
            op, product, value = rng.choice(["==", "<="]), False, 1
        w["lbs"] = [{"comp": "PEs", "dim": "X", "vars": vars_, "op": op, "product": product, "value": value}]
        out.append(w)
    # two fanout levels on memories (dimension Y on GLB, X on RF), each restricted to one rank variable with
    # "others == 1" plus a bound on that variable: the constrained inner loop then has several loops over the same
    # rank variable above it
    for i in range(max(2, n // 2)):
        w = mc.gen_microspec(rng, 950 + i, n_mem=3, bounds=rng.choice([[8, 2, 2], [16, 2, 2], [8, 4, 2]]), kind="matmul")
        for c in w["level"]:
            w["keep"][c] = list(w["tensors"])
            w["maykeep"][c] = []
            if w["level"][c]:
                w["size"][c] = 4096
            for a in w["cost"][c]["tput"]:
                w["cost"][c]["tput"][a] = [2, 1]
        w["fanout"], w["lbs"] = [], []
        for comp, dim in (("GLB", "Y"), ("RF", "X")):
            w["fanout"].append({"comp": comp, "dim": dim, "n": 4})
            w["lbs"].append({"comp": comp, "dim": dim, "vars": ["n", "k"], "op": "==", "product": False, "value": 1})
            op, value = rng.choice([("==", 2), ("==", 4), ("<=", 2), (">=", 2), ("==", 1)])
            w["lbs"].append({"comp": comp, "dim": dim, "vars": ["m"], "op": op, "product": False, "value": value})
        out.append(w)
    return out


def run(ck: Check):
    thorough = ck.tier == "thorough"
    ck.rule = ("micro-specs (1 Einsum; 2-3 memory levels; random keep/may_keep; finite inner sizes around the tile sizes; "
               "optional Toll) are mapped by the real mapper for ENERGY, LATENCY, ENERGY|LATENCY and "
               "ENERGY|LATENCY|RESOURCE_USAGE; every returned LoopTree is one trace. Non-trivial = returned tree with a "
               "holder below a loop; distinct by (world, metrics, row).")
    ck.assumptions += ["fused-loop limits are not exercised (single Einsum). Spatial worlds use one Container fanout above the "
                       "compute with one loop_bounds constraint from the operator/value combinations on which the unchanged mapper "
                       "does not crash (product==, product<=, product>=, product<, product> with any value; ==, <= with value 1); "
                       "per-variable >=, >, < and ==/<= with values > 1 make get_padded_choices raise AttributeError on the "
                       "unchanged tree and are excluded. Spatial loops are executed like temporal loops (tiles, points); their "
                       "access counts are not modelled."]
    worlds = mc.mapper_worlds(ck, 4 if not thorough else 24, 1, tolls=True) + spatial_worlds(ck, 5 if not thorough else 30)
    msets = [("ENERGY",), ("LATENCY",), ("ENERGY", "LATENCY"), ("ENERGY", "LATENCY", "RESOURCE_USAGE")]
    cases, info = mc.returned_cases(ck, worlds, msets, detail_both=False)
    unsupported = [c for c, m in info.items() if m.get("unsupported") or m.get("nodes") is None]
    if unsupported:
        raise Machinery("spec gap: %d returned mappings contain node kinds Trace_Mapping does not know (e.g. %s)"
                        % (len(unsupported), info[unsupported[0]]))
    if not cases:
        raise Machinery("the mapper returned nothing on every micro-spec")
    verdicts = mc.trace_mapping_verdicts(ck, cases, "c03")
    for cid, v in verdicts.items():
        meta = info[cid]
        ck.traces += 1
        nodes = meta["nodes"]
        if any(n["kind"] == "S" and any(m["kind"] == "T" for m in nodes[:j]) for j, n in enumerate(nodes)):
            ck.count_nontrivial(cid)
        for cl in CLAUSES:
            if not v.get(cl, False):
                ck.violation("C03/%s" % cl,
                             "returned mapping %s of world %d (%s) fails clause '%s' (sizes %s, keep %s, footprint %s, peak %s)"
                             % (ln.short(nodes), meta["world"]["id"], "+".join(meta["mset"]), cl, meta["world"]["size"],
                                meta["world"]["keep"], v.get("footprint"), v.get("peak")),
                             {"world": meta["world"], "nodes": nodes, "clause": cl, "metrics": meta["mset"]})
                break
        if any(n["kind"] == "P" for n in nodes):
            ck.extra["returned_trees_with_spatial_loops"] = ck.extra.get("returned_trees_with_spatial_loops", 0) + 1
        if len(ck.samples) < 4 or (any(n["kind"] == "P" for n in nodes) and len(ck.samples) < 6):
            ck.sample({"mapping": ln.short(nodes), "metrics": meta["mset"], "sizes": meta["world"]["size"],
                       "loop_bounds": meta["world"].get("lbs"), "fanout": meta["world"].get("fanout"),
                       "verdict": {k: v.get(k) for k in CLAUSES}, "footprint": v.get("footprint")})


def replay(path):
    import os, sys
    from harness.core import Check
    rec = json.load(open(path))
    ck = Check("C03", "quick", 0)
    ck.work = os.path.join(os.path.dirname(os.path.abspath(path)), "_replay_tmp")
    os.makedirs(ck.work, exist_ok=True)
    res = mc._mapper_job((rec["world"], tuple(rec["metrics"]), None, ck.work, True))
    if "exception" in res:
        print(res["traceback"]); return 2
    cases = [{"id": str(i), "world": rec["world"], "nodes": r["nodes"], "join": {"energy": [0, 1], "latency": [0, 1]},
              "model": {"energy": [0, 1], "latency": [0, 1]}} for i, r in enumerate(res["rows"])]
    v = mc.trace_mapping_verdicts(ck, cases, "replay")
    bad = [(i, cl) for i, vv in v.items() for cl in CLAUSES if not vv.get(cl, False)]
    for i, vv in v.items():
        print(ln.short(cases[int(i)]["nodes"]), {k: vv.get(k) for k in CLAUSES})
    if bad:
        print("VIOLATION property=C03 replay=%s" % path)
        return 1
    print("no disagreement on this case")
    return 0
