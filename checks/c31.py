"""C31 — Toll components pass data through without storing it.

Spec: spec/LoopNest.tla — a Toll node holds nothing (no allocation, no valid set, no
liveness), never writes, and is charged one read per value that crosses it in a
configured direction (TollDown / TollUp), converted to actions by CostModel.  TLC
constructs mappings with a Toll between two memories (or between the innermost memory and
the compute) with per-tensor directions up / down / up_and_down and executes them
(binding B into evaluate_mapping).  The mapper part of the property (a Toll is never the
outermost holder of a tensor shared between Einsums in a returned mapping) is validated on
recorded mapper results by spec/Trace_Mapping.tla (binding C), see part_mapper().
"""
from __future__ import annotations

import json
import random
from fractions import Fraction

from checks import c05
from harness import loopnest as ln
from harness import microspec as ms
from harness.core import Check, Machinery


def _worlds(ck, n, start):
    rng = random.Random(3100 * ck.seed + start)
    out = []
    kinds = ["matmul", "matvec", "reduce", "elementwise"]
    for i in range(n):
        kind = kinds[(i + ck.seed) % len(kinds)]
        nrv = {"matmul": 3, "matvec": 2, "reduce": 2, "elementwise": 2}[kind]
        bounds = [rng.choice([2, 2, 3, 4]) for _ in range(nrv)]
        w = ms.gen_world(rng, start + i, n_mem=rng.choice([2, 2, 3]), toll=True, bounds=bounds,
                         rich_costs=True, kind=kind)
        for c in w["size"]:
            w["size"][c] = 65536
        out.append(w)
    return out


def _toll_usage(ck, worlds, records, outs):
    byid = {w["id"]: w for w in worlds}
    for rec, out in zip(records, outs):
        if "usage" not in out:
            continue
        w = byid[rec["wid"]]
        for c in w["level"]:
            if w["istoll"][c] and out["usage"].get(c, Fraction(0)) != 0:
                ck.violation("C31/toll-contributes-occupancy",
                             "%s: Toll %s reports usage %s" % (ln.short(rec["nodes"]), c, out["usage"][c]),
                             {"world": w, "nodes": rec["nodes"], "expected": rec})
        # memories must reserve exactly what they reserve when the toll nodes are absent:
        for m in w["level"]:
            if w["istoll"][m]:
                continue
            got = out["usage"].get(m, Fraction(0)) * w["size"][m]
            if got < rec["peak"][m] or got > rec["tilebits"][m] or \
                    (rec["peak"][m] == rec["footprint"][m] and got != rec["peak"][m]):
                ck.violation("C31/memory-occupancy-changed-by-toll",
                             "%s: %s reports %s bits; spec peak %s footprint %s tiles %s"
                             % (ln.short(rec["nodes"]), m, got, rec["peak"][m], rec["footprint"][m], rec["tilebits"][m]),
                             {"world": w, "nodes": rec["nodes"], "expected": rec})


def run(ck: Check):
    thorough = ck.tier == "thorough"
    ck.rule = ("TLC constructs and executes single-Einsum mappings of worlds that contain a Toll (random position, "
               "per-tensor direction, values-per-action settings); only mappings that actually contain a Toll node are "
               "compared with evaluate_mapping: toll read actions per tensor, zero writes, zero occupancy, unchanged "
               "memory counts, energy and latency. Non-trivial = mapping with a Toll node; distinct by (world, nodes).")
    worlds = _worlds(ck, 8 if not thorough else 30, 1)
    res = ln.run_tlc(ck, worlds, "MC_LoopNest_sim.cfg", "toll",
                     simulate="num=%d" % (500 if not thorough else 8000), depth=1500, seed=ck.seed + 5,
                     workers=8, timeout=3000)
    if not res.ok:
        raise Machinery("MC_LoopNest simulation failed: %s\n%s" % (res.violated, res.tail))
    byid = {w["id"]: w for w in worlds}
    recs = [r for r in res.records
            if any(n["kind"] == "S" and byid[r["wid"]]["istoll"][n["mem"]] for n in r["nodes"])]
    if len(recs) < 20:
        raise Machinery("vacuity: only %d constructed mappings contain a Toll node" % len(recs))
    outs = ln.evaluate_records(ck, worlds, recs)
    c05.compare(ck, worlds, recs, outs, "toll worlds", prop="C31", toll_only=True)
    _toll_usage(ck, worlds, recs, outs)
    dirs = {}
    for r in recs:
        w = byid[r["wid"]]
        for n in r["nodes"]:
            if n["kind"] == "S" and w["istoll"][n["mem"]]:
                d = w["dir"][n["mem"]][n["t"]]
                key = "%s/%s" % (d, "output" if n["t"] == w["out"] else "input")
                dirs[key] = dirs.get(key, 0) + 1
    ck.extra["toll_nodes_by_direction_and_tensor_kind"] = dirs
    for need in ("up/output", "down/output", "up_and_down/output", "up/input", "down/input", "up_and_down/input"):
        if not dirs.get(need):
            raise Machinery("vacuity: no Toll node with %s was exercised" % need)
    part_mapper(ck)


def part_mapper(ck):
    """Mapper results on architectures with Tolls (binding C) — added with the mapper harness."""
    try:
        from checks import mapper_common
    except ImportError:
        ck.assumptions.append("mapper-result clause (Toll never outermost holder of a shared tensor) not yet bound")
        return
    mapper_common.c31_part(ck)


def replay(path):
    rec = json.load(open(path))
    rec.setdefault("property", "C31")
    return c05.replay(path)
