"""C15 -- compressing pmapping tables for joining loses no per-row detail.

Spec: spec/Compress.tla (compress / join-select / decompress as actions over the
start-index bookkeeping; property Lossless with RowOf defined by plain concatenation),
spec/MC_Compress.tla (case generators).

Role A: TLC checks Lossless, NoError, CompressInv over every list of sub-table shapes
(incl. empty sub-tables) and every selection within small bounds, and refutes them for two
bookkeeping errors (dict key taken after the increment; dict walked forwards).

Binding B: TLC enumerates / draws table shapes, payload column sets, payload values and
selections and prints, per result row and Einsum, the payload it must carry (from the
definition RowOf).  The harness builds real PmappingGroup / PmappingDataframe objects with
columns that follow df_convention (joining: Total<SEP>..., tensor<SEP>..., reservation<SEP>...;
payload: <Einsum><SEP>mapping / action / energy / latency / stride), calls the real
compress_einsum2pmappings, builds the joined table the join would leave behind (joining
columns + one <Einsum><SEP>compressed_index column per Einsum, holding the index the REAL
compression gave to the selected source row), calls the real decompress_pmappings and
compares every payload cell exactly.
"""
from __future__ import annotations

import json
import math
import os
import traceback
from concurrent.futures import ProcessPoolExecutor
from fractions import Fraction

from harness.core import Check, Machinery

NAMES = ["Matmul0", "QK", "AV_softmax", "FFN1"]
MISSING = -1


# --------------------------------------------------------------------------- real objects
def _payload_col(name, c):
    return {1: "%s<SEP>mapping",
            2: "%s<SEP>action<SEP>MainMemory<SEP>T0<SEP>read",
            3: "%s<SEP>energy<SEP>MainMemory<SEP>T0<SEP>read",
            4: "%s<SEP>latency<SEP>MAC",
            5: "%s<SEP>stride0"}[c] % name


def _payload_value(c, v):
    """concrete cell for abstract value v in payload column c (injective per column)"""
    if c == 1:
        return "m-%08d-4f2a" % v          # mapping ids are uuid-like strings
    if c == 2:
        return int(v) * 4096              # action counts: int64
    if c == 3:
        return float(v) * 0.5             # energies: float64 (dyadic)
    if c == 4:
        return float(v) / 4.0             # latencies: float64 (dyadic)
    return int(v)                         # strides: small unsigned ints


_DTYPE = {1: object, 2: "int64", 3: "float64", 4: "float64", 5: "uint16"}


def _same(c, cell, v):
    """exact comparison of a decompressed cell with the expected abstract value"""
    want = _payload_value(c, v)
    if c == 1:
        return isinstance(cell, str) and cell == want
    try:
        if cell is None or (isinstance(cell, float) and math.isnan(cell)):
            return False
        return Fraction(cell) == Fraction(want)
    except Exception:
        return False


def _is_missing(cell):
    if cell is None:
        return True
    try:
        return bool(cell != cell)  # NaN / NaT
    except Exception:
        return False


def build(rec, variant=0):
    """TLC record -> {einsum name: [PmappingGroup, ...]} with real column conventions."""
    import numpy as np
    import pandas as pd
    from accelforge.mapper.FFM._join_pmappings.pmapping_group import PmappingGroup
    from accelforge.mapper.FFM._join_pmappings.pmapping_dataframe import PmappingDataframe
    from accelforge.mapper.FFM._join_pmappings.compatibility import Compatibility, TensorReservation
    from accelforge.util._frozenset import fzs, oset

    compat = Compatibility(tensors=fzs([TensorReservation(loops=(), name="T1", resource_name="MainMemory")]),
                           reservation_indices=fzs([0]))
    e2p = {}
    for e, shapes in enumerate(rec["shape"], start=1):
        name = NAMES[e - 1]
        groups = []
        for s, nrows in enumerate(shapes, start=1):
            present = [c for c in range(1, 6) if rec["cols"][e - 1][s - 1][c - 1]]
            rows = rec["tab"][e - 1][s - 1]
            data = {}
            # joining columns (they stay in the compressed table); sets differ between sub-tables
            jo = {"Total<SEP>energy": [float(16 * (e + s + k)) for k in range(nrows)],
                  "tensor<SEP>T1": [0.0] * nrows}
            if (e + s + variant) % 2 == 0:
                jo["Total<SEP>latency"] = [float(8 * (k + 1)) for k in range(nrows)]
            if (e + s + variant) % 3 == 0:
                jo["reservation<SEP>GlobalBuffer<SEP>0<SEP>right"] = [0.25] * nrows
            pay = {}
            for c in present:
                col = _payload_col(name, c)
                vals = [_payload_value(c, rows[k][c - 1]) for k in range(nrows)]
                pay[col] = pd.Series(vals, dtype=_DTYPE[c])
            # column order as the mapper produces it: payload and joining columns interleaved
            order = []
            pk, jk = list(pay), list(jo)
            for i in range(max(len(pk), len(jk))):
                if i < len(pk) and pk[i].split("<SEP>")[1] != "mapping":
                    order.append(pk[i])
                if i < len(jk):
                    order.append(jk[i])
            order += [k for k in pk if k not in order]
            for col in order:
                data[col] = pay[col] if col in pay else pd.Series(jo[col], dtype="float64")
            df = pd.DataFrame(data)
            # rows arrive with whatever index the Pareto pruning left (not 0-based)
            df.index = np.arange(nrows) * (1 + variant % 2) + 40 + s
            pdf = PmappingDataframe(df, n_total_pmappings=float(max(nrows, 1)), n_valid_pmappings=float(nrows),
                                    ignored_resources=oset(), drop_valid_reservations=False, skip_pareto=True)
            groups.append(PmappingGroup(compat, pdf))
        e2p[name] = groups
    return e2p


def roundtrip(rec, variant=0):
    """Drive the real compress / decompress on one TLC record.  Returns (cells, nrows_out)
    with cells[r][e][c] = decompressed value or a 'missing' marker."""
    import numpy as np
    import pandas as pd
    from accelforge.mapper.FFM._join_pmappings.compress_pmappings import (
        compress_einsum2pmappings, decompress_pmappings)
    from accelforge.mapper.FFM._join_pmappings.pmapping_dataframe import PmappingDataframe
    from accelforge.util._frozenset import oset

    e2p = build(rec, variant)
    names = list(e2p)
    compressed, dd = compress_einsum2pmappings(e2p, print_progress=False)
    R = len(rec["pick"])
    joined = {"Total<SEP>energy": [float(100 + r) for r in range(R)]}
    if variant % 2:
        joined["Total<SEP>latency"] = [float(7 * r) for r in range(R)]
    for e, name in enumerate(names):
        col = "%s<SEP>compressed_index" % name
        idx = []
        for r in range(R):
            s, k = rec["pick"][r][e]
            src = compressed[name][s - 1].mappings.data
            idx.append(src[col].iloc[k - 1])
        joined[col] = idx
    jdf = pd.DataFrame(joined)
    if variant % 3 == 1:
        jdf.index = np.arange(R) * 3 + 5          # what a Pareto mask leaves: unique, not contiguous
    jp = PmappingDataframe(jdf, n_total_pmappings=float(R), n_valid_pmappings=float(R),
                           ignored_resources=oset(), drop_valid_reservations=False, skip_pareto=True)
    out = decompress_pmappings(jp, dd).data
    cells = []
    for r in range(min(R, len(out))):
        row = []
        for e, name in enumerate(names, start=1):
            vals = []
            for c in range(1, 6):
                col = _payload_col(name, c)
                vals.append(out[col].iloc[r] if col in out.columns else None)
            row.append(vals)
        cells.append(row)
    return cells, len(out)


def expand_big(rec):
    """A big record (MC_Compress!BigRec) carries shapes, column sets, selection and pick only; the payload table and the
    expected payload follow from the value function below (injective in (e, s, k) for k < 100000, s < 10)."""
    if not rec.get("big") or "tab" in rec:
        return rec
    val = lambda e, s, k: (e * 10 + s) * 100000 + k
    rec = dict(rec)
    rec["tab"] = [[[[val(e, s, k) if rec["cols"][e - 1][s - 1][c - 1] else MISSING for c in range(1, 6)]
                    for k in range(1, n + 1)]
                   for s, n in enumerate(shapes, start=1)]
                  for e, shapes in enumerate(rec["shape"], start=1)]
    rec["exp"] = [[rec["tab"][e][p[0] - 1][p[1] - 1] for e, p in enumerate(row)] for row in rec["pick"]]
    return rec


def _slim(rec):
    return {k: v for k, v in rec.items() if not (rec.get("big") and k in ("tab", "exp"))}


def _innermost_accelforge_frame(exc):
    fn = None
    for fs in traceback.extract_tb(exc.__traceback__):
        if "accelforge" in fs.filename:
            fn = os.path.basename(fs.filename) + ":" + fs.name
    return fn


def judge(rec, variant=0):
    """-> None (agrees) | ("violation", signature, detail) | ("error", text)."""
    rec = expand_big(rec)
    try:
        cells, nout = roundtrip(rec, variant)
    except Exception as e:  # noqa
        where = _innermost_accelforge_frame(e) or ""
        txt = "".join(traceback.format_exception(type(e), e, e.__traceback__))[-2500:]
        if where.startswith("compress_pmappings.py"):
            # the mechanism under test gives up on a valid input: Compress!NoError
            return ("violation", "C15/%s-raises-%s/%s" % (where.split(":")[1], type(e).__name__, _ctx(rec, None)),
                    "%s: %s" % (type(e).__name__, str(e)[:300]))
        return ("error", txt)
    R = len(rec["pick"])
    if nout != R:
        return ("violation", "C15/result-row-count-changed/%s" % _ctx(rec, None),
                "decompression turned %d result rows into %d" % (R, nout))
    for r in range(R):
        for e in range(len(rec["shape"])):
            for c in range(1, 6):
                want = rec["exp"][r][e][c - 1]
                cell = cells[r][e][c - 1]
                if want == MISSING:
                    if not _is_missing(cell):
                        return ("violation", "C15/value-in-column-the-source-row-lacks/%s" % _ctx(rec, (r, e)),
                                "result row %d, Einsum %d, column %s: source row %s has no such column, "
                                "decompressed value %r" % (r, e + 1, _payload_col(NAMES[e], c), rec["pick"][r][e], cell))
                elif not _same(c, cell, want):
                    kind = "payload-missing" if _is_missing(cell) else "payload-of-another-row"
                    return ("violation", "C15/%s/%s" % (kind, _ctx(rec, (r, e))),
                            "result row %d, Einsum %d, column %s: built from sub-table %d row %d, expected %r, "
                            "decompressed %r" % (r, e + 1, _payload_col(NAMES[e], c), rec["pick"][r][e][0],
                                                 rec["pick"][r][e][1], _payload_value(c, want), cell))
    return None


def _ctx(rec, where):
    """what kind of table list the failing Einsum has (part of the signature)"""
    es = range(len(rec["shape"])) if where is None else [where[1]]
    tags = set()
    for e in es:
        sh = rec["shape"][e]
        if len(sh) == 1:
            tags.add("single-subtable")
        elif 0 in sh:
            tags.add("with-empty-subtable")
        else:
            tags.add("several-subtables")
    for t in ("with-empty-subtable", "several-subtables", "single-subtable"):
        if t in tags:
            return t
    return "none"


def _chunk(arg):
    recs, base = arg
    from accelforge.util.parallel import set_n_parallel_jobs
    set_n_parallel_jobs(1)
    out = []
    for i, rec in enumerate(recs):
        v = judge(rec, variant=(base + i) % 6)
        if v is not None:
            out.append((i, (base + i) % 6, v))
    return out


def _nontrivial(rec):
    # at least one Einsum with >= 2 sub-tables where the selection reaches a sub-table other
    # than the first, or sits next to an empty sub-table
    for e, sh in enumerate(rec["shape"]):
        if len(sh) >= 2 and (0 in sh or any(p[e][0] > 1 for p in rec["pick"])):
            return True
    return False


def _t(ck, what):
    import time
    ck.extra.setdefault("timeline_s", []).append([what, round(time.time() - ck.t0, 1)])
    if os.environ.get("C15_VERBOSE"):
        print("[%6.1fs] %s" % (time.time() - ck.t0, what), flush=True)


def _replay_records(ck: Check, recs, label):
    CH = 250
    chunks = [(recs[i:i + CH], i) for i in range(0, len(recs), CH)]
    if len(recs) > 800:
        # import accelforge once, before forking: concurrent imports in the helpers are very slow
        judge(recs[0])
        with ProcessPoolExecutor(4) as ex:
            results = list(ex.map(_chunk, chunks))
    else:
        results = [_chunk(ch) for ch in chunks]
    for (part, base), res in zip(chunks, results):
        for i, variant, v in res:
            rec = part[i]
            if v[0] == "error":
                ck.impl_errors += 1
                if ck.impl_error_sample is None:
                    ck.impl_error_sample = {"case": {k: rec[k] for k in ("shape", "sel", "pick")}, "traceback": v[1]}
                continue
            ck.violation(v[1], "tables %s, selection %s: %s" % (json.dumps(rec["shape"]), json.dumps(rec["pick"]), v[2]),
                         {"rec": _slim(rec), "variant": variant, "generator": label})
    for rec in recs:
        ck.traces += 1
        ck.evaluations += 1
        if _nontrivial(rec):
            ck.count_nontrivial((json.dumps(rec["shape"]), json.dumps(rec["cols"]), json.dumps(rec["sel"])))
    if recs and recs[0].get("big"):
        r = recs[0]
        ck.sample({"generator": label, "shape": r["shape"], "selection": r["sel"],
                   "selection(sub-table,row) per result row and Einsum": r["pick"]})
    elif recs:
        r = recs[len(recs) // 2]
        ck.sample({"generator": label, "shape": r["shape"], "payload_columns_present": r["cols"],
                   "selection(sub-table,row) per result row and Einsum": r["pick"], "expected_payload": r["exp"]})


def run(ck: Check):
    thorough = ck.tier == "thorough"
    for v in ("OMP_NUM_THREADS", "OPENBLAS_NUM_THREADS", "MKL_NUM_THREADS", "NUMEXPR_NUM_THREADS"):
        os.environ.setdefault(v, "1")       # many small frames: thread pools only add contention
    ck.rule = ("table lists (per Einsum a list of sub-tables with 0..n rows), payload column sets and selections are "
               "enumerated (exhaustive configs) or drawn (-simulate) by TLC from spec/MC_Compress.tla together with "
               "the payload each result row must carry (definition Compress!RowOf); each case goes through the real "
               "compress_einsum2pmappings / decompress_pmappings and all payload cells are compared exactly. "
               "Non-trivial = some Einsum has >= 2 sub-tables and the selection reaches a sub-table other than the "
               "first or the list contains an empty sub-table; distinct by (shapes, column sets, selection).")
    ck.trusted += ["checks/c15.py: build() (TLC record -> PmappingGroup/PmappingDataframe with df_convention column "
                   "names), the joined table holding the compressed index the real compression assigned to the "
                   "selected source row",
                   "injective map abstract payload value -> concrete cell (_payload_value)"]
    ck.assumptions += ["every Einsum has at least one row and every result row selects one row per Einsum (a joined "
                       "table with zero rows is outside 'every result row')",
                       "every sub-table has the <Einsum><SEP>mapping column; other payload columns vary per sub-table",
                       "set_n_parallel_jobs(1): compression runs in-process (DESIGN rule 7)",
                       "an exception raised inside compress_pmappings.py on such an input counts as a violation "
                       "(spec invariant NoError); exceptions elsewhere are implementation errors"]
    # ---- role A
    acts = ("CompressSub", "JoinSelect", "DecStart", "DecAdvance", "DecPick", "DecMerge")
    ck.tlc_expect_ok("Compress", "Compress_At.cfg" if thorough else "Compress_Aq.cfg",
                     required_actions=acts, timeout=3000)
    ck.extra["role_A"] = ("Compress: Lossless, NoError, CompressInv hold for all shape lists and selections within "
                          "the bounds of the A configs (1 Einsum: <= 3 sub-tables x 0..3 rows, <= %d result rows; "
                          "2 Einsums: <= 2 x 0..2, <= %d result rows%s)"
                          % ((3, 2, "; 3 Einsums: <= 2 x 0..1, 1 result row") if thorough else (2, 1, "")))
    negs = []
    for cfg in ("Compress_neg_key.cfg", "Compress_neg_walk.cfg"):
        res = ck.tlc("Compress", cfg, timeout=600)
        if res.ok:
            raise Machinery("role-A negative control %s: a start-index bookkeeping error must violate the "
                            "invariants, TLC found nothing" % cfg)
        negs.append("%s: %s" % (cfg, res.violated))
    ck.extra["role_A"] += ("; refuted for dict key taken after the increment and for a forward walk (%s)"
                           % "; ".join(negs))
    _t(ck, "role A done")
    # ---- binding B
    if thorough:
        plan = [("MC_Compress_exht1.cfg", None), ("MC_Compress_exht2.cfg", None)]
        plan += [("MC_Compress_rand.cfg", ck.seed * 100 + i) for i in range(4)]
    else:
        plan = [("MC_Compress_exhq.cfg", None), ("MC_Compress_rand.cfg", ck.seed * 100)]
    # tables with more than 2^16 rows per Einsum (index bookkeeping beyond 16 bits)
    plan.append(("MC_Compress_big.cfg", ck.seed * 100 + 77))
    for cfg, seed in plan:
        kw = {"workers": 8}
        if seed is not None:
            depth = (3000 if thorough else 1000) if "big" not in cfg else (21 if thorough else 6)
            kw = {"seed": seed, "workers": 1, "simulate": "num=1", "depth": depth}
        res = ck.tlc("MC_Compress", cfg, timeout=3000, coverage=False, **kw)
        if not res.ok:
            raise Machinery("generator %s failed: %s\n%s" % (cfg, res.violated, res.tail))
        if not res.records:
            raise Machinery("generator %s printed no cases" % cfg)
        _t(ck, "TLC %s: %d cases" % (cfg, len(res.records)))
        _replay_records(ck, res.records, cfg)
        _t(ck, "replayed into compress/decompress")
    ck.exhaustive = False
    ck.extra["exhaustive_parts"] = [p[0] for p in plan if p[1] is None]
    ck.extra["not_covered"] = ("joined tables with zero rows; payload values beyond 2^53 in int columns that meet a "
                               "sub-table lacking the column (float upcast); compression through a worker pool")


def replay(path):
    from accelforge.util.parallel import set_n_parallel_jobs
    set_n_parallel_jobs(1)
    rec = json.load(open(path))
    r = rec["rec"]
    print("table shapes per Einsum:", r["shape"])
    print("selection (sub-table,row) per result row and Einsum:", r["pick"])
    v = judge(r, rec.get("variant", 0))
    if v is None:
        print("decompressed payload equals the payload of the selected rows")
        return 0
    if v[0] == "error":
        print("implementation error outside compress_pmappings.py:\n" + v[1])
        return 2
    print("signature:", v[1])
    print(v[2])
    print("VIOLATION property=C15 replay=%s" % path)
    return 1
