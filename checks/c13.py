"""C13 — joining pmappings equals the exhaustive combination of compatible pmappings.

Spec: spec/PmappingJoin.tla — pmappings abstracted structurally from their LoopTrees
(backing memory of the shared tensor, blocks of loops above it, objective vector);
Compatible, ExhaustiveJoin (objective sums of every compatible pair) and its Pareto front
(Pareto.tla) are evaluated by TLC on the REAL per-Einsum pmapping tables that
make_pmappings produced for 2-Einsum micro-specs (binding C: recorded tables -> spec).
The front TLC computes is compared with the front of the real join_pmappings on the same
tables (objective vectors, exact).
"""
from __future__ import annotations

import copy
import json
import os
import random
import traceback
from concurrent.futures import ProcessPoolExecutor
from fractions import Fraction

from checks import c28
from checks import mapper_common as mc
from harness.core import Check, Machinery


def chain_yaml(rng):
    """2-Einsum chain with a GLB in which every combination fits (capacity is C06's business)."""
    a, w = c28.two_einsum_yaml(rng)
    import re
    a = re.sub(r"(name: GLB\n    size: )\d+", r"\g<1>65536", a)
    return a, w


def _concrete_nodes(template, row, einsum):
    out = []
    for n in template.nodes:
        k = type(n).__name__
        if k in ("Storage", "Toll"):
            for t in n.tensors:
                out.append({"kind": "S", "mem": str(n.component), "t": str(t)})
        elif k == "Temporal":
            ts = n.tile_shape
            if not isinstance(ts, (int, float)):
                name = getattr(ts, "name", str(ts))
                ts = row["%s<SEP>%s" % (einsum, name)]
            out.append({"kind": "T", "rv": str(n.rank_variable), "tile": int(ts)})
        elif k == "Compute":
            out.append({"kind": "C"})
        elif k == "Reservation":
            continue
        else:
            out.append({"kind": "?", "type": k})
    return out


def abstract(nodes, shared, bounds):
    """(backing memory of the shared tensor, blocks of multi-iteration loops above it) — structural."""
    ext = dict(bounds)
    blocks, cur = [], []
    for n in nodes:
        if n["kind"] == "S":
            if n["t"] == shared:
                if cur:
                    blocks.append(cur)
                return n["mem"], blocks
            if cur:
                blocks.append(cur)
                cur = []
        elif n["kind"] == "T":
            if n["tile"] < ext[n["rv"]]:
                cur.append([n["rv"], n["tile"]])
            ext[n["rv"]] = n["tile"]
    return None, None


def _job(args):
    arch, wl, metrics, d = args[:4]
    knobs = args[4] if len(args) > 4 else None
    try:
        import functools, operator
        from accelforge.frontend.spec import Spec
        from accelforge.mapper import Metrics
        import accelforge.mapper.FFM.main as ffm
        from accelforge.mapper.FFM._make_pmappings.make_pmappings import get_rank_variable_bounds_for_all_einsums
        from accelforge.util.parallel import set_n_parallel_jobs
        set_n_parallel_jobs(1)
        os.makedirs(d, exist_ok=True)
        os.chdir(d)
        tag = "c%d" % os.getpid()
        pa, pw = os.path.join(d, tag + "_a.yaml"), os.path.join(d, tag + "_w.yaml")
        open(pa, "w").write(arch)
        open(pw, "w").write(wl)
        spec = Spec.from_yaml(pa, pw)
        M = functools.reduce(operator.or_, [getattr(Metrics, m) for m in metrics])
        spec.mapper.metrics = M
        for k_, v_ in (knobs or {}).items():
            setattr(spec.mapper, k_, v_)
        pm = ffm.make_pmappings(spec, print_progress=False)
        bounds = get_rank_variable_bounds_for_all_einsums(spec)
        tables = {}
        for e, groups in pm.einsum2pmappings.items():
            rows = []
            for g in groups:
                df = g.mappings.data
                for r in range(len(df)):
                    row = df.iloc[r]
                    tmpl = pm.pmapping_objects[e][row["%s<SEP>mapping" % e]]
                    rows.append({"nodes": _concrete_nodes(tmpl, row, e),
                                 "energy": mc._x(row["Total<SEP>energy"]) if "Total<SEP>energy" in df.columns else [0, 1],
                                 "latency": mc._x(row["Total<SEP>latency"]) if "Total<SEP>latency" in df.columns else [0, 1]})
            tables[e] = rows
        joined = ffm.join_pmappings(copy.deepcopy(pm), metrics=M, print_progress=False)
        jc = joined.data.columns
        ret = [{"energy": mc._x(joined.data.iloc[i]["Total<SEP>energy"]) if "Total<SEP>energy" in jc else [0, 1],
                "latency": mc._x(joined.data.iloc[i]["Total<SEP>latency"]) if "Total<SEP>latency" in jc else [0, 1],
                "cols": {c: mc._x(joined.data.iloc[i][c]) for c in jc if c.startswith("reservation<SEP>")}}
               for i in range(len(joined.data))]
        eb = {e: {str(k): int(v) for k, v in b.items()} for e, b in bounds.items()} if isinstance(next(iter(bounds.values())), dict) \
            else {e: {str(k): int(v) for k, v in bounds.items()} for e in tables}
        shared = sorted(set(t for r in tables[list(tables)[0]][:1] for n in r["nodes"] if n["kind"] == "S" for t in [n["t"]]) &
                        set(t for r in tables[list(tables)[1]][:1] for n in r["nodes"] if n["kind"] == "S" for t in [n["t"]]))
        return {"tables": tables, "ret": ret, "bounds": eb, "shared": shared}
    except Exception as e:
        return {"exception": "%s: %s" % (type(e).__name__, e), "traceback": traceback.format_exc()[-3000:]}


def run(ck: Check):
    thorough = ck.tier == "thorough"
    ck.rule = ("2-Einsum matmul chains (bounds 2-4) on DRAM + GLB (large enough for every combination); metric set "
               "ENERGY|LATENCY and ENERGY; the per-Einsum tables of make_pmappings are exported row by row (concrete LoopTree + "
               "objective vector); TLC computes the front of all compatible pairs. Non-trivial = case with fused and unfused "
               "compatible pairs; distinct by (spec, metrics).")
    ck.assumptions += ["the capacity / lifetime clause is decided for at most one fused loop (mapper knob max_fused_loops = 1); "
                       "3-Einsum join orders are covered by C14's comparison with the exact join only"]
    rng = random.Random(ck.seed * 13 + 131)
    specs = [chain_yaml(rng) for _ in range(3 if not thorough else 12)]
    jobs = []
    d = os.path.join(ck.work, "runs")
    for a, w in specs:
        for mset in (("ENERGY", "LATENCY"), ("ENERGY",)):
            jobs.append((a, w, mset, d))
    with ProcessPoolExecutor(6) as ex:
        outs = list(ex.map(_job, jobs))
    cases, meta = [], {}
    for ji, (job, o) in enumerate(zip(jobs, outs)):
        ck.evaluations += 1
        if "exception" in o:
            ck.impl_errors += 1
            if ck.impl_error_sample is None:
                ck.impl_error_sample = {"case": ji, "traceback": o["exception"] + "\n" + o["traceback"]}
            continue
        names = list(o["tables"])
        if len(o["shared"]) != 1:
            raise Machinery("expected exactly one shared tensor, got %s" % o["shared"])
        sh = o["shared"][0]
        mset = job[2]
        cols = ["energy", "latency"] if len(mset) == 2 else ["energy"]
        P = []
        gap = 0
        for e in names:
            rows = []
            for r in o["tables"][e]:
                if any(n["kind"] == "?" for n in r["nodes"]):
                    gap += 1
                    continue
                mem, blocks = abstract(r["nodes"], sh, o["bounds"][e])
                if mem is None:
                    gap += 1
                    continue
                obj = [mc.fr(r[c]) for c in cols]
                if any(x.denominator != 1 or x > 2 ** 26 for x in obj):
                    gap += 1
                    continue
                rows.append({"obj": [int(x) for x in obj], "mem": mem, "blocks": blocks})
            P.append(rows)
        if gap:
            raise Machinery("spec gap: %d pmapping rows could not be abstracted" % gap)
        cid = "%d/%s" % (ji // 2, "+".join(mset))
        cases.append({"id": cid, "k": len(cols), "P1": P[0], "P2": P[1]})
        meta[cid] = (job, o, cols)
    if not cases:
        raise Machinery("no case recorded; first implementation error: %s" % (ck.impl_error_sample,))
    path = os.path.join(ck.work, "cases.json")
    json.dump(cases, open(path, "w"))
    res = ck.tlc("PmappingJoin", "PmappingJoin.cfg", env={"CASES_FILE": path}, coverage=False, workers=1, timeout=2400)
    if not res.ok or len(res.records) != len(cases):
        raise Machinery("PmappingJoin run failed: %s\n%s" % (res.violated, res.tail))
    for v in res.records:
        job, o, cols = meta[v["id"]]
        ck.traces += 1
        exp = {tuple(x) for x in v["front"]}
        got = {tuple(int(mc.fr(r[c])) for c in cols) for r in o["ret"]}
        case = next(c for c in cases if c["id"] == v["id"])
        mems = {p["mem"] for p in case["P1"]}
        if len(mems) >= 2 and v["pairs"] >= 2:
            ck.count_nontrivial(v["id"])
        if exp != got:
            miss = sorted(exp - got)[:4]
            extra = sorted(got - exp)[:4]
            kind = "join-misses-front-point" if miss else "join-returns-point-not-on-exhaustive-front"
            ck.violation("C13/%s/%s" % (kind, v["id"].split("/")[1]),
                         "spec %s: exhaustive join of compatible pairs (%d pairs, %d distinct sums) has front %s; "
                         "join_pmappings returned %s; missing %s, extra %s"
                         % (v["id"], v["pairs"], v["joined"], sorted(exp)[:8], sorted(got)[:8], miss, extra),
                         {"arch": job[0], "workload": job[1], "metrics": job[2]})
        if len(ck.samples) < 2:
            ck.sample({"case": v["id"], "rows": [len(case["P1"]), len(case["P2"])], "compatible_pairs": v["pairs"],
                       "exhaustive_front": sorted(exp)[:6], "join_front": sorted(got)[:6],
                       "example_pmapping": case["P1"][-1]})
    capacity_part(ck)
    general_part(ck)


def canonical(nodes, bounds):
    """drop loops with a single iteration (tile = current extent): they change nothing"""
    ext = dict(bounds)
    out = []
    for n in nodes:
        if n["kind"] == "T":
            if n["tile"] < ext[n["rv"]]:
                out.append(n)
            ext[n["rv"]] = n["tile"]
        else:
            out.append(n)
    return out


def capacity_part(ck):
    """Second half of the statement: combinations that exceed capacity are dropped, reservations combined by
    lifetimes.  Tight GLB, at most one fused loop (mapper knob max_fused_loops = 1, as in the regression suite);
    spec/FusedNest.tla merges every compatible pair into one fused tree, computes its peak occupancy and keeps
    the pairs that fit; the front of their objective sums must equal join_pmappings' front."""
    from checks import c06
    thorough = ck.tier == "thorough"
    rng = random.Random(ck.seed * 17 + 1313)
    d = os.path.join(ck.work, "cap")
    specs = []
    for _ in range(3 if not thorough else 10):
        a, w, world = c06.chain_spec(rng, 2, glb_choices=(48, 64, 96, 128))
        specs.append((a, w, world))
    jobs = [(a, w, ("ENERGY", "LATENCY"), d, {"max_fused_loops": 1}) for a, w, world in specs]
    with ProcessPoolExecutor(6) as ex:
        outs = list(ex.map(_job, jobs))
    cases, meta = [], {}
    for ji, (job, o) in enumerate(zip(jobs, outs)):
        ck.evaluations += 1
        if "exception" in o:
            ck.impl_errors += 1
            if ck.impl_error_sample is None:
                ck.impl_error_sample = {"case": "cap %d" % ji, "traceback": o["exception"] + "\n" + o["traceback"]}
            continue
        world = specs[ji][2]
        names = list(o["tables"])
        sh = o["shared"][0]
        P = []
        for e in names:
            rows = []
            for r in o["tables"][e]:
                obj = [mc.fr(r["energy"]), mc.fr(r["latency"])]
                if any(x.denominator != 1 for x in obj):
                    raise Machinery("non-integer objective in a pmapping row")
                rows.append({"obj": [int(x) for x in obj], "nodes": canonical(r["nodes"], o["bounds"][e])})
            P.append(rows)
        cid = "cap%d" % ji
        cases.append({"id": cid, "world": world, "sh": sh, "P1": P[0], "P2": P[1]})
        meta[cid] = (job, o)
    if not cases:
        raise Machinery("capacity part: no case recorded; first implementation error: %s" % (ck.impl_error_sample,))
    path = os.path.join(ck.work, "join_cases.json")
    json.dump(cases, open(path, "w"))
    res = ck.tlc("FusedNest", "FusedNest_join.cfg", env={"JOIN_FILE": path, "CASES_FILE": path}, coverage=False,
                 workers=1, timeout=3000)
    if not res.ok or len(res.records) != len(cases):
        raise Machinery("FusedNest join run failed: %s\n%s" % (res.violated, res.tail))
    binding = 0
    for v in res.records:
        job, o = meta[v["id"]]
        ck.traces += 1
        exp = {tuple(x) for x in v["front"]}
        got = {(int(mc.fr(r["energy"])), int(mc.fr(r["latency"]))) for r in o["ret"]}
        if v["valid"] < v["pairs"]:
            binding += 1
            ck.count_nontrivial(("cap", v["id"]))
        if exp != got:
            miss, extra = sorted(exp - got)[:4], sorted(got - exp)[:4]
            kind = "join-misses-front-point" if miss else "join-returns-point-not-on-exhaustive-front"
            ck.violation("C13/capacity/%s" % kind,
                         "spec %s (GLB %s bits, max_fused_loops=1): %d compatible pairs, %d fit; exhaustive front %s; "
                         "join_pmappings returned %s; missing %s, extra %s"
                         % (v["id"], specs[int(v["id"][3:])][2]["size"]["GLB"], v["pairs"], v["valid"], sorted(exp)[:8],
                            sorted(got)[:8], miss, extra),
                         {"arch": job[0], "workload": job[1], "metrics": job[2], "knobs": job[4], "kind": "capacity",
                          "world": specs[int(v["id"][3:])][2]})
        if len(ck.samples) < 5:
            ck.sample({"case": v["id"], "compatible_pairs": v["pairs"], "pairs_that_fit": v["valid"],
                       "exhaustive_front": sorted(exp)[:6], "join_front": sorted(got)[:6]})
    ck.extra["capacity_cases_where_capacity_binds"] = binding
    if binding == 0:
        raise Machinery("vacuity: capacity did not exclude a single compatible pair in any case")


def general_part(ck):
    """The full statement on real tables with any number of fused loops: compatible pairs (same storage, same loops
    and tile shapes, a common loop order), objective sums, usage of the merged tree (FusedNest.MergedG + PeakF) as
    capacity filter and as objective coordinate; front vs join_pmappings with ENERGY|LATENCY|RESOURCE_USAGE."""
    from checks import c02, c06
    thorough = ck.tier == "thorough"
    rng = random.Random(ck.seed * 19 + 4242)
    d = os.path.join(ck.work, "gen")
    specs = []
    import re
    forced = os.environ.get("C13_GENERAL_SPECS")     # debugging aid: "m,n0,n1,n2,glb;..."
    shapes = []
    if forced:
        shapes = [tuple(int(x) for x in f.split(",")) for f in forced.split(";")]
    else:
        # a long shared rank (m) against short ones: the iteration counts of different fused loops differ, so pairing
        # the loops of the two sides in the wrong order (loop-permutation matching) changes which rows are joined
        shapes.append((16, 4, 4, 4, 256))
        for i in range(1 if not thorough else 7):
            shapes.append((rng.choice([4, 8, 16]), rng.choice([2, 4]), rng.choice([2, 4]), rng.choice([2, 4]),
                           rng.choice([256, 512])))
    for mm, n0, n1, n2, glb in shapes:
        a, w, world = c06.chain_spec(rng, 2, glb_choices=(glb,), bound_choices=(2, 4))
        for name, val in (("m", mm), ("n0", n0), ("n1", n1), ("n2", n2)):
            w = re.sub(r"%s: 0 <= %s < \d+" % (name, name), "%s: 0 <= %s < %d" % (name, name, val), w)
            world["bound"][name] = val
        specs.append((a, w, world))
    jobs = [(a, w, ("ENERGY", "LATENCY", "RESOURCE_USAGE"), d) for a, w, world in specs]
    with ProcessPoolExecutor(4) as ex:
        outs = list(ex.map(_job, jobs))
    cases, meta = [], {}
    for ji, (job, o) in enumerate(zip(jobs, outs)):
        ck.evaluations += 1
        if "exception" in o:
            ck.impl_errors += 1
            if ck.impl_error_sample is None:
                ck.impl_error_sample = {"case": "gen %d" % ji, "traceback": o["exception"] + "\n" + o["traceback"]}
            continue
        world = specs[ji][2]
        names = list(o["tables"])
        sh = o["shared"][0]
        P = []
        for e in names:
            rows = []
            for r in o["tables"][e]:
                obj = [mc.fr(r["energy"]), mc.fr(r["latency"])]
                if any(x.denominator != 1 for x in obj):
                    raise Machinery("non-integer objective in a pmapping row")
                rows.append({"obj": [int(x) for x in obj], "nodes": canonical(r["nodes"], o["bounds"][e])})
            P.append(rows)
        cid = "gen%d" % ji
        cases.append({"id": cid, "world": world, "sh": sh, "P1": P[0], "P2": P[1], "usagemems": ["GLB"]})
        meta[cid] = (job, o, world)
    if not cases:
        raise Machinery("general part: no case recorded; first implementation error: %s" % (ck.impl_error_sample,))
    path = os.path.join(ck.work, "joinG_cases.json")
    json.dump(cases, open(path, "w"))
    res = ck.tlc("FusedNest", "FusedNest_joinG.cfg", env={"JOIN_FILE": path, "CASES_FILE": path}, coverage=False,
                 workers=4, timeout=3000)
    if not res.ok or len(res.records) != len(cases):
        raise Machinery("FusedNest general join run failed: %s\n%s" % (res.violated, res.tail))
    for v in res.records:
        job, o, world = meta[v["id"]]
        ck.traces += 1
        size = world["size"]["GLB"]
        exp = {tuple(x) for x in v["front"]}
        got = set()
        for r in o["ret"]:
            u = c02.row_usage({"cols": r["cols"]}, "GLB") * size
            got.add((int(mc.fr(r["energy"])), int(mc.fr(r["latency"])), int(u) if u.denominator == 1 else float(u)))
        ck.count_nontrivial(("gen", v["id"]))
        if exp != got:
            miss, extra = sorted(exp - got)[:4], sorted(got - exp, key=str)[:4]
            kind = "join-misses-front-point" if miss else "join-returns-point-not-on-exhaustive-front"
            ck.violation("C13/general/%s" % kind,
                         "spec %s (bounds %s, GLB %s bits): %d compatible pairs, %d fit; exhaustive (energy, latency, GLB bits) "
                         "front has %d points, join_pmappings returned %d; missing %s, extra %s"
                         % (v["id"], world["bound"], size, v["pairs"], v["valid"], len(exp), len(got), miss, extra),
                         {"arch": job[0], "workload": job[1], "metrics": job[2], "kind": "general", "world": world})
        if len(ck.samples) < 6:
            ck.sample({"case": v["id"], "bounds": world["bound"], "compatible_pairs": v["pairs"], "pairs_that_fit": v["valid"],
                       "front_points": len(exp), "example": sorted(exp)[:4]})


def replay(path):
    rec = json.load(open(path))
    ck = Check("C13", "quick", 0)
    ck.work = os.path.join(os.path.dirname(os.path.abspath(path)), "_replay_tmp")
    os.makedirs(ck.work, exist_ok=True)
    o = _job((rec["arch"], rec["workload"], tuple(rec["metrics"]), ck.work))
    if "exception" in o:
        print(o["exception"], o["traceback"]); return 2
    names = list(o["tables"])
    sh = o["shared"][0]
    cols = ["energy", "latency"] if len(rec["metrics"]) == 2 else ["energy"]
    P = []
    for e in names:
        rows = []
        for r in o["tables"][e]:
            mem, blocks = abstract(r["nodes"], sh, o["bounds"][e])
            rows.append({"obj": [int(mc.fr(r[c])) for c in cols], "mem": mem, "blocks": blocks})
        P.append(rows)
    p = os.path.join(ck.work, "cases.json")
    json.dump([{"id": "r", "k": len(cols), "P1": P[0], "P2": P[1]}], open(p, "w"))
    res = ck.tlc("PmappingJoin", "PmappingJoin.cfg", env={"CASES_FILE": p}, coverage=False, workers=1, timeout=1200)
    exp = {tuple(x) for x in res.records[0]["front"]}
    got = {tuple(int(mc.fr(r[c])) for c in cols) for r in o["ret"]}
    print("exhaustive front:", sorted(exp)); print("join front      :", sorted(got))
    if exp != got:
        print("VIOLATION property=C13 replay=%s" % path)
        return 1
    print("no disagreement on this case")
    return 0
