"""C29 — renames resolve with per-Einsum entries overriding defaults; an expected_count
that does not match is rejected.

Spec: spec/Renames.tla (Resolve(e, name) = the entry given for Einsum e — in the Einsum's
own renames or in the top-level renames under e's name — else the top-level `default`
entry; Rejected = some resolved entry's expected_count differs from the size of its set),
spec/MC_Renames.tla (case generators), on top of spec/SetExpr.tla for the value of a
source expression.  Binding B: TLC prints the rename tables and, per (Einsum, name), the
resolved set, or that the case is rejected; the harness builds the Spec (Workload with
Einsum-local renames + top-level Renames) and reads the evaluated rename of every Einsum
through `Spec._spec_eval_expressions(einsum_name=e)`, both from the evaluated workload
and through an architecture expression that uses the name.
"""
from __future__ import annotations

import json
import multiprocessing
import os
import time
import zlib
from concurrent.futures import ProcessPoolExecutor, ThreadPoolExecutor, as_completed

from harness import tlc as _tlc
from harness.core import Check, Machinery

PID = "C29"
BINOPS = ("&", "|", "-", "^")
SIG_IGNORED = "C29/top-level-per-einsum-entry-ignored"


def join(tokens):
    """TLC prints an expression as the sequence of its tokens; this is the string."""
    return "".join((" %s " % t) if t in BINOPS else t for t in tokens)


# ---------------------------------------------------------------------------- front end
def _entry(name, en):
    d = {"name": name, "source": join(en["src"])}
    if en["cnt"] >= 0:
        d["expected_count"] = en["cnt"]
    return d


def _rename_list(entries, as_dict):
    """the two documented formats: list of {name, source, expected_count} or {name: source}"""
    if as_dict and all("expected_count" not in e for e in entries):
        return {e["name"]: e["source"] for e in entries}
    return entries


def build_spec(rec, fmt):
    """TLC record -> Spec.  fmt (0..3) chooses among input formats the statement does not
    distinguish: bit 0 = dictionary form where no expected_count is given, bit 1 = the
    `default` block last instead of first in the top-level list."""
    from accelforge.frontend.arch import Arch, Compute, Memory
    from accelforge.frontend.spec import Spec
    from accelforge.frontend.workload import Workload
    as_dict, default_last = bool(fmt & 1), bool(fmt & 2)
    names = rec["names"]
    proj = sorted(rec["rv"])
    einsums = []
    for i, e in enumerate(rec["ein"]):
        acc = [{"name": t, "projection": proj} for t in sorted(e["ins"])]
        acc.append({"name": e["out"], "projection": proj, "output": True})
        local = [_entry(names[k]["name"], en) for k, en in enumerate(rec["own"][i]) if en["at"] == "local"]
        einsums.append({"name": "E%d" % (i + 1), "tensor_accesses": acc, "renames": _rename_list(local, as_dict)})
    wl = Workload(rank_sizes={r.upper(): 4 for r in proj}, bits_per_value={"All": 8}, einsums=einsums)

    def block(name, entries):
        b = {"name": name}
        t = [_entry(names[k]["name"], en) for k, en in entries if names[k]["kind"] == "t"]
        r = [_entry(names[k]["name"], en) for k, en in entries if names[k]["kind"] == "r"]
        if t:
            b["tensor_accesses"] = _rename_list(t, as_dict)
        if r:
            b["rank_variables"] = _rename_list(r, as_dict)
        return b

    top = []
    dflt = [(k, en) for k, en in enumerate(rec["dflt"]) if en["at"] == "default"]
    if dflt:
        top.append(block("default", dflt))
    for i in range(len(rec["ein"])):
        ents = [(k, en) for k, en in enumerate(rec["own"][i]) if en["at"] == "top"]
        if ents:
            top.append(block("E%d" % (i + 1), ents))
    if default_last and dflt:
        top = top[1:] + top[:1]
    act = [{"name": "read", "energy": 1, "latency": 0}, {"name": "write", "energy": 1, "latency": 0}]
    arch = Arch(nodes=[
        Memory(name="Main", size=1 << 20, actions=act, leak_power=0, area=0,
               tensors={"keep": "All", "tensor_order_options": [[n["name"]] for n in names]}),
        Compute(name="MAC", actions=[{"name": "compute", "energy": 1, "latency": 1}], leak_power=0, area=0)])
    kw = {"renames": {"einsums": top}} if top else {}
    return Spec(arch=arch, workload=wl, **kw)


def observe(rec, fmt):
    """-> per Einsum either ('raised', text) or ('ok', [[workload route, arch route] per name]);
    a route's value is a sorted list, or None when the name is not defined."""
    from accelforge.util._setexpressions import InvertibleSet
    spec = build_spec(rec, fmt)
    out = []
    for i in range(len(rec["ein"])):
        en = "E%d" % (i + 1)
        try:
            ev = spec._spec_eval_expressions(einsum_name=en)
        except Exception as ex:  # noqa
            out.append(("raised", "%s: %s" % (type(ex).__name__, str(ex)[:400])))
            continue
        row = []
        opts = ev.arch.find("Main").tensors.tensor_order_options
        rl = ev.workload.einsums[en].renames
        for k, n in enumerate(rec["names"]):
            try:
                src = rl[n["name"]].source
                w = sorted(src.instance) if isinstance(src, InvertibleSet) else None
            except KeyError:
                w = None
            a = opts[k][0]
            a = sorted(a.instance) if isinstance(a, InvertibleSet) else None
            row.append([w, a])
        out.append(("ok", row))
    return out


def judge(rec, obs):
    """Compare what TLC printed with what was observed.  -> (list of (signature, text)), impl_error or None"""
    bad, ierr = [], None
    raised = [o for o in obs if o[0] == "raised"]
    if rec["err"]:
        if len(raised) < len(obs):
            if not rec["errI"]:
                bad.append((SIG_IGNORED, "the case must be rejected (an expected_count of a top-level per-Einsum entry "
                                         "does not match) but was accepted"))
            else:
                bad.append(("C29/expected-count-mismatch-accepted",
                            "the case must be rejected (expected_count mismatch) but was accepted"))
        return bad, ierr
    if raised:
        txt = raised[0][1]
        if "xpected count" in txt or "expected_count" in txt:
            bad.append(("C29/rejected-without-mismatch", "no resolved entry has a mismatching expected_count, "
                                                         "but evaluation raised " + txt))
        else:
            ierr = txt
        return bad, ierr
    for i, (st, row) in enumerate(obs):
        for k, n in enumerate(rec["names"]):
            cell = rec["cells"][i][k]
            if not cell["res"]:
                continue  # no entry anywhere: the statement says nothing
            exp = sorted(cell["val"])
            ign = sorted(cell["valI"]) if cell["resI"] else None
            for route, got in zip(("workload.einsums[e].renames", "architecture expression"), row[k]):
                if got == exp:
                    continue
                via = cell["via"]
                if via == "top":
                    sig = SIG_IGNORED if got == ign else "C29/top-level-per-einsum-entry-wrong-source"
                elif via == "local":
                    sig = "C29/einsum-local-entry-wrong-source"
                else:
                    sig = "C29/default-entry-wrong-source"
                bad.append((sig, "Einsum E%d, name %s (given %s): %s gives %s, the definition gives %s"
                            % (i + 1, n["name"], {"top": "in the top-level renames under E%d" % (i + 1),
                                                  "local": "in the Einsum's own renames",
                                                  "default": "only under default"}[via],
                               route, "<undefined>" if got is None else got, exp)))
    return bad, ierr


def _fmt_of(rec):
    return zlib.crc32(json.dumps(rec, sort_keys=True).encode()) & 3


def _chunk(recs):
    out = []
    for r in recs:
        fmt = _fmt_of(r)
        try:
            obs = observe(r, fmt)
        except Exception as ex:  # noqa: building the Spec itself failed
            import traceback
            out.append(([], "".join(traceback.format_exception(type(ex), ex, ex.__traceback__))[-2500:], 0))
            continue
        bad, ierr = judge(r, obs)
        out.append((bad, ierr, len(obs)))
    return out


def _spawn(i):
    time.sleep(0.3)  # keeps the worker busy so that the executor forks all of them now
    return os.getpid()


def _warm(i):
    import accelforge
    import accelforge.frontend.spec  # noqa
    return os.path.dirname(accelforge.__file__)


def _describe(rec):
    d = {"einsums": rec["ein"], "names": rec["names"],
         "default": [_entry(rec["names"][k]["name"], en) for k, en in enumerate(rec["dflt"]) if en["at"] == "default"]}
    for i, row in enumerate(rec["own"]):
        for at in ("local", "top"):
            ents = [_entry(rec["names"][k]["name"], en) for k, en in enumerate(row) if en["at"] == at]
            if ents:
                d["E%d %s" % (i + 1, "own renames" if at == "local" else "in top-level renames")] = ents
    d["expected"] = "rejected" if rec["err"] else [
        {"einsum": "E%d" % (i + 1), "name": rec["names"][k]["name"], "via": c["via"], "set": c["val"]}
        for i, row in enumerate(rec["cells"]) for k, c in enumerate(row) if c["res"]]
    return d


def _nontrivial(rec):
    if rec["err"]:
        return True
    for i, row in enumerate(rec["cells"]):
        for k, c in enumerate(row):
            if c["via"] in ("local", "top") and rec["dflt"][k]["at"] == "default":
                return True
    return False


def run(ck: Check):
    thorough = ck.tier == "thorough"
    seed = ck.seed
    ck.rule = (
        "TLC (spec/MC_Renames.tla) enumerates rename tables over a chain of 1-3 Einsums: for every (Einsum, name) "
        "the entry is absent, in the Einsum's own renames, or in the top-level renames under the Einsum's name (never "
        "both); for every name a `default` entry or none; sources from 2-3 expressions per kind (tensor / rank-variable "
        "renames) and expected_count from {none, 1, 2}. Quick: 1 name x 2 Einsums exhaustively for both kinds; thorough "
        "adds 1 name x 3 Einsums and 2 names x 2 Einsums (no counts); plus random 1-3 Einsums x 1-3 names with compound sources "
        "(-simulate). Cases in which a default entry's expected_count would mismatch in an Einsum that overrides the "
        "name are not generated. Expected set per (Einsum, name) / 'rejected' = Renames!Resolve, Rejected evaluated by "
        "TLC. Non-trivial = rejected, or some name has both a default entry and an entry for an Einsum; distinct by "
        "the whole table.")
    ck.trusted += [
        "checks/c29.py build_spec: structural translation of the printed tables into Workload(einsums[*].renames) and "
        "Renames(einsums=[default, E1, ...]); the choice between the two documented rename formats and the position "
        "of the default block is taken from a hash of the case",
    ]
    ck.assumptions += [
        "sources use only names defined in every Einsum (named sets; rank variables m, n shared by all Einsums)",
        "the whole workload is evaluated by every _spec_eval_expressions call, so rejection is a property of the case, "
        "not of one Einsum",
    ]
    ncpu = os.cpu_count() or 1
    nproc = max(2, min(8 if thorough else 4, ncpu // 2))
    pool = ProcessPoolExecutor(nproc, mp_context=multiprocessing.get_context("fork"))
    list(pool.map(_spawn, range(nproc)))        # fork the workers before any thread exists
    warm = [pool.submit(_warm, i) for i in range(nproc)]  # accelforge is imported while TLC runs
    sim = {"simulate": "num=1", "timeout": 3000}
    jobs = [("e2n1", "MC_Renames_e2n1.cfg", {})]
    if thorough:
        jobs = [("e3n1", "MC_Renames_e3n1.cfg", {}), ("e2n2", "MC_Renames_e2n2.cfg", {})] + jobs
    jobs.append(("rand", "MC_Renames_rand.cfg", dict(sim, depth=15000 if thorough else 1000, seed=seed * 1000 + 29)))
    timing, total, vias = {}, 0, {"local": 0, "top": 0, "default": 0, "none": 0}
    rejected = 0

    def one(job):
        label, cfg, kw = job
        kw = dict(kw)
        kw.setdefault("timeout", 3000)
        kw.setdefault("env", {})["JAVA_TOOL_OPTIONS"] = "-XX:ParallelGCThreads=2"  # the machine is shared
        return label, _tlc.run("MC_Renames", cfg, workdir=ck.work, coverage=False, workers=1, **kw)

    try:
        with ThreadPoolExecutor(4) as tp:
            futs = [tp.submit(one, j) for j in jobs]
            for f in as_completed(futs):
                label, res = f.result()
                ck.states += res.distinct
                ck.transitions += res.generated
                ck.tlc_cmds.append(res.cmd)
                if not res.ok:
                    raise Machinery("generator %s failed: %s\n%s" % (label, res.violated, res.tail))
                recs = [r for r in res.records if r.get("k") == "ren"]
                if not recs:
                    raise Machinery("generator %s printed no cases" % label)
                t0 = time.time()
                chunks = [recs[i:i + 50] for i in range(0, len(recs), 50)]
                for part, outs in zip(chunks, pool.map(_chunk, chunks)):
                    for r, (bad, ierr, nev) in zip(part, outs):
                        ck.traces += 1
                        ck.evaluations += max(nev, 1)
                        total += 1
                        rejected += bool(r["err"])
                        for row in r["cells"]:
                            for c in row:
                                vias[c["via"]] += 1
                        if ierr is not None:
                            ck.impl_errors += 1
                            if ck.impl_error_sample is None:
                                ck.impl_error_sample = {"case": _describe(r), "traceback": ierr}
                        for sig, text in bad:
                            ck.violation(sig, text + "\ncase: " + json.dumps(_describe(r)),
                                         {"rec": r, "fmt": _fmt_of(r), "generator": label})
                        if _nontrivial(r):
                            ck.count_nontrivial(json.dumps(r, sort_keys=True))
                ck.sample({"generator": label, **_describe(recs[len(recs) // 2])})
                timing[label] = {"tlc_s": round(res.wall_s, 1), "cases": len(recs), "replay_s": round(time.time() - t0, 1)}
                del recs, res
    finally:
        pool.shutdown()
    for v in ("local", "top", "default"):
        if vias[v] == 0:
            raise Machinery("vacuity: no (Einsum, name) cell resolved via %s" % v)
    if rejected == 0 or rejected == total:
        raise Machinery("vacuity: rejected cases %d of %d" % (rejected, total))
    ck.extra["accelforge_path"] = warm[0].result()
    ck.exhaustive = False
    ck.extra["exhaustive_parts"] = [j[0] for j in jobs if j[0] != "rand"]
    ck.extra["timing"] = timing
    ck.extra["cells_by_resolution"] = vias
    ck.extra["cases"] = total
    ck.extra["cases_rejected_by_definition"] = rejected


def replay(path):
    doc = json.load(open(path))
    rec, fmt = doc["rec"], doc["fmt"]
    print("case:", json.dumps(_describe(rec), indent=1))
    obs = observe(rec, fmt)
    for i, o in enumerate(obs):
        print("implementation E%d:" % (i + 1), o[0], o[1] if o[0] == "raised" else
              {rec["names"][k]["name"]: {"workload": w, "arch": a} for k, (w, a) in enumerate(o[1])})
    bad, ierr = judge(rec, obs)
    if ierr:
        print("implementation error (not a verdict):", ierr)
    for sig, text in bad:
        print("  ", sig, "--", text)
    if bad:
        print("VIOLATION property=C29 replay=%s" % path)
        return 1
    print("no disagreement on this case")
    return 0
