"""C28 — result breakdowns aggregate consistently to the reported totals.

Spec: spec/Breakdown.tla — a result row is a finite function (einsum, component, tensor,
action) |-> value (energy, action counts), (einsum, component) |-> latency and
(memory, column) |-> reservation; every accessor of the Mappings API is a projection
(sum / max) of these base tables.  Binding C: the base tables are RECORDED from real
results (raw columns), TLC computes every projection for every combination of the per_*
flags, and the harness compares them with what Mappings.energy / actions / latency /
resource_usage return, and with the Total<SEP>... columns.  Results come from the real
mapper and evaluate_mapping on 1- and 2-Einsum micro-specs.
"""
from __future__ import annotations

import itertools
import json
import math
import os
import random
import traceback
from concurrent.futures import ProcessPoolExecutor
from fractions import Fraction

from checks import mapper_common as mc
from harness import microspec as ms
from harness.core import Check, Machinery

REL = Fraction(1, 2 ** 22)


def _close(a, b):
    return a == b or abs(a - b) <= REL * max(abs(a), abs(b))


def two_einsum_yaml(rng):
    m, kn = rng.choice([2, 4]), rng.choice([2, 4])
    glb = rng.choice([64, 128, 512])
    e = [rng.randint(1, 8) for _ in range(5)]
    arch = """
arch:
  nodes:
  - !Memory
    name: DRAM
    size: inf
    leak_power: %d
    area: 0
    tensors: {keep: ~Intermediates, may_keep: All}
    actions:
    - {name: read, energy: %d, throughput: 2}
    - {name: write, energy: %d, throughput: 2}
  - !Memory
    name: GLB
    size: %d
    leak_power: 1
    area: 0
    tensors: {keep: ~DRAM, may_keep: All}
    actions:
    - {name: read, energy: %d, throughput: 4}
    - {name: write, energy: %d, throughput: inf}
  - !Compute
    name: MAC
    leak_power: 0
    area: 0
    actions:
    - {name: compute, energy: %d, throughput: 1}
""" % (rng.choice([0, 1]), e[0], e[1], glb, e[2], e[3], e[4])
    wl = """
workload:
  iteration_space_shape:
    m: 0 <= m < %d
    n0: 0 <= n0 < %d
    n1: 0 <= n1 < %d
    n2: 0 <= n2 < %d
  bits_per_value: {All: 8}
  einsums:
  - name: M0
    tensor_accesses:
    - {name: T0, projection: [m, n0]}
    - {name: W0, projection: [n0, n1]}
    - {name: T1, projection: [m, n1], output: True}
  - name: M1
    tensor_accesses:
    - {name: T1, projection: [m, n1]}
    - {name: W1, projection: [n1, n2]}
    - {name: T2, projection: [m, n2], output: True}
""" % (m, kn, kn, kn)
    return arch, wl


def _job(args):
    kind, payload, metrics, d = args
    try:
        from accelforge.frontend.spec import Spec
        from accelforge.mapper import Metrics
        from accelforge.mapper.FFM.main import map_workload_to_arch
        from accelforge.util.parallel import set_n_parallel_jobs
        import functools, operator
        set_n_parallel_jobs(1)
        os.makedirs(d, exist_ok=True)
        os.chdir(d)
        tag = "b%d" % os.getpid()
        pa, pw = os.path.join(d, tag + "_a.yaml"), os.path.join(d, tag + "_w.yaml")
        if kind == "world":
            a, wl = ms.arch_yaml(payload, mc.keep_yaml(payload)), ms.workload_yaml(payload)
        else:
            a, wl = payload
        open(pa, "w").write(a)
        open(pw, "w").write(wl)
        spec = Spec.from_yaml(pa, pw)
        spec.mapper.metrics = functools.reduce(operator.or_, [getattr(Metrics, m) for m in metrics])
        r = map_workload_to_arch(spec, print_progress=False)
        out = []
        for i in range(len(r.data)):
            one = r[i]
            row = r.data.iloc[i]
            rec = {"cols": {}, "energy": {}, "actions": {}, "latency": {}}
            for c in r.data.columns:
                if "mapping" in c.split("<SEP>"):
                    continue
                try:
                    rec["cols"][c] = mc._x(row[c])
                except Exception:
                    pass
            for f in itertools.product([False, True], repeat=4):
                v = one.energy(per_einsum=f[0], per_component=f[1], per_tensor=f[2], per_action=f[3])
                rec["energy"]["".join("01"[x] for x in f)] = _dump(v)
            for f in itertools.product([False, True], repeat=3):
                v = one.actions(per_einsum=f[0], per_component=f[1], per_tensor=f[2])
                rec["actions"]["".join("01"[x] for x in f)] = _dump(v)
            for f in itertools.product([False, True], repeat=2):
                v = one.latency(per_einsum=f[0], per_component=f[1])
                rec["latency"]["".join("01"[x] for x in f)] = _dump(v)
            rec["usage"] = _dump(one.resource_usage())
            out.append(rec)
        return {"rows": out}
    except Exception as e:
        return {"exception": "%s: %s" % (type(e).__name__, e), "traceback": traceback.format_exc()[-3000:]}


def _dump(v):
    if isinstance(v, dict):
        return [[list(k) if isinstance(k, tuple) else [k], mc._x(x)] for k, x in v.items()]
    return mc._x(v)


def base_tables(cols):
    """Raw columns -> base tables (structural: split the column name)."""
    en, ac, la, rs = [], [], [], []
    for c, v in cols.items():
        if isinstance(v, str):
            continue
        p = c.split("<SEP>")
        val = mc.fr(v)
        if len(p) >= 2 and p[1] == "energy" and p[0] != "Total":
            if len(p) == 5:
                en.append((p[0], p[2], p[3], p[4], val))
            elif len(p) == 4 and p[3] == "leak":
                en.append((p[0], p[2], "-", "leak", val))
        elif len(p) == 5 and p[1] == "action":
            ac.append((p[0], p[2], p[3], p[4], val))
        elif len(p) == 3 and p[1] == "latency" and p[0] != "Total":
            la.append((p[0], p[2], val))
        elif p[0] == "reservation" and len(p) == 4:
            rs.append((p[1], p[2] + "/" + p[3], val))
    return en, ac, la, rs


def scale(rows):
    d = 1
    for r in rows:
        d = d * r[-1].denominator // math.gcd(d, r[-1].denominator)
    return d


def run(ck: Check):
    thorough = ck.tier == "thorough"
    ck.rule = ("results of the real mapper on single-Einsum micro-specs and on 2-Einsum matmul chains (ENERGY|LATENCY so that "
               "several rows are returned); per returned row the raw per-Einsum columns are the base tables; TLC computes all "
               "16 energy, 8 action, 4 latency projections and the usage view. Non-trivial = row with at least two Einsums or "
               "at least two components with non-zero energy; distinct by (spec, row).")
    ck.level = "model_checking"
    rng = random.Random(ck.seed * 31 + 7)
    jobs = []
    d = os.path.join(ck.work, "runs")
    for i in range(3 if not thorough else 10):
        jobs.append(("yaml", two_einsum_yaml(rng), ("ENERGY", "LATENCY"), d))
    for w in mc.mapper_worlds(ck, 3 if not thorough else 12, 2000):
        jobs.append(("world", w, ("ENERGY", "LATENCY"), d))
    with ProcessPoolExecutor(8) as ex:
        outs = list(ex.map(_job, jobs))
    cases, recs = [], {}
    for j, o in enumerate(outs):
        ck.evaluations += 1
        if "exception" in o:
            ck.impl_errors += 1
            if ck.impl_error_sample is None:
                ck.impl_error_sample = {"case": str(jobs[j][0]), "traceback": o["traceback"]}
            continue
        for i, rec in enumerate(o["rows"][: (4 if not thorough else 12)]):
            en, ac, la, rs = base_tables(rec["cols"])
            sc = {"energy": scale(en), "actions": scale(ac), "latency": scale(la), "reservations": scale(rs)}
            if max(sc.values()) > 2 ** 12 or any(abs(r[-1]) * sc[k] > 2 ** 27 for k, rows in
                                                  (("energy", en), ("actions", ac), ("latency", la), ("reservations", rs)) for r in rows):
                ck.extra["skipped_large_numbers"] = ck.extra.get("skipped_large_numbers", 0) + 1
                continue
            cid = "%d/%d" % (j, i)
            cases.append({"id": cid,
                          "energy": [{"e": r[0], "c": r[1], "t": r[2], "a": r[3], "v": int(r[4] * sc["energy"])} for r in en],
                          "actions": [{"e": r[0], "c": r[1], "t": r[2], "a": r[3], "v": int(r[4] * sc["actions"])} for r in ac],
                          "latency": [{"e": r[0], "c": r[1], "v": int(r[2] * sc["latency"])} for r in la],
                          "reservations": [{"m": r[0], "col": r[1], "v": int(r[2] * sc["reservations"])} for r in rs]})
            recs[cid] = (rec, sc, jobs[j])
    if not cases:
        raise Machinery("no result rows were recorded")
    path = os.path.join(ck.work, "cases.json")
    json.dump(cases, open(path, "w"))
    res = ck.tlc("Breakdown", "Breakdown.cfg", env={"CASES_FILE": path}, coverage=False, workers=1, timeout=1800)
    if not res.ok or len(res.records) != len(cases):
        raise Machinery("Breakdown run failed: %s\n%s" % (res.violated, res.tail))
    for v in res.records:
        rec, sc, job = recs[v["id"]]
        ck.traces += 1
        bad = compare(v, rec, sc)
        einsums = {r["e"] for r in next(c for c in cases if c["id"] == v["id"])["energy"]}
        if len(einsums) >= 2 or len({r["c"] for r in next(c for c in cases if c["id"] == v["id"])["energy"] if r["v"]}) >= 2:
            ck.count_nontrivial(v["id"])
        if bad:
            which, flags, key, exp, got = bad[0]
            ck.violation("C28/%s/%s" % (which, flags),
                         "result row %s: %s(flags=%s) key %s: projection of the raw columns gives %s, accessor returns %s "
                         "(%d differences)" % (v["id"], which, flags, key, exp, got, len(bad)),
                         {"job": job[:3], "row": v["id"].split("/")[1]})
        if len(ck.samples) < 3:
            ck.sample({"row": v["id"], "einsums": sorted(einsums), "lat_total_spec": v["lat_total"],
                       "energy_total_spec": [x for x in v["energy"] if not any(x["flags"])][0]["rows"]})


def _asdict(dumped):
    if isinstance(dumped, list) and dumped and isinstance(dumped[0], list) and isinstance(dumped[0][0], list):
        return {tuple("-" if k is None else str(k) for k in kk): mc.fr(x) for kk, x in dumped}
    return None


def compare(v, rec, sc):
    bad = []
    # energy and actions
    for which, nflags in (("energy", 4), ("actions", 3)):
        for ent in v[which]:
            f = ent["flags"]
            fkey = "".join("01"[x] for x in f[:nflags])
            if which == "actions" and not f[3]:
                continue
            got = rec[which].get(fkey)
            exp = {tuple(k for k, keep in zip(r["k"], f) if keep): Fraction(r["v"], sc[which]) for r in ent["rows"]}
            gd = _asdict(got)
            if gd is None:  # scalar
                g = mc.fr(got) if not isinstance(got, str) else None
                e = sum(exp.values())
                if g is None or not _close(g, e):
                    bad.append((which, fkey, "()", str(e), str(g)))
                continue
            for k, e in exp.items():
                kk = tuple("-" if x is None else x for x in k)
                g = gd.get(kk)
                if g is None:
                    g = gd.get(tuple(None if x == "-" else x for x in kk))
                if g is None and e == 0:
                    continue
                if g is None or not _close(g, e):
                    bad.append((which, fkey, str(kk), str(e), str(g)))
            for k, g in gd.items():
                if k not in exp and g != 0:
                    bad.append((which, fkey, str(k), "absent", str(g)))
    # latency
    lat = rec["latency"]
    both = {tuple(r["k"]): Fraction(r["v"], sc["latency"]) for r in v["lat_both"]}
    per_e = {r["k"][0]: Fraction(r["v"], sc["latency"]) for r in v["lat_einsum"]}
    per_c = {r["k"][1]: Fraction(r["v"], sc["latency"]) for r in v["lat_comp"]}
    tot = Fraction(v["lat_total"], sc["latency"])
    for fkey, exp in (("11", both), ("10", per_e), ("01", per_c)):
        gd = _asdict(lat[fkey]) or {}
        for k, e in exp.items():
            kk = k if isinstance(k, tuple) else (k,)
            g = gd.get(tuple(str(x) for x in kk))
            if g is None or not _close(g, e):
                bad.append(("latency", fkey, str(kk), str(e), str(g)))
    g = mc.fr(lat["00"]) if not isinstance(lat["00"], (str, list)) or (isinstance(lat["00"], list) and len(lat["00"]) == 2 and not isinstance(lat["00"][0], list)) else None
    if g is None or not _close(g, tot):
        bad.append(("latency", "00", "()", str(tot), str(g)))
    # totals columns
    tl = rec["cols"].get("Total<SEP>latency")
    if tl is not None and not isinstance(tl, str) and not _close(mc.fr(tl), tot):
        bad.append(("latency", "Total-column", "()", str(tot), str(mc.fr(tl))))
    etot = sum(Fraction(r["v"], sc["energy"]) for r in [x for x in v["energy"] if not any(x["flags"])][0]["rows"])
    te = rec["cols"].get("Total<SEP>energy")
    if te is not None and not isinstance(te, str) and not _close(mc.fr(te), etot):
        bad.append(("energy", "Total-column", "()", str(etot), str(mc.fr(te))))
    # usage
    gd = _asdict(rec["usage"]) or {}
    for r in v["usage"]:
        e = Fraction(r["v"], sc["reservations"])
        g = gd.get((r["k"],))
        if g is None or not _close(g, e):
            bad.append(("resource_usage", "-", r["k"], str(e), str(g)))
    return bad


def replay(path):
    rec = json.load(open(path))
    ck = Check("C28", "quick", 0)
    ck.work = os.path.join(os.path.dirname(os.path.abspath(path)), "_replay_tmp")
    kind, payload, metrics = rec["job"]
    o = _job((kind, tuple(payload) if kind == "yaml" else payload, tuple(metrics), ck.work))
    if "exception" in o:
        print(o["traceback"]); return 2
    row = o["rows"][int(rec["row"])]
    en, ac, la, rs = base_tables(row["cols"])
    sc = {"energy": scale(en), "actions": scale(ac), "latency": scale(la), "reservations": scale(rs)}
    case = {"id": "r",
            "energy": [{"e": r[0], "c": r[1], "t": r[2], "a": r[3], "v": int(r[4] * sc["energy"])} for r in en],
            "actions": [{"e": r[0], "c": r[1], "t": r[2], "a": r[3], "v": int(r[4] * sc["actions"])} for r in ac],
            "latency": [{"e": r[0], "c": r[1], "v": int(r[2] * sc["latency"])} for r in la],
            "reservations": [{"m": r[0], "col": r[1], "v": int(r[2] * sc["reservations"])} for r in rs]}
    p = os.path.join(ck.work, "cases.json")
    json.dump([case], open(p, "w"))
    res = ck.tlc("Breakdown", "Breakdown.cfg", env={"CASES_FILE": p}, coverage=False, workers=1, timeout=600)
    bad = compare(res.records[0], row, sc)
    for b in bad[:10]:
        print(b)
    if bad:
        print("VIOLATION property=C28 replay=%s" % path)
        return 1
    print("no disagreement on this case")
    return 0
