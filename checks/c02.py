"""C02 — the returned Pareto front is complete, non-dominated and duplicate-free.

Spec: spec/Mapspace.tla enumerates the mapspace; spec/Fronts.tla (on spec/Pareto.tla)
decides the three clauses on the recorded objective vectors: (1) every valid enumerated
mapping is weakly dominated by some returned mapping, (2) no returned mapping is strictly
dominated by another returned one, (3) no two returned mappings have identical objective
vectors.  Objective vectors: (energy, latency) and, with RESOURCE_USAGE, the usage of
every finite memory as further coordinates.
"""
from __future__ import annotations

import json
import random
import re
from fractions import Fraction

from checks import c01
from checks import mapper_common as mc
from harness import loopnest as ln
from harness import microspec as ms
from harness.core import Check, Machinery

MSETS = [("ENERGY", "LATENCY"), ("ENERGY", "LATENCY", "RESOURCE_USAGE")]


def finite_mems(w):
    return [c for c in sorted(w["level"], key=lambda c: w["level"][c]) if w["size"][c] and not w["istoll"][c]]


def row_usage(row, m):
    best = Fraction(0)
    for k, v in row["cols"].items():
        p = k.split("<SEP>")
        if p[0] == "reservation" and p[1] == m and not isinstance(v, str):
            best = max(best, mc.fr(v))
    return best


def vec_cand(w, mset, out):
    v = [out["energy"], out["latency"]]
    if "RESOURCE_USAGE" in mset:
        v += [out["usage"].get(m, Fraction(0)) for m in finite_mems(w)]
    return v


def vec_ret(w, mset, row):
    v = [mc.fr(row["totals"]["energy"]), mc.fr(row["totals"]["latency"])]
    if "RESOURCE_USAGE" in mset:
        v += [row_usage(row, m) for m in finite_mems(w)]
    return v


def _chain_job(args):
    arch, wl, metrics, d = args
    import os, traceback
    try:
        import functools, operator
        from accelforge.frontend.spec import Spec
        from accelforge.mapper import Metrics
        from accelforge.mapper.FFM.main import map_workload_to_arch
        from accelforge.util.parallel import set_n_parallel_jobs
        from checks import c14
        set_n_parallel_jobs(1)
        os.makedirs(d, exist_ok=True)
        os.chdir(d)
        tag = "c%d" % os.getpid()
        pa, pw = os.path.join(d, tag + "_a.yaml"), os.path.join(d, tag + "_w.yaml")
        open(pa, "w").write(arch)
        open(pw, "w").write(wl)
        spec = Spec.from_yaml(pa, pw)
        spec.mapper.metrics = functools.reduce(operator.or_, [getattr(Metrics, m) for m in metrics])
        r = map_workload_to_arch(spec, print_progress=False)
        return {"rows": c14._rows(r)}
    except Exception as e:
        return {"exception": "%s: %s" % (type(e).__name__, e), "traceback": traceback.format_exc()[-3000:]}


def chain_specs(ck):
    """2- and 3-matmul chains (fused mapspace, not enumerable here): DRAM + a GLB that is either tight or so large that
    it never binds, slow and expensive DRAM in some, so that the energy-latency front has several points and ties."""
    from checks import c06
    thorough = ck.tier == "thorough"
    rng = random.Random(ck.seed * 53 + 202)
    specs = []
    for n, glbs, bc in ((3, (1 << 20,), (4,)), (3, (1 << 20,), (2, 4)), (2, (1 << 20,), (4, 8)), (3, (256, 512), (2, 4)))[: 4 if thorough else 3]:
        for rep in range(2 if thorough else 1):
            a, w, world = c06.chain_spec(rng, n, glb_choices=glbs, bound_choices=bc, m=4)
            # several DRAM / GLB cost ratios: a slow GLB and an expensive DRAM give latency ties at different energies
            tp, e_dram = rng.choice([(1, 10), (4, 2), (2, 8)])
            a = a.replace("throughput: 4}", "throughput: %d}" % tp)
            a = re.sub(r"energy: \d+, throughput: 2}", "energy: %d, throughput: 2}" % e_dram, a, count=1)
            specs.append((a, w, world))
    return specs


def chain_part(ck):
    """Clauses (2) and (3) on fused mapspaces that cannot be enumerated: the front the mapper returns for matmul chains
    must not contain a mapping strictly dominated by another returned one, nor two with one objective vector
    (decided by spec/Fronts.tla with the returned set as its own candidate set; completeness is C13 / C14's part)."""
    import os
    from concurrent.futures import ProcessPoolExecutor
    specs = chain_specs(ck)
    d = os.path.join(ck.work, "chains")
    jobs = [(a, w, mset, d) for a, w, world in specs for mset in MSETS]
    with ProcessPoolExecutor(6) as ex:
        outs = list(ex.map(_chain_job, jobs))
    cases, meta = [], {}
    for ji, (job, o) in enumerate(zip(jobs, outs)):
        ck.evaluations += 1
        if "exception" in o:
            ck.impl_errors += 1
            if ck.impl_error_sample is None:
                ck.impl_error_sample = {"case": "chain job %d" % ji, "traceback": o["exception"] + "\n" + o["traceback"]}
            continue
        world, mset = specs[ji // len(MSETS)][2], job[2]
        ret = [vec_ret(world, mset, row) for row in o["rows"]]
        if not ret:
            continue
        rc, rr = mc.rank_columns(ret, ret)
        cid = "chain%d/%s" % (ji, "+".join(mset))
        cases.append({"id": cid, "kind": "front", "cands": rc, "ret": rr})
        meta[cid] = (job, ret)
    if not cases:
        raise Machinery("no chain run produced a result")
    verdicts = mc.fronts_verdicts(ck, cases, tag="chainfronts")
    sizes = []
    for cid, v in verdicts.items():
        job, ret = meta[cid]
        ck.traces += 1
        sizes.append(len(ret))
        if len(ret) >= 2:
            ck.count_nontrivial(cid)
        for clause, name in (("dominated", "returned-mapping-dominated"), ("duplicate", "duplicate-objective-vector")):
            if v[clause]:
                r = v[clause] - 1
                ck.violation("C02/chain/%s/%s" % (name, "+".join(job[2])),
                             "matmul chain: returned mapping #%d with objectives %s is %s; returned front (%d rows): %s"
                             % (r, [str(x) for x in ret[r]],
                                "strictly dominated by another returned mapping" if clause == "dominated" else "returned twice",
                                len(ret), [[str(x) for x in q] for q in ret][:16]),
                             {"chain": {"arch": job[0], "workload": job[1]}, "metrics": list(job[2]), "clause": clause})
                break
    ck.extra["chain_front_sizes"] = sizes


def run(ck: Check):
    thorough = ck.tier == "thorough"
    chain_part(ck)
    ck.rule = ("micro-specs and enumeration as in C01; the mapper runs with ENERGY|LATENCY and ENERGY|LATENCY|RESOURCE_USAGE; "
               "TLC decides completeness / non-dominance / no duplicates on rank-transformed vectors. Non-trivial = "
               "(micro-spec, metric set) whose enumerated front has at least two points; distinct by (world, metrics).")
    worlds = c01.microspecs(ck, 3 if not thorough else 20, start=200)
    priced, results = c01.collect(ck, worlds, MSETS)
    byid = {w["id"]: w for w in worlds}
    cases, meta = [], {}
    for (wid, mset), res in results.items():
        w = byid[wid]
        ck.evaluations += 1
        if "exception" in res:
            ck.impl_errors += 1
            if ck.impl_error_sample is None:
                ck.impl_error_sample = {"case": {"world": wid, "metrics": mset}, "traceback": res["traceback"]}
            continue
        valid = [(n, o) for n, o in priced[wid] if "energy" in o]
        cands = [vec_cand(w, mset, o) for n, o in valid]
        ret = [vec_ret(w, mset, row) for row in res["rows"]]
        rc, rr = mc.rank_columns(cands, ret)
        cid = "%d/%s" % (wid, "+".join(mset))
        cases.append({"id": cid, "kind": "front", "cands": rc, "ret": rr})
        meta[cid] = (w, mset, valid, cands, ret, res)
    if not cases:
        raise Machinery("no mapper run produced a result")
    verdicts = mc.fronts_verdicts(ck, cases)
    for cid, v in verdicts.items():
        w, mset, valid, cands, ret, res = meta[cid]
        ck.traces += 1
        if v["nret"] >= 2:
            ck.count_nontrivial(cid)
        if v["uncovered"]:
            k = v["uncovered"] - 1
            nodes, out = valid[k]
            ck.violation("C02/front-incomplete/%s" % "+".join(mset),
                         "world %d: valid mapping %s with objectives %s is not weakly dominated by any of the %d returned "
                         "mappings %s" % (w["id"], ln.short(nodes), [str(x) for x in cands[k]], len(ret),
                                          [[str(x) for x in r] for r in ret][:6]),
                         {"world": w, "nodes": nodes, "metrics": mset, "clause": "complete"})
        elif v["dominated"]:
            r = v["dominated"] - 1
            ck.violation("C02/returned-mapping-dominated/%s" % "+".join(mset),
                         "world %d: returned mapping #%d %s with objectives %s is strictly dominated by another returned "
                         "mapping; returned: %s" % (w["id"], r, ln.short(res["rows"][r].get("nodes") or []),
                                                    [str(x) for x in ret[r]], [[str(x) for x in q] for q in ret][:8]),
                         {"world": w, "metrics": mset, "clause": "nondominated", "nodes": res["rows"][r].get("nodes")})
        elif v["duplicate"]:
            r = v["duplicate"] - 1
            ck.violation("C02/duplicate-objective-vector/%s" % "+".join(mset),
                         "world %d: returned mappings contain the objective vector %s twice (row %d: %s)"
                         % (w["id"], [str(x) for x in ret[r]], r, ln.short(res["rows"][r].get("nodes") or [])),
                         {"world": w, "metrics": mset, "clause": "nodup", "nodes": res["rows"][r].get("nodes")})
        if len(ck.samples) < 4:
            ck.sample({"world": {"kind": w["kind"], "bound": w["bound"], "size": w["size"]}, "metrics": mset,
                       "valid_enumerated": len(valid), "returned": [[str(x) for x in r] for r in ret][:8],
                       "returned_not_in_enumeration": v["unmatched"]})
    ck.extra["returned_vectors_not_matched_by_any_enumerated_mapping"] = sum(v["unmatched"] for v in verdicts.values())


def replay(path):
    import os
    from harness.core import Check
    rec = json.load(open(path))
    ck = Check("C02", "quick", 0)
    ck.work = os.path.join(os.path.dirname(os.path.abspath(path)), "_replay_tmp")
    os.makedirs(ck.work, exist_ok=True)
    if "chain" in rec:
        mset = tuple(rec["metrics"])
        o = _chain_job((rec["chain"]["arch"], rec["chain"]["workload"], mset, os.path.join(ck.work, "chain")))
        if "exception" in o:
            print(o["traceback"]); return 2
        world = {"level": {"DRAM": 0, "GLB": 1}, "istoll": {"DRAM": False, "GLB": False}, "size": {"DRAM": 0, "GLB": 1}}
        ret = [vec_ret(world, mset, row) for row in o["rows"]]
        rc, rr = mc.rank_columns(ret, ret)
        v = mc.fronts_verdicts(ck, [{"id": "r", "kind": "front", "cands": rc, "ret": rr}])["r"]
        print("verdict:", v)
        print("returned:", [[str(x) for x in r] for r in ret])
        if v["dominated"] or v["duplicate"]:
            print("VIOLATION property=C02 replay=%s" % path)
            return 1
        print("no disagreement on this case")
        return 0
    w, mset = rec["world"], tuple(rec["metrics"])
    priced, results = c01.collect(ck, [w], [mset])
    res = results[(w["id"], mset)]
    if "exception" in res:
        print(res["traceback"]); return 2
    valid = [(n, o) for n, o in priced[w["id"]] if "energy" in o]
    cands = [vec_cand(w, mset, o) for n, o in valid]
    ret = [vec_ret(w, mset, row) for row in res["rows"]]
    rc, rr = mc.rank_columns(cands, ret)
    v = mc.fronts_verdicts(ck, [{"id": "r", "kind": "front", "cands": rc, "ret": rr}])["r"]
    print("verdict:", v)
    print("returned:", [[str(x) for x in r] for r in ret])
    if v["uncovered"] or v["dominated"] or v["duplicate"]:
        print("VIOLATION property=C02 replay=%s" % path)
        return 1
    print("no disagreement on this case")
    return 0
