"""C02 — the returned Pareto front is complete, non-dominated and duplicate-free.

Spec: spec/Mapspace.tla enumerates the mapspace; spec/Fronts.tla (on spec/Pareto.tla)
decides the three clauses on the recorded objective vectors: (1) every valid enumerated
mapping is weakly dominated by some returned mapping, (2) no returned mapping is strictly
dominated by another returned one, (3) no two returned mappings have identical objective
vectors.  Objective vectors: (energy, latency) and, with RESOURCE_USAGE, the usage of
every finite memory as further coordinates.
"""
from __future__ import annotations

import json
import random
from fractions import Fraction

from checks import c01
from checks import mapper_common as mc
from harness import loopnest as ln
from harness import microspec as ms
from harness.core import Check, Machinery

MSETS = [("ENERGY", "LATENCY"), ("ENERGY", "LATENCY", "RESOURCE_USAGE")]


def finite_mems(w):
    return [c for c in sorted(w["level"], key=lambda c: w["level"][c]) if w["size"][c] and not w["istoll"][c]]


def row_usage(row, m):
    best = Fraction(0)
    for k, v in row["cols"].items():
        p = k.split("<SEP>")
        if p[0] == "reservation" and p[1] == m and not isinstance(v, str):
            best = max(best, mc.fr(v))
    return best


def vec_cand(w, mset, out):
    v = [out["energy"], out["latency"]]
    if "RESOURCE_USAGE" in mset:
        v += [out["usage"].get(m, Fraction(0)) for m in finite_mems(w)]
    return v


def vec_ret(w, mset, row):
    v = [mc.fr(row["totals"]["energy"]), mc.fr(row["totals"]["latency"])]
    if "RESOURCE_USAGE" in mset:
        v += [row_usage(row, m) for m in finite_mems(w)]
    return v


def run(ck: Check):
    thorough = ck.tier == "thorough"
    ck.rule = ("micro-specs and enumeration as in C01; the mapper runs with ENERGY|LATENCY and ENERGY|LATENCY|RESOURCE_USAGE; "
               "TLC decides completeness / non-dominance / no duplicates on rank-transformed vectors. Non-trivial = "
               "(micro-spec, metric set) whose enumerated front has at least two points; distinct by (world, metrics).")
    worlds = c01.microspecs(ck, 3 if not thorough else 20, start=200)
    priced, results = c01.collect(ck, worlds, MSETS)
    byid = {w["id"]: w for w in worlds}
    cases, meta = [], {}
    for (wid, mset), res in results.items():
        w = byid[wid]
        ck.evaluations += 1
        if "exception" in res:
            ck.impl_errors += 1
            if ck.impl_error_sample is None:
                ck.impl_error_sample = {"case": {"world": wid, "metrics": mset}, "traceback": res["traceback"]}
            continue
        valid = [(n, o) for n, o in priced[wid] if "energy" in o]
        cands = [vec_cand(w, mset, o) for n, o in valid]
        ret = [vec_ret(w, mset, row) for row in res["rows"]]
        rc, rr = mc.rank_columns(cands, ret)
        cid = "%d/%s" % (wid, "+".join(mset))
        cases.append({"id": cid, "kind": "front", "cands": rc, "ret": rr})
        meta[cid] = (w, mset, valid, cands, ret, res)
    if not cases:
        raise Machinery("no mapper run produced a result")
    verdicts = mc.fronts_verdicts(ck, cases)
    for cid, v in verdicts.items():
        w, mset, valid, cands, ret, res = meta[cid]
        ck.traces += 1
        if v["nret"] >= 2:
            ck.count_nontrivial(cid)
        if v["uncovered"]:
            k = v["uncovered"] - 1
            nodes, out = valid[k]
            ck.violation("C02/front-incomplete/%s" % "+".join(mset),
                         "world %d: valid mapping %s with objectives %s is not weakly dominated by any of the %d returned "
                         "mappings %s" % (w["id"], ln.short(nodes), [str(x) for x in cands[k]], len(ret),
                                          [[str(x) for x in r] for r in ret][:6]),
                         {"world": w, "nodes": nodes, "metrics": mset, "clause": "complete"})
        elif v["dominated"]:
            r = v["dominated"] - 1
            ck.violation("C02/returned-mapping-dominated/%s" % "+".join(mset),
                         "world %d: returned mapping #%d %s with objectives %s is strictly dominated by another returned "
                         "mapping; returned: %s" % (w["id"], r, ln.short(res["rows"][r].get("nodes") or []),
                                                    [str(x) for x in ret[r]], [[str(x) for x in q] for q in ret][:8]),
                         {"world": w, "metrics": mset, "clause": "nondominated", "nodes": res["rows"][r].get("nodes")})
        elif v["duplicate"]:
            r = v["duplicate"] - 1
            ck.violation("C02/duplicate-objective-vector/%s" % "+".join(mset),
                         "world %d: returned mappings contain the objective vector %s twice (row %d: %s)"
                         % (w["id"], [str(x) for x in ret[r]], r, ln.short(res["rows"][r].get("nodes") or [])),
                         {"world": w, "metrics": mset, "clause": "nodup", "nodes": res["rows"][r].get("nodes")})
        if len(ck.samples) < 4:
            ck.sample({"world": {"kind": w["kind"], "bound": w["bound"], "size": w["size"]}, "metrics": mset,
                       "valid_enumerated": len(valid), "returned": [[str(x) for x in r] for r in ret][:8],
                       "returned_not_in_enumeration": v["unmatched"]})
    ck.extra["returned_vectors_not_matched_by_any_enumerated_mapping"] = sum(v["unmatched"] for v in verdicts.values())


def replay(path):
    import os
    from harness.core import Check
    rec = json.load(open(path))
    w, mset = rec["world"], tuple(rec["metrics"])
    ck = Check("C02", "quick", 0)
    ck.work = os.path.join(os.path.dirname(os.path.abspath(path)), "_replay_tmp")
    os.makedirs(ck.work, exist_ok=True)
    priced, results = c01.collect(ck, [w], [mset])
    res = results[(w["id"], mset)]
    if "exception" in res:
        print(res["traceback"]); return 2
    valid = [(n, o) for n, o in priced[w["id"]] if "energy" in o]
    cands = [vec_cand(w, mset, o) for n, o in valid]
    ret = [vec_ret(w, mset, row) for row in res["rows"]]
    rc, rr = mc.rank_columns(cands, ret)
    v = mc.fronts_verdicts(ck, [{"id": "r", "kind": "front", "cands": rc, "ret": rr}])["r"]
    print("verdict:", v)
    print("returned:", [[str(x) for x in r] for r in ret])
    if v["uncovered"] or v["dominated"] or v["duplicate"]:
        print("VIOLATION property=C02 replay=%s" % path)
        return 1
    print("no disagreement on this case")
    return 0
