"""C24 -- workload geometry matches enumeration of the iteration space.

Spec: spec/Geometry.tla (iteration space, Image, IsBox, Step, ExtraExtent by ENUMERATION),
spec/MC_Geometry.tla (case generators + the lemma IsBoxDef <=> IsBox).
Binding B: every record TLC prints (a workload of 1-3 Einsums over box iteration spaces
with projections a*x + b*y + c, plus the geometry the definitions assign to it) is built
as a real accelforge Workload and compared with
  get_rank_variable_bounds, Workload.n_computes, Workload.get_tensor_size,
  get_stride_and_halo_of_einsum, compute_dense_tile_occupancy.
Python only encodes the abstract case as a Workload (names, expression strings, how the
box is declared) and compares integers; every expected number comes from TLC.
"""
from __future__ import annotations

import json
import os
from concurrent.futures import ProcessPoolExecutor, ThreadPoolExecutor

from harness import tlc as _tlc
from harness.core import Check, Machinery

PID = "C24"

# abstract rank variable -> concrete name (two naming schemes; the second has digits and
# two-letter names as in the repository's CNN / transformer workloads)
NAMES = [
    {"x": "x", "y": "y", "z": "z", "w": "w"},
    {"x": "p0", "y": "r0", "z": "m", "w": "nq"},
]


# ------------------------------------------------------------------ encoding (abstraction function)
def _expr(aff, nm, spaced):
    terms = []
    for v in ("x", "y", "z", "w"):
        c = aff["cx"].get(v, 0)
        if c == 0:
            continue
        terms.append(nm[v] if c == 1 else "%d*%s" % (c, nm[v]))
    if aff["c"]:
        terms.append(str(aff["c"]))
    return (" + " if spaced else "+").join(terms)


def _pure_var(aff):
    nz = [v for v, c in aff["cx"].items() if c != 0]
    if len(nz) == 1 and aff["cx"][nz[0]] == 1 and aff["c"] == 0:
        return nz[0]
    return None


def _rank_names(proj, nm):
    """Rank i is named like the list form would name it (upper-cased variable) when the
    projection is exactly one variable; otherwise by position."""
    out = []
    for i, aff in enumerate(proj):
        v = _pure_var(aff)
        name = nm[v].upper() if v is not None else "D%d" % (i + 1)
        if name in out:
            name = "D%d" % (i + 1)
        out.append(name)
    return out


def encode(case, variant):
    """-> (kwargs for Workload(**kwargs), per-einsum info).  variant selects names/format."""
    nm = NAMES[variant % 2]
    spaced = (variant // 2) % 2 == 1
    use_list = (variant // 4) % 2 == 1
    bnd = case["bnd"]
    style = case["style"]
    einsums = []
    info = []
    rank_sizes = {}
    for ev in case["eins"]:
        acc = ev["acc"]
        tas = []
        ranks_of = []
        pure_vars_here = set()
        for k, a in enumerate(acc):
            ranks = _rank_names(a["proj"], nm)
            ranks_of.append(ranks)
            all_pure = all(_pure_var(f) is not None and ranks[i] == nm[_pure_var(f)].upper()
                           for i, f in enumerate(a["proj"]))
            for i, f in enumerate(a["proj"]):
                v = _pure_var(f)
                if v is not None and ranks[i] == nm[v].upper():
                    pure_vars_here.add(v)
                    rank_sizes[ranks[i]] = bnd[v]
            if all_pure and use_list:
                proj = [nm[_pure_var(f)] for f in a["proj"]]
            else:
                proj = {ranks[i]: _expr(f, nm, spaced) for i, f in enumerate(a["proj"])}
            ta = {"name": a["t"], "projection": proj}
            if k == len(acc) - 1:
                ta["output"] = True
            tas.append(ta)
        e = {"name": acc[-1]["t"], "tensor_accesses": tas}
        if style == 1:
            shape = ["0 <= %s < %d" % (nm[v], bnd[v]) for v in sorted(ev["vars"]) if v not in pure_vars_here]
            if shape:
                e["iteration_space_shape"] = shape
        einsums.append(e)
        info.append({"name": e["name"], "ranks": ranks_of})
    kw = {"einsums": einsums}
    if style == 0:
        kw["iteration_space_shape"] = {nm[v]: "0 <= %s < %d" % (nm[v], b) for v, b in sorted(bnd.items())}
    else:
        kw["rank_sizes"] = rank_sizes
    return kw, info, nm


# ------------------------------------------------------------------ comparison
def compare(case, variant):
    """Build the workload, query the implementation, compare with what TLC printed.
    Returns (mismatches, n_calls, impl_error or None); a mismatch is (signature, detail)."""
    from accelforge.frontend.workload import Workload
    from accelforge.frontend._workload_isl._isl import get_rank_variable_bounds
    from accelforge.frontend._workload_isl._symbolic import (
        compute_dense_tile_occupancy, get_projection_expr, get_stride_and_halo_of_einsum)

    kw, info, nm = encode(case, variant)
    calls = 0
    bad = []
    try:
        w = Workload(**kw)
    except Exception as ex:  # the property does not speak about construction errors
        return [], 0, ex
    total = 0
    seen_tensor = {}
    for ev, inf in zip(case["eins"], info):
        en = inf["name"]
        # --- rank variable bounds, operation count
        try:
            got_b = {str(k): int(v) for k, v in get_rank_variable_bounds(w, en).items()}
            got_ops = int(w.n_computes(en))
            calls += 2
        except Exception as ex:
            return bad, calls, ex
        exp_b = {nm[v]: b for v, b in ev["bounds"].items()}
        if got_b != exp_b:
            bad.append(("C24/bounds", "Einsum %s: rank variable bounds %s, enumeration gives %s" % (en, got_b, exp_b)))
        if got_ops != ev["ops"]:
            bad.append(("C24/ops", "Einsum %s: n_computes %s, enumeration gives %s" % (en, got_ops, ev["ops"])))
        total += ev["ops"]
        # --- stride / halo
        try:
            sh = get_stride_and_halo_of_einsum(en, w)
            calls += 1
        except Exception as ex:
            return bad, calls, ex
        got_sh = {}
        for t, d in sh.items():
            for (rank, var), (s, h) in d.items():
                got_sh[(str(t), str(rank), str(var))] = (s, h)
        exp_keys = set()
        for r in ev["sh"]:
            a = r["a"] - 1
            key = (ev["acc"][a]["t"], inf["ranks"][a][r["i"] - 1], nm[r["v"]])
            exp_keys.add(key)
            if key not in got_sh:
                bad.append(("C24/stride-halo-missing-pair", "Einsum %s: no stride/halo for %s" % (en, key)))
                continue
            s, h = got_sh[key]
            try:
                s, h = int(s), int(h)
            except Exception:
                bad.append(("C24/stride-halo-not-a-number", "Einsum %s %s: (%s, %s)" % (en, key, s, h)))
                continue
            if s != r["stride"]:
                bad.append(("C24/stride", "Einsum %s %s: stride %s, step of the projection is %s" % (en, key, s, r["stride"])))
            # 'extra extent' admits two readings that differ by the constant offset of the
            # projection (spread max-min vs last index counted from 0); where they agree the
            # value is decisive, where they differ either one is accepted
            if h not in (r["halo"], r["delta"]):
                bad.append(("C24/halo", "Einsum %s %s: halo %s, extra extent of the projection is %s (or %s counted from index 0)"
                            % (en, key, h, r["halo"], r["delta"])))
        extra = set(got_sh) - exp_keys
        if extra:
            bad.append(("C24/stride-halo-extra-pair", "Einsum %s: pairs %s are not (rank, rank variable) pairs of the projection" % (en, sorted(extra))))
        # --- tensors
        bounds_by_name = {nm[v]: b for v, b in ev["bounds"].items()}
        for a, acc in enumerate(ev["acc"]):
            t = acc["t"]
            img = ev["img"][a]
            if img["box"] and img["origin"]:
                try:
                    d = compute_dense_tile_occupancy(get_projection_expr(w.einsums[en], t), dict(bounds_by_name))
                    calls += 1
                    if int(d) != img["card"]:
                        bad.append(("C24/dense-occupancy", "Einsum %s tensor %s: dense occupancy of the whole tensor %s, image has %s points (a box at the origin)"
                                    % (en, t, d, img["card"])))
                except Exception as ex:
                    return bad, calls, ex
            if t in seen_tensor:
                continue
            seen_tensor[t] = img
            try:
                got = w.get_tensor_size(t)
                calls += 1
            except Exception as ex:
                calls += 1
                if img["box"]:
                    bad.append(("C24/size/error-on-box-image", "tensor %s: get_tensor_size raised %s: %s although the image is a box with %s points"
                                % (t, type(ex).__name__, str(ex)[:120], img["card"])))
                continue
            if int(got) != img["card"]:
                bad.append(("C24/size/wrong-size-%s" % ("box" if img["box"] else "nonbox-no-error"),
                            "tensor %s: get_tensor_size = %s, the image has %s points (%s)"
                            % (t, got, img["card"], "box" if img["box"] else "not a box: an error or the exact count is required")))
    try:
        got_total = int(w.n_computes())
        calls += 1
        if got_total != case["total_ops"]:
            bad.append(("C24/ops-total", "n_computes() %s, enumeration gives %s" % (got_total, case["total_ops"])))
    except Exception as ex:
        return bad, calls, ex
    return bad, calls, None


def _variant(idx, seed):
    return (idx + seed) % 8


def _chunk(args):
    recs, start, seed = args
    out = []
    calls = 0
    for k, case in enumerate(recs):
        var = _variant(start + k, seed)
        bad, c, err = compare(case, var)
        calls += c
        if err is not None:
            import traceback
            out.append((k, var, "ERR", "".join(traceback.format_exception(type(err), err, err.__traceback__))[-2000:]))
        for sig, detail in bad:
            out.append((k, var, sig, detail))
    return out, calls


def _features(case):
    f = set()
    for ev in case["eins"]:
        for a, acc in enumerate(ev["acc"]):
            img = ev["img"][a]
            f.add("box" if img["box"] else "nonbox")
            for aff in acc["proj"]:
                nz = [c for c in aff["cx"].values() if c]
                if len(nz) == 2:
                    f.add("two-var")
                if any(c > 1 for c in nz):
                    f.add("coef>1")
                if aff["c"]:
                    f.add("offset")
        for r in ev["sh"]:
            if r["halo"] != r["delta"]:
                f.add("readings-differ")
            if r["halo"] > 0:
                f.add("halo>0")
    if len(case["eins"]) > 1:
        f.add("multi-einsum")
    return f


def _tlc_parallel(ck: Check, jobs):
    """Run several TLC processes side by side (harness.tlc.run is synchronous) and do the
    same bookkeeping ck.tlc does."""
    def one(j):
        kw = dict(j)
        module = kw.pop("module")
        cfg = kw.pop("cfg")
        kw.setdefault("workdir", os.path.join(ck.work, "tlc-%s-%s" % (cfg.replace(".cfg", ""), kw.get("seed", "x"))))
        return _tlc.run(module, cfg, **kw)
    with ThreadPoolExecutor(len(jobs)) as ex:
        results = list(ex.map(one, jobs))
    for j, res in zip(jobs, results):
        ck.states += res.distinct
        ck.transitions += res.generated
        for a, (d, g) in res.coverage.items():
            k = "%s.%s" % (j["module"], a)
            old = ck.cov.get(k, [0, 0])
            ck.cov[k] = [old[0] + d, old[1] + g]
        ck.tlc_cmds.append(res.cmd)
        ck.extra.setdefault("tlc_runs", []).append({"cfg": j["cfg"], "seed": j.get("seed"), "wall_s": round(res.wall_s, 1),
                                                     "states": res.distinct, "records": len(res.records)})
    return results


def run(ck: Check):
    thorough = ck.tier == "thorough"
    ck.rule = ("workloads are enumerated (one Einsum O[x,y]=T[..], every bound vector <= %d, every projection of T with 1-2 "
               "ranks a*u+b*v+c) or drawn (1-3 Einsums, bounds <= 6, coefficients 1..3, offsets 0..2, 1-3 ranks, chained/shared "
               "tensors) by TLC from spec/MC_Geometry.tla; expected bounds, operation counts, image cardinality, box-ness, "
               "stride and halo are Geometry.tla definitions evaluated by TLC on the enumerated iteration space. "
               "Non-trivial = at least one projection that is not a bare rank variable (two variables, coefficient > 1 "
               "or offset); distinct by (bounds, accesses)." % (4 if thorough else 3))
    ck.trusted += ["encoding of an abstract case as Workload(...) kwargs: names, expression strings 'a*x + b*y + c', "
                   "box declared through iteration_space_shape or rank_sizes (checks/c24.py encode)"]
    ck.assumptions += ["'halo = extra extent' has two readings when the projection has a constant offset (spread max-min "
                       "vs last index counted from index 0); both are computed by TLC and either is accepted there",
                       "a tensor that occurs in several Einsums is generated with the same image through every access "
                       "(TLC invariant Consistent), so its size does not depend on which access defines it"]
    sfx = "t" if thorough else "q"
    nsim = 4 if thorough else 2
    jobs = [dict(module="MC_Geometry", cfg="MC_Geometry_lemma2.cfg", workers=2, timeout=900),
            dict(module="MC_Geometry", cfg="MC_Geometry_exh_%s.cfg" % sfx, workers=4, timeout=1100, coverage=False)]
    if thorough:
        jobs.append(dict(module="MC_Geometry", cfg="MC_Geometry_lemma3.cfg", workers=2, timeout=900))
    for i in range(nsim):
        jobs.append(dict(module="MC_Geometry", cfg="MC_Geometry_rand_%s.cfg" % sfx, simulate="num=1", depth=100000,
                         seed=ck.seed * 1000 + i + 1, workers=1, timeout=1100, coverage=False))
    results = _tlc_parallel(ck, jobs)
    allrecs = []
    nlem = 0
    for j, res in zip(jobs, results):
        if not res.ok:
            raise Machinery("TLC run %s failed: %s\n%s" % (j["cfg"], res.violated, res.tail))
        if "lemma" in j["cfg"]:
            if res.distinct < 100:
                raise Machinery("lemma run %s explored only %d sets" % (j["cfg"], res.distinct))
            nlem += res.distinct
            continue
        if not res.records:
            raise Machinery("generator %s printed no cases" % j["cfg"])
        label = j["cfg"] + ("" if "seed" not in j else ":seed=%d" % j["seed"])
        if "rand" in j["cfg"]:
            ndist = len({json.dumps(r["eins"][0]["acc"], sort_keys=True) for r in res.records})
            if ndist < 0.5 * len(res.records):
                raise Machinery("random generator %s produced only %d distinct cases out of %d" % (label, ndist, len(res.records)))
        allrecs += [(label, r) for r in res.records]
    ck.extra["role_A"] = ("BoxLemma: 'S equals its bounding box' <=> 'S has as many points as its bounding box' "
                          "holds for all %d non-empty subsets of the small grids; Consistent (shared tensors have one image) "
                          "holds on every generated workload" % nlem)
    recs = [r for _, r in allrecs]
    ncpu = 6 if thorough else 4
    size = max(50, min(400, len(recs) // (ncpu * 4) + 1))
    chunks = [(recs[i:i + size], i, ck.seed) for i in range(0, len(recs), size)]
    with ProcessPoolExecutor(ncpu) as ex:
        outs = list(ex.map(_chunk, chunks))
    feats = {}
    for (chunk, start, _), (out, calls) in zip(chunks, outs):
        ck.evaluations += calls
        for (k, var, sig, detail) in out:
            case = chunk[k]
            if sig == "ERR":
                ck.impl_errors += 1
                if ck.impl_error_sample is None:
                    ck.impl_error_sample = {"case": case, "traceback": detail}
                continue
            ck.violation(sig, detail, {"case": case, "variant": var, "generator": allrecs[start + k][0]})
    for case in recs:
        ck.traces += 1
        f = _features(case)
        for x in f:
            feats[x] = feats.get(x, 0) + 1
        if f & {"two-var", "coef>1", "offset"}:
            ck.count_nontrivial(json.dumps([case["bnd"], [[a for a in e["acc"]] for e in case["eins"]]], sort_keys=True))
    ck.extra["case_features"] = feats
    for want in ("nonbox", "box", "two-var", "coef>1", "offset", "halo>0", "multi-einsum"):
        if not feats.get(want):
            raise Machinery("vacuity: no generated case has feature %r" % want)
    for idx in (len(recs) // 3, len(recs) - 1):
        case = recs[idx]
        kw, _, _ = encode(case, _variant(idx, ck.seed))
        ck.sample({"generator": allrecs[idx][0], "workload_kwargs": kw,
                   "expected": [{"bounds": e["bounds"], "ops": e["ops"], "img": e["img"], "sh": e["sh"]} for e in case["eins"]]})
    ck.exhaustive = False
    ck.extra["exhaustive_parts"] = [j["cfg"] for j in jobs if "exh" in j["cfg"]]


def replay(path):
    rec = json.load(open(path))
    case, var = rec["case"], rec["variant"]
    kw, _, _ = encode(case, var)
    print("Workload(**%s)" % json.dumps(kw))
    bad, _, err = compare(case, var)
    if err is not None:
        print("implementation error while driving the case: %r" % err)
        return 2
    for sig, detail in bad:
        print("  %s: %s" % (sig, detail))
    if bad:
        print("VIOLATION property=%s replay=%s" % (PID, path))
        return 1
    print("no disagreement on this case")
    return 0
