"""C07 — symbolic cost formulas agree with concrete evaluation at every tile assignment.

Spec: spec/MC_TileAssign.tla enumerates every perfectly factorising tile-shape assignment
of every pmapping template the real mapper generates for a micro-spec (binding B: the
assignments come from TLC); spec/Trace_Mapping.tla (LoopNest + CostModel) executes every
instantiated LoopTree.  The REAL compiled formulas that drive tile-shape exploration
(recorded through the ACCELFORGE_VERIF_RECORD hook, so that the symengine -> sympy
conversion, lambdify cache and symbol insertion are on the path) are evaluated at every
assignment (binding C) and must give: Total latency = executed latency, dynamic + leak
energy = executed energy, usage formula * size = reserved footprint, for every memory.
The concrete mapping is also evaluated by the real evaluate_mapping (the property's words)
and must agree with the formula values.
"""
from __future__ import annotations

import json
import random
from fractions import Fraction

from checks import mapper_common as mc
from checks import tile_common as tc
from harness import loopnest as ln
from harness import microspec as ms
from harness.core import Check, Machinery


def worlds_for(ck, n, start):
    rng = random.Random(707 * ck.seed + start)
    out = []
    for i in range(n):
        w = mc.gen_microspec(rng, start + i, n_mem=2 if i % 3 else 3,
                             bounds=None)
        for c in w["cost"]:
            w["cost"][c]["leak"] = rng.choice([0, 0, 1])
        out.append(w)
    return out


def formula_values(t, k):
    f = t["formulas"]
    g = lambda key: mc.fr(f[key][k]) if key in f and not isinstance(f[key][k], str) else None
    lat = g("Total<SEP>latency")
    dyn, leak = g("Total<SEP>dynamic_energy"), g("Total<SEP>leak_energy")
    en = g("Total<SEP>energy")
    if en is None and dyn is not None:
        en = dyn + (leak or 0)
    usage = {key.split("<SEP>")[2]: mc.fr(v[k]) for key, v in f.items()
             if key.startswith("usage<SEP>memory<SEP>") and not isinstance(v[k], str)}
    return lat, en, usage


def run(ck: Check):
    thorough = ck.tier == "thorough"
    ck.rule = ("micro-specs (1 Einsum, 2-3 memories, keep/may_keep, finite sizes, leak power); every template make_pmappings "
               "generates for ENERGY|LATENCY; every perfectly factorising assignment of its symbols (TLC). Non-trivial = "
               "(template, assignment) whose template has at least one symbol; distinct by (micro-spec, template, assignment).")
    ck.tlc_expect_ok("MC_TileAssign", "MC_TileAssign_lemma.cfg", env={"TEMPLATES_FILE": _lemma_file(ck)}, timeout=600)
    worlds = worlds_for(ck, 3 if not thorough else 14, 1)
    outs = tc.collect(ck, worlds, ("ENERGY", "LATENCY"))
    cases, index, verdicts = tc.execute_all(ck, worlds, outs, "c07")
    # the real model on every instance (the property's own comparator)
    recs = [{"wid": index[c["id"]][0]["id"], "nodes": c["nodes"]} for c in cases]
    real = ln.evaluate_records(ck, worlds, recs)
    unsupported = sum(1 for o in outs if "templates" in o for t in o["templates"] if t.get("unsupported"))
    total_templates = sum(len(o["templates"]) for o in outs if "templates" in o)
    if total_templates == 0:
        raise Machinery("no template was recorded: is the ACCELFORGE_VERIF_RECORD hook present in /repo?")
    if unsupported > 0.2 * total_templates:
        raise Machinery("spec gap: %d of %d templates have a shape the exporter does not understand" % (unsupported, total_templates))
    ck.extra["templates"] = total_templates
    ck.extra["templates_unsupported"] = unsupported
    for c, r in zip(cases, real):
        w, t, k = index[c["id"]]
        v = verdicts[c["id"]]
        ck.traces += 1
        if t["syms"]:
            ck.count_nontrivial(c["id"])
        lat, en, usage = formula_values(t, k)
        if not v.get("wellformed"):
            ck.violation("C07/template-instance-ill-formed", "template %s of world %d with %s = %s is not a well-formed LoopTree: %s"
                         % (t["id"], w["id"], t["syms"], t["assignments"][k], ln.short(c["nodes"])),
                         {"world": w, "nodes": c["nodes"]})
            continue
        sl, se = Fraction(*v["latency"]), Fraction(*v["energy"])
        probs = []
        if lat is not None and lat != sl:
            probs.append(("latency", lat, sl))
        if en is not None and en != se:
            probs.append(("energy", en, se))
        for m, u in usage.items():
            if w["size"].get(m):
                # usage = footprint / size comes out of a float32 formula: exact only when the size is a power of two
                if abs(u * w["size"][m] - v["footprint"][m]) > Fraction(1, 2 ** 21) * max(v["footprint"][m], 1):
                    probs.append(("usage:" + m, u * w["size"][m], Fraction(v["footprint"][m])))
        # against the real model
        if "exception" in r:
            ck.impl_errors += 1
            if ck.impl_error_sample is None:
                ck.impl_error_sample = {"case": ln.short(c["nodes"]), "traceback": r["traceback"]}
        elif "error" in r:
            over = any(w["size"][m] and v["footprint"][m] > w["size"][m] for m in v["footprint"])
            if not over:
                probs.append(("model-rejects", None, None))
        else:
            if lat is not None and r["latency"] != lat:
                probs.append(("latency-vs-model", lat, r["latency"]))
            if en is not None and r["energy"] != en:
                probs.append(("energy-vs-model", en, r["energy"]))
        if probs:
            what = probs[0][0]
            ck.violation("C07/formula-differs/%s" % what.split(":")[0],
                         "world %d template %s, %s = %s (%s): %s"
                         % (w["id"], t["id"], t["syms"], t["assignments"][k], ln.short(c["nodes"]),
                            "; ".join("%s formula=%s concrete=%s" % p for p in probs[:4])),
                         {"world": w, "nodes": c["nodes"], "template_nodes": t["nodes"], "syms": t["syms"],
                          "assignment": t["assignments"][k]})
        if len(ck.samples) < 4 and t["syms"]:
            ck.sample({"world": w["id"], "template": ln.short([dict(n, tile=n["tile"]) if n["kind"] == "T" else n for n in t["nodes"]]),
                       "symbols": t["syms"], "assignment": t["assignments"][k],
                       "formula": {"latency": str(lat), "energy": str(en), "usage": {m: str(u) for m, u in usage.items()}},
                       "executed": {"latency": v["latency"], "energy": v["energy"], "footprint": v["footprint"]}})
    history_part(ck)


def history_part(ck):
    """The compiled formulas of a spec must not depend on what was mapped earlier in the same process (lambdify cache,
    symbol caches).  A twin of a micro-spec whose DRAM energies differ from the original's in the 6th significant digit
    (3.5 -> 3.5 + 2^-16; both dyadic, so every product with an integer count is exact) is mapped right after the original
    in one process; every recorded formula of the twin is compared with the real model on the twin (up to float32
    rounding of the compiled formulas: 2^-21 relative)."""
    import copy
    thorough = ck.tier == "thorough"
    bases = worlds_for(ck, 2 if not thorough else 6, 700)
    twins = []
    for w in bases:
        top = min(w["level"], key=lambda c: w["level"][c])
        for a in w["cost"][top]["energy"]:
            w["cost"][top]["energy"][a] = [7, 2]
        t = copy.deepcopy(w)
        t["id"] = w["id"] + 50
        for a in t["cost"][top]["energy"]:
            t["cost"][top]["energy"][a] = [7 * 2 ** 15 + 1, 2 ** 16]
        twins.append(t)
    outs = tc.collect(ck, twins, ("ENERGY", "LATENCY"), preludes=bases)
    recs, index = [], []
    for w, o in zip(twins, outs):
        if "exception" in o:
            continue
        for t in o["templates"]:
            if t.get("unsupported"):
                continue
            for k, a in enumerate(t["assignments"]):
                recs.append({"wid": w["id"], "nodes": tc.instantiate(t["nodes"], t["syms"], a)})
                index.append((w, t, k))
    if not recs:
        raise Machinery("history part: no template instance recorded")
    real = ln.evaluate_records(ck, twins, recs)
    n = 0
    for (w, t, k), rec, r in zip(index, recs, real):
        if "exception" in r or "error" in r:
            continue
        ck.traces += 1
        n += 1
        lat, en, usage = formula_values(t, k)
        probs = []
        # the compiled formulas run on float32 columns: the twin's energies (3.5 + 2^-16) need more than 24 bits, so the
        # formula value is the real model's value rounded a few times (observed <= 2^-23.8 relative); a formula compiled
        # for the prelude spec is off by about 2^-18 times the share of the perturbed energies
        far = lambda a, b: abs(a - b) > Fraction(1, 2 ** 21) * max(abs(a), abs(b))
        if lat is not None and far(r["latency"], lat):
            probs.append(("latency-vs-model", lat, r["latency"]))
        if en is not None and far(r["energy"], en):
            probs.append(("energy-vs-model", en, r["energy"]))
        if probs:
            ck.violation("C07/history/formula-differs/%s" % probs[0][0],
                         "world %d (mapped after its near-identical twin %d in the same process) template %s, %s = %s (%s): %s"
                         % (w["id"], w["id"] - 50, t["id"], t["syms"], t["assignments"][k], ln.short(rec["nodes"]),
                            "; ".join("%s formula=%s concrete=%s" % p for p in probs[:4])),
                         {"world": w, "prelude": next(b for b in bases if b["id"] == w["id"] - 50), "nodes": rec["nodes"],
                          "template_nodes": t["nodes"], "syms": t["syms"], "assignment": t["assignments"][k], "kind": "history"})
    ck.extra["history_instances_compared"] = n
    if n == 0:
        raise Machinery("history part: nothing compared")


def _lemma_file(ck):
    import os
    p = os.path.join(ck.work, "lemma_templates.json")
    json.dump([{"id": "l1", "syms": ["a", "b", "c"], "bound": {"a": 12, "b": 12, "c": 8}, "outer": {"a": "", "b": "a", "c": ""}},
               {"id": "l2", "syms": ["a", "b", "c"], "bound": {"a": 8, "b": 8, "c": 8}, "outer": {"a": "", "b": "a", "c": "b"}}],
              open(p, "w"))
    return p


def replay(path):
    import os
    rec = json.load(open(path))
    ck = Check("C07", "quick", 0)
    ck.work = os.path.join(os.path.dirname(os.path.abspath(path)), "_replay_tmp")
    os.makedirs(ck.work, exist_ok=True)
    w = rec["world"]
    if rec.get("kind") == "history":
        outs = tc.collect(ck, [w], ("ENERGY", "LATENCY"), nproc=1, preludes=[rec["prelude"]])
        bad = 0
        for t in outs[0].get("templates", []):
            if t.get("unsupported") or t["nodes"] != rec.get("template_nodes"):
                continue
            k = t["assignments"].index(rec["assignment"])
            r = ln.evaluate_records(ck, [w], [{"wid": w["id"], "nodes": rec["nodes"]}])[0]
            lat, en, usage = formula_values(t, k)
            print("formula after prelude: latency %s energy %s; real model: %s %s" % (lat, en, r.get("latency"), r.get("energy")))
            far = lambda a, b: abs(a - b) > Fraction(1, 2 ** 21) * max(abs(a), abs(b))
            if "energy" in r and (far(r["latency"], lat) or far(r["energy"], en)):
                bad += 1
        if bad:
            print("VIOLATION property=C07 replay=%s" % path)
            return 1
        print("no disagreement on this case")
        return 0
    outs = tc.collect(ck, [w], ("ENERGY", "LATENCY"), nproc=1)
    cases, index, verdicts = tc.execute_all(ck, [w], outs, "replay")
    bad = 0
    for c in cases:
        ww, t, k = index[c["id"]]
        if t["nodes"] != rec.get("template_nodes") or t["assignments"][k] != rec.get("assignment"):
            continue
        v = verdicts[c["id"]]
        lat, en, usage = formula_values(t, k)
        print("formula: latency %s energy %s usage %s" % (lat, en, usage))
        print("executed:", v.get("latency"), v.get("energy"), v.get("footprint"))
        if v.get("wellformed") and (Fraction(*v["latency"]) != lat or Fraction(*v["energy"]) != en or
                                    any(w["size"].get(m) and abs(u * w["size"][m] - v["footprint"][m]) > Fraction(1, 2 ** 21) * max(v["footprint"][m], 1)
                                        for m, u in usage.items())):
            bad += 1
    if bad:
        print("VIOLATION property=C07 replay=%s" % path)
        return 1
    print("no disagreement on this case")
    return 0
