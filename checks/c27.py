"""C27 -- recomputing component costs on a costed spec changes nothing.

Spec: spec/ComponentCosts.tla (definition Defn = base * scale factors; the calls as actions,
Stable, role A), spec/MC_ComponentCosts.tla (parameter grids, histories, random generator).

Binding B: every record TLC prints (per component base area / leak power / per-action energy
and throughput, the scale factors, n_parallel_instances; a history of 1-3 calls, each a set
of cost kinds; and after each call the values the definition says are observed) is replayed
on a real Spec:  s = s.calculate_component_costs(area=.., energy=.., throughput=.., leak=..)
once per call, and after every call area, leak_power and every action's energy and throughput
of every component are compared exactly (Fraction) with TLC's.  Only kinds that have been
computed by some call of the history are compared.

Spec.evaluate_mapping and Spec.map_workload_to_arch refuse a costed spec ("Spec must not be
evaluated before evaluating a mapping", an assertion in accelforge/model/main.py), so the
only way to recompute costs on a costed spec is the public method itself; that is what is
replayed.
"""
from __future__ import annotations

import json
import os
from concurrent.futures import ProcessPoolExecutor
from fractions import Fraction

from harness.core import Check, Machinery, frac

KINDS = ("area", "leak_power", "energy", "throughput")
NAMES = {1: ("M1", "Memory", ("read", "write")),
         2: ("MAC", "Compute", ("compute",)),
         3: ("M2", "Memory", ("read", "write"))}


def _num(r):
    n, d = r
    return n if d == 1 else n / d     # den is a power of two: exact as a float


def build_spec(rec):
    from accelforge.frontend.spec import Spec
    from accelforge.frontend.arch import Arch, Memory, Compute, Container
    nodes = {}
    for ci, p in enumerate(rec["comps"], start=1):
        name, kind, acts = NAMES[ci]
        kw = dict(name=name, area=_num(p["area"]), leak_power=_num(p["leak"]),
                  area_scale=_num(p["area_scale"]), leak_power_scale=_num(p["leak_scale"]),
                  energy_scale=_num(p["energy_scale"]), throughput_scale=_num(p["tp_scale"]),
                  n_parallel_instances=_num(p["npi"]),
                  actions=[dict(name=an, energy=_num(a["energy"]), throughput=_num(a["tp"]),
                                energy_scale=_num(a["escale"]), throughput_scale=_num(a["tscale"]))
                           for an, a in zip(acts, p["acts"])])
        if kind == "Memory":
            kw["size"] = 1 << 20
            nodes[ci] = Memory(**kw)
        else:
            nodes[ci] = Compute(**kw)
    seq = [nodes[1]]
    if rec["shape"] == 1:
        seq.append(Container(name="PEs", spatial=[dict(name="X", fanout=4)]))
    if 3 in nodes:
        seq.append(nodes[3])
    seq.append(nodes[2])
    return Spec(arch=Arch(nodes=seq))


def observe(spec, rec):
    """Abstraction function: Spec -> per component {area, leak_power, energy[], throughput[]}."""
    out = []
    for ci in range(1, len(rec["comps"]) + 1):
        name, _, acts = NAMES[ci]
        c = spec.arch.find(name)
        out.append({"area": c.area, "leak_power": c.leak_power,
                    "energy": [c.actions[a].energy for a in acts],
                    "throughput": [c.actions[a].throughput for a in acts]})
    return out


def _eq(got, r):
    if got is None or isinstance(got, bool):
        return False
    try:
        return frac(got) == Fraction(r[0], r[1])
    except (ValueError, TypeError, OverflowError):
        return False


def _cells(v, kind):
    """value(s) of one kind of one component as a list"""
    x = v[kind]
    return list(x) if kind in ("energy", "throughput") else [x]


def replay_history(rec):
    """Returns (observed, error): observed[i] = observe() after call i+1."""
    spec = build_spec(rec)
    obs = []
    for F in rec["hist"]:
        spec = spec.calculate_component_costs(area="area" in F, energy="energy" in F,
                                              throughput="throughput" in F, leak="leak_power" in F)
        obs.append(observe(spec, rec))
    return obs


def judge(rec, obs):
    """List of (signature, detail, call, comp, kind): first disagreement per (component, kind)."""
    out = []
    seen = set()
    prev_applied = set()
    for i, F in enumerate(rec["hist"]):
        exp = rec["expect"][i]
        applied = set(exp["applied"])
        for ci, (g, x, ra) in enumerate(zip(obs[i], exp["val"], rec["reapply"][i]), start=1):
            cname = NAMES[ci][0]
            for kind in KINDS:
                if kind not in applied or (ci, kind) in seen:
                    continue
                gs = _cells(g, kind)
                xs = [tuple(t) for t in _cells(x, kind)]      # the definition
                rs = [tuple(t) for t in _cells(ra, kind)]     # scales re-applied at every call
                if all(_eq(a, b) for a, b in zip(gs, xs)):
                    continue
                seen.add((ci, kind))
                if kind not in prev_applied:
                    what = "first-computation-not-base-times-scales"
                elif kind not in F:
                    what = "changed-by-a-call-that-did-not-ask-for-it"
                elif all(_eq(a, b) for a, b in zip(gs, rs)):
                    what = "recompute-reapplies-scales"
                else:
                    what = "recompute-changes-value"
                out.append(("C27/%s/%s" % (what, kind),
                            "call %d of history %s: %s.%s is %s, the definition gives %s "
                            "(re-applying the scale factors at every call would give %s)"
                            % (i + 1, json.dumps(rec["hist"]), cname, kind, gs,
                               [str(Fraction(*t)) for t in xs], [str(Fraction(*t)) for t in rs]),
                            i + 1, ci, kind))
        prev_applied = applied
    return out


def _kind_is_list(kind):
    return kind in ("energy", "throughput")


def _init_worker():
    import logging
    import warnings
    warnings.filterwarnings("ignore")
    logging.disable(logging.CRITICAL)
    import accelforge  # noqa


def _warm(i):
    import time
    time.sleep(0.3)
    return os.getpid()


def _eval_chunk(recs):
    _init_worker()
    out = []
    n_eval = 0
    for k, rec in enumerate(recs):
        try:
            obs = replay_history(rec)
        except Exception as e:  # noqa
            import traceback
            out.append((k, "impl", "%s: %s\n%s" % (type(e).__name__, e, traceback.format_exc()[-1500:]), 0, 0, ""))
            n_eval += 1
            continue
        n_eval += len(rec["hist"])
        for v in judge(rec, obs):
            out.append((k,) + v)
    return out, n_eval


def _brief(rec):
    f = lambda r: str(Fraction(r[0], r[1]))
    comps = []
    for ci, p in enumerate(rec["comps"], start=1):
        comps.append({"name": NAMES[ci][0], "area": f(p["area"]), "leak_power": f(p["leak"]),
                      "area_scale": f(p["area_scale"]), "leak_power_scale": f(p["leak_scale"]),
                      "energy_scale": f(p["energy_scale"]), "throughput_scale": f(p["tp_scale"]),
                      "n_parallel_instances": f(p["npi"]),
                      "actions": [{"name": an, "energy": f(a["energy"]), "throughput": f(a["tp"]),
                                   "energy_scale": f(a["escale"]), "throughput_scale": f(a["tscale"])}
                                  for an, a in zip(NAMES[ci][2], p["acts"])]})
    return {"components": comps, "container_with_fanout": bool(rec["shape"]), "history": rec["hist"]}


def _nontrivial(rec):
    """at least two calls, a kind asked for twice, and that kind has a scale product != 1
    somewhere (so that re-application would be visible)"""
    if len(rec["hist"]) < 2:
        return False
    twice = {k for i, F in enumerate(rec["hist"]) for k in F if any(k in G for G in rec["hist"][:i])}
    if not twice:
        return False
    last, re_ = rec["expect"][-1]["val"], rec["reapply"][-1]
    return any(json.dumps(a[k]) != json.dumps(b[k]) for a, b in zip(last, re_) for k in twice)


def _replay(ck: Check, pool, recs, label):
    size = max(20, min(500, len(recs) // 24 + 1))
    chunks = [recs[i:i + size] for i in range(0, len(recs), size)]
    results = list(pool.map(_eval_chunk, chunks))
    for ci, (out, n_eval) in enumerate(results):
        ck.evaluations += n_eval
        for (k, sig, detail, call, comp, kind) in out:
            rec = chunks[ci][k]
            if sig == "impl":
                ck.impl_errors += 1
                if ck.impl_error_sample is None:
                    ck.impl_error_sample = {"case": _brief(rec), "traceback": detail}
                continue
            ck.violation(sig, detail + "\ninput: " + json.dumps(_brief(rec)),
                         {"record": rec, "generator": label, "call": call, "component": comp, "kind": kind})
    for rec in recs:
        ck.traces += 1
        if _nontrivial(rec):
            ck.count_nontrivial(json.dumps([rec["comps"], rec["hist"], rec["shape"]], sort_keys=True))
    if recs:
        pick = [r for r in recs if _nontrivial(r)] or recs
        r = pick[len(pick) // 2]
        ck.sample({"generator": label, "input": _brief(r),
                   "expected_after_each_call": [
                       {"computed": e["applied"],
                        "values": [{k: ([str(Fraction(*t)) for t in v[k]] if _kind_is_list(k)
                                        else str(Fraction(*v[k]))) for k in KINDS} for v in e["val"]]}
                       for e in r["expect"]]})


# ----------------------------------------------------------------------------- run
def run(ck: Check):
    import time
    from concurrent.futures import ThreadPoolExecutor
    from harness import tlc as _tlc
    thorough = ck.tier == "thorough"
    ck.rule = ("TLC (spec/MC_ComponentCosts.tla) enumerates every vector of six scale factors over {1/2,1,2} "
               "x n_parallel_instances in {1,2,4} for a Memory next to a fixed Compute with histories "
               "full/full/full and full/all-but-area/full, every history of length 1-3 over four flag sets "
               "for nine scale vectors, and draws random two- or three-component architectures with random "
               "dyadic base values, scale factors, n_parallel_instances and random histories of 1-3 calls "
               "over arbitrary flag sets.  After each call the observed area, leak power and per-action "
               "energy/throughput must equal ComponentCosts!RunOnce evaluated by TLC.  Non-trivial = at least "
               "two calls, some cost kind requested twice, and re-applying its scale factors would change a "
               "value; distinct by (components, history, shape).")
    ck.trusted += ["checks/c27.py build_spec/observe (parameters -> Memory/Compute objects, Spec -> observed values)",
                   "dyadic rationals are passed as Python floats (exact)"]
    ck.assumptions += ["area, leak power, energy and throughput are given explicitly for every component and "
                       "action (no hwcomponents model is consulted)",
                       "only cost kinds that some call of the history has computed are compared",
                       "total_area / total_leak_power (instance counts, property C26) are not compared"]
    timing = ck.extra.setdefault("stage_seconds", {})

    def tlc_job(cfg, **kw):
        t0 = time.time()
        kw.setdefault("workdir", ck.work)
        kw.setdefault("timeout", 3000)
        res = _tlc.run("MC_ComponentCosts", cfg, **kw)
        timing["tlc " + cfg + (" seed %d" % kw["seed"] if "seed" in kw else "")] = round(time.time() - t0, 1)
        return res

    def account(res, required=()):
        ck.states += res.distinct
        ck.transitions += res.generated
        for a, (d, g) in res.coverage.items():
            k = "MC_ComponentCosts.%s" % a
            old = ck.cov.get(k, [0, 0])
            ck.cov[k] = [old[0] + d, old[1] + g]
        ck.tlc_cmds.append(res.cmd)
        for a in required:
            if res.coverage.get(a, (0, 0))[1] == 0:
                raise Machinery("vacuity: action %s was never taken (%s)" % (a, res.cfg))

    plan = [("MC_ComponentCosts_exh.cfg" if thorough else "MC_ComponentCosts_exh_q.cfg", None)]
    if thorough:
        plan += [("MC_ComponentCosts_rand_t.cfg", ck.seed * 100 + i) for i in range(2)]
    else:
        plan += [("MC_ComponentCosts_rand.cfg", ck.seed)]
    ncpu = min(8, os.cpu_count() or 1)
    with ProcessPoolExecutor(ncpu, initializer=_init_worker) as pool, ThreadPoolExecutor(5) as tp:
        # All worker processes are forked HERE, before any thread starts a TLC subprocess: a
        # fork that happens while subprocess.Popen is between fork and exec inherits Popen's
        # error pipe and blocks that Popen (and with it TLC's stdout) for ever.
        if len(set(pool.map(_warm, range(ncpu * 4)))) < 1:
            raise Machinery("worker pool did not start")
        futs = []
        for cfg, seed in plan:
            kw = {"coverage": False, "workers": 4}
            if seed is not None:
                kw.update(seed=seed, workers=1, simulate="num=1", depth=200000)
            futs.append((cfg, seed, tp.submit(tlc_job, cfg, **kw)))
        fut_a = tp.submit(tlc_job, "MC_ComponentCosts_roleA.cfg" if thorough else "MC_ComponentCosts_roleA_q.cfg",
                          workers=4 if thorough else 2)
        fut_neg = tp.submit(tlc_job, "MC_ComponentCosts_roleA_neg.cfg", workers=1)
        for cfg, seed, fut in futs:
            res = fut.result()
            account(res)
            if not res.ok:
                raise Machinery("generator %s failed: %s\n%s" % (cfg, res.violated, res.tail))
            if not res.records:
                raise Machinery("generator %s printed no cases" % cfg)
            label = cfg + ("" if seed is None else " seed %d" % seed)
            t0 = time.time()
            _replay(ck, pool, res.records, label)
            timing["replay " + label] = round(time.time() - t0, 1)
            ck.extra.setdefault("cases_per_generator", {})[label] = len(res.records)
        # ---- role A
        res = fut_a.result()
        account(res, required=("RoleANext",))
        if not res.ok:
            raise Machinery("TLC reports a problem in the design-level run %s: %s\n%s" % (res.cfg, res.violated, res.tail))
        res = fut_neg.result()
        account(res)
        if res.ok or "Stable" not in (res.violated or ""):
            raise Machinery("role-A lemma: re-applying the scales at every call must violate Stable, but TLC "
                            "reports: %s\n%s" % (res.violated, res.tail))
    ck.extra["role_A"] = ("ComponentCosts: with Calculate applying the scales of a kind iff not yet applied, Stable "
                          "(every computed kind = base * scales, after every history of up to %d calls over all 15 "
                          "flag sets) holds; re-applying at every call violates it (%s)"
                          % (3 if thorough else 2, res.violated))
    ck.exhaustive = False
    ck.extra["exhaustive_parts"] = [plan[0][0]]
    ck.extra["not_covered"] = ("components whose costs come from a hwcomponents model; total_area/total_leak_power; "
                               "a costed spec passed to evaluate_mapping / map_workload_to_arch (both reject an "
                               "evaluated spec with an AssertionError, probed on the unchanged tree)")


# ----------------------------------------------------------------------------- replay
def replay(path):
    rec0 = json.load(open(path))
    rec = rec0["record"]
    _init_worker()
    print("input:", json.dumps(_brief(rec)))
    obs = replay_history(rec)
    for i, (o, e) in enumerate(zip(obs, rec["expect"]), start=1):
        print("after call %d %s" % (i, rec["hist"][i - 1]))
        for ci, (g, x) in enumerate(zip(o, e["val"]), start=1):
            print("   %-4s implementation: %s" % (NAMES[ci][0], json.dumps(g, default=repr)))
            print("        definition    : %s (computed kinds: %s)"
                  % (json.dumps({k: ([str(Fraction(*t)) for t in x[k]] if _kind_is_list(k) else str(Fraction(*x[k])))
                                 for k in KINDS}), e["applied"]))
    bad = judge(rec, obs)
    for sig, detail, *_ in bad:
        print(sig, "--", detail)
    if bad:
        print("VIOLATION property=C27 replay=%s" % path)
        return 1
    print("no disagreement on this case")
    return 0
