"""C19 — optimal costs scale with the architecture's cost parameters.

Spec: spec/ConfigLattice.tla actions ScaleEnergy(k) (optE' = k optE), ScaleThroughput(k)
(optL' = optL / k) and ScaleInstances(k) (summable totals scale by k, validity unchanged).
Binding C: the real mapper's optimum for the base micro-spec and for each scaled spec is
recorded (every per-action energy and leak power times k; every throughput times k; the
workload's or the Einsum's n_instances times k) and TLC validates every step exactly
(rationals).
"""
from __future__ import annotations

import copy
import json
import random

from checks import config_common as cc
from harness.core import Check, Machinery

KS = [[2, 1], [4, 1], [1, 2], [3, 1], [3, 2]]


def run(ck: Check):
    thorough = ck.tier == "thorough"
    ck.rule = ("micro-specs (1 Einsum, 2-3 memories, finite sizes, nonzero leak power in some); k in {2, 4, 1/2, 3, 3/2} for "
               "energies/leak, k in {2, 4, 1/2} for throughputs, k in {2, 3} for workload and Einsum n_instances (each alone and both together); optimum of ENERGY, LATENCY, "
               "EDP recorded for base and scaled spec. Non-trivial = step with k != 1 whose base optimum is non-zero; "
               "distinct by (micro-spec, action, k).")
    worlds = cc.small_worlds(ck, 3 if not thorough else 12, 300)
    rng = random.Random(ck.seed + 19)
    for w in worlds:
        for c in w["cost"]:
            w["cost"][c]["leak"] = rng.choice([0, 1, 2])
    ks = KS if thorough else [KS[(ck.seed) % 5], KS[(ck.seed + 2) % 5], KS[(ck.seed + 4) % 5]]
    configs = []
    for w in worlds:
        configs.append((("base", w["id"], "1"), w, None))
        for k in ks:
            v = copy.deepcopy(w); v["escale"] = k
            configs.append((("ScaleEnergy", w["id"], "%d/%d" % tuple(k)), v, None))
            if k[0] in (1, 2, 4) and k[1] in (1, 2):
                # dividing by a non-power-of-two leaves the dyadic rationals: the implementation's floats could
                # then only be compared up to rounding, which TLC's exact integers do not express
                v = copy.deepcopy(w); v["tscale"] = k
                configs.append((("ScaleThroughput", w["id"], "%d/%d" % tuple(k)), v, None))
        for k in ([2, 3] if thorough else [2 + ck.seed % 2]):
            v = copy.deepcopy(w); v["ninst"] = k
            configs.append((("ScaleInstances", w["id"], "workload:%d/1" % k), v, None))
            v = copy.deepcopy(w); v["einst"] = k
            configs.append((("ScaleInstances", w["id"], "einsum:%d/1" % k), v, None))
            # both levels at once: the repeat counts multiply
            k2 = 5 - k
            v = copy.deepcopy(w); v["ninst"] = k; v["einst"] = k2
            configs.append((("ScaleInstances", w["id"], "both:%d/1" % (k * k2)), v, None))
    obs = cc.observe(ck, configs, need_valid=True)
    traces, cfg_by_step = [], {}
    for w in worlds:
        o = obs[("base", w["id"], "1")]
        tr = {"id": str(w["id"]), "base": cc.tla_obs(o), "steps": []}
        for key, v, knobs in configs:
            if key[1] != w["id"] or key[0] == "base":
                continue
            p = obs[key]
            if o["errors"] or p["errors"]:
                continue
            n, d = key[2].split(":")[-1].split("/")
            tr["steps"].append({"act": key[0], "arg": key[2], "f": [int(n), int(d)], "t": [0, 1], "r": [0, 1],
                                "obs": cc.tla_obs(p)})
            cfg_by_step[(tr["id"], len(tr["steps"]))] = (w, v, knobs, o, p)
            if o.get("optE"):
                ck.count_nontrivial((w["id"], key[0], key[2]))
        traces.append(tr)
    verdicts = cc.validate(ck, traces)
    cc.report(ck, "C19", traces, verdicts, None, cfg_by_step)


def replay(path):
    import os
    rec = json.load(open(path))
    ck = Check("C19", "quick", 0)
    ck.work = os.path.join(os.path.dirname(os.path.abspath(path)), "_replay_tmp")
    os.makedirs(ck.work, exist_ok=True)
    obs = cc.observe(ck, [("base", rec["base_world"], None), ("new", rec["new_world"], rec.get("knobs"))], need_valid=True)
    n, d = rec["arg"].split(":")[-1].split("/")
    tr = {"id": "r", "base": cc.tla_obs(obs["base"]),
          "steps": [{"act": rec["act"], "arg": rec["arg"], "f": [int(n), int(d)], "t": [0, 1], "r": [0, 1],
                     "obs": cc.tla_obs(obs["new"])}]}
    v = cc.validate(ck, [tr])[0]
    print({k: str(x) for k, x in obs["base"].items()}, "->", {k: str(x) for k, x in obs["new"].items()}, v["verdict"])
    if not all(v["verdict"].values()):
        print("VIOLATION property=C19 replay=%s" % path)
        return 1
    print("no disagreement on this case")
    return 0
