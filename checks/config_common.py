"""Shared driver for C16-C19: configurations of a micro-spec, the real mapper's observable
optimum for each, and validation of every (base, action, successor) step by
spec/ConfigLattice.tla."""
from __future__ import annotations

import copy
import json
import os
import random
from fractions import Fraction

from checks import mapper_common as mc
from harness import loopnest as ln
from harness.core import Machinery

NONE = [0, 0]


def fz(x):
    return NONE if x is None else [x.numerator, x.denominator]


def observe(ck, configs, need_valid=False):
    """configs: list of (key, world, knobs).  Returns {key: obs} with optE/optL/optEDP and validity."""
    jobs, keys = [], []
    for key, w, knobs in configs:
        for m in mc.METRICS:
            jobs.append((w, (m,), knobs, True))
            keys.append((key, m))
    outs = dict(zip(keys, mc.run_mapper(ck, jobs)))
    obs, rows_by_key = {}, {}
    for key, w, knobs in configs:
        o = {"valid": True, "errors": 0}
        rows_by_key[key] = []
        for m, name in zip(mc.METRICS, ("optE", "optL", "optEDP")):
            r = outs[(key, m)]
            ck.evaluations += 1
            if "exception" in r:
                ck.impl_errors += 1
                o["errors"] += 1
                if ck.impl_error_sample is None:
                    ck.impl_error_sample = {"case": {"config": str(key), "metric": m}, "traceback": r["traceback"]}
                o[name] = None
                continue
            vals = [mc.objective(m, mc.fr(x["totals"]["energy"]), mc.fr(x["totals"]["latency"])) for x in r["rows"]]
            o[name] = min(vals) if vals else None
            rows_by_key[key] += [(w, x) for x in r["rows"]]
        obs[key] = o
    if need_valid:
        cases, owner = [], {}
        for key, rows in rows_by_key.items():
            for i, (w, x) in enumerate(rows):
                if x.get("nodes") is None or any(n["kind"] not in ("S", "T", "C") for n in x["nodes"]):
                    continue
                cid = "%s#%d" % (json.dumps(key), i)
                cases.append({"id": cid, "world": w, "nodes": x["nodes"], "join": {"energy": [0, 1], "latency": [0, 1]},
                              "model": {"energy": [0, 1], "latency": [0, 1]}})
                owner[cid] = key
        for cid, v in mc.trace_mapping_verdicts(ck, cases, "valid").items():
            ok = v.get("wellformed") and all(v.get(c) for c in ("once", "keep", "may", "cap"))
            if not ok:
                obs[owner[cid]]["valid"] = False
                obs[owner[cid]].setdefault("invalid_nodes", next(c["nodes"] for c in cases if c["id"] == cid))
    return obs


def tla_obs(o):
    return {"optE": fz(o.get("optE")), "optL": fz(o.get("optL")), "optEDP": fz(o.get("optEDP")),
            "valid": bool(o.get("valid", True))}


def validate(ck, traces, tag="cl"):
    path = os.path.join(ck.work, "traces_%s.json" % tag)
    with open(path, "w") as f:
        json.dump(traces, f)
    res = ck.tlc("ConfigLattice", "ConfigLattice.cfg", env={"TRACES_FILE": path}, coverage=False, timeout=900)
    nsteps = sum(len(t["steps"]) for t in traces)
    if not res.ok or len(res.records) != nsteps:
        raise Machinery("ConfigLattice validation failed (%d verdicts for %d steps): %s\n%s"
                        % (len(res.records), nsteps, res.violated, res.tail))
    return res.records


def small_worlds(ck, n, start):
    rng = random.Random(5500 * ck.seed + start)
    out = []
    for i in range(n):
        w = mc.gen_microspec(rng, start + i, n_mem=2 if i % 3 else 3)
        # keep numbers small enough for TLC's 32-bit cross-multiplication
        for c in w["cost"]:
            for a in w["cost"][c]["energy"]:
                w["cost"][c]["energy"][a] = rng.randint(1, 8)
        out.append(w)
    return out


def bandwidth_worlds(ck, n, start):
    """Memory-bound 3-level matmuls (DRAM, GLB, RF; finite GLB/RF; few actions per cycle at DRAM and GLB): latency
    depends on the tile shapes, so the energy-optimal, latency-optimal and EDP-optimal tile shapes of a template
    differ.  Too large for the Mapspace enumeration; used by the checks that need mapper runs only."""
    rng = random.Random(7700 * ck.seed + start)
    out = []
    for i in range(n):
        bounds = [[8, 8, 8], [8, 4, 8], [16, 4, 4], [8, 8, 4]][i % 4] if i else [8, 8, 8]
        w = mc.gen_microspec(rng, start + i, n_mem=3, bounds=bounds, kind="matmul")
        for t in w["tensors"]:
            w["wbits"][t] = 8
            for c in w["bits"]:
                w["bits"][c][t] = 8
        mems = sorted(w["level"], key=lambda c: w["level"][c])
        e = {mems[0]: rng.choice([8, 16]), mems[1]: rng.choice([2, 4]), mems[2]: 1}
        tp = {mems[0]: [rng.choice([2, 4]), 1], mems[1]: [rng.choice([2, 8]), 1], mems[2]: [1, 0]}
        for c in mems:
            for a in w["cost"][c]["energy"]:
                w["cost"][c]["energy"][a] = e[c]
                w["cost"][c]["tput"][a] = tp[c]
            if w["level"][c]:
                w["keep"][c] = []
                w["maykeep"][c] = list(w["tensors"])
        w["size"][mems[1]] = rng.choice([512, 1024])
        w["size"][mems[2]] = rng.choice([64, 128])
        w["mac"]["energy"], w["mac"]["tput"] = 1, [1, 1]
        out.append(w)
    return out


def tradeoff_worlds(ck, n, start):
    """2-level matmuls with a long m against short n, k, an expensive DRAM and a slow GLB whose throughput is not a power
    of two: keeping a tensor in the GLB saves energy and costs GLB bandwidth, so the energy-latency front has several
    points that are close to each other (within a factor 2 in both objectives)."""
    rng = random.Random(9900 * ck.seed + start)
    out = []
    for i in range(n):
        bounds = [[32, 2, 2], [16, 4, 4], [16, 2, 4], [32, 4, 2]][i % 4]
        w = mc.gen_microspec(rng, start + i, n_mem=2, bounds=bounds, kind="matmul")
        for t in w["tensors"]:
            w["wbits"][t] = 8
            for c in w["bits"]:
                w["bits"][c][t] = 8
        mems = sorted(w["level"], key=lambda c: w["level"][c])
        e = {mems[0]: rng.choice([5, 10]), mems[1]: 1}
        tp = {mems[0]: [rng.choice([2, 4]), 1], mems[1]: [rng.choice([7, 3, 5]), 1]}
        for c in mems:
            for a in w["cost"][c]["energy"]:
                w["cost"][c]["energy"][a] = e[c]
                w["cost"][c]["tput"][a] = tp[c]
        w["keep"][mems[1]] = []
        w["maykeep"][mems[1]] = list(w["tensors"])
        w["size"][mems[1]] = 0
        w["mac"]["energy"], w["mac"]["tput"] = 1, [1, 1]
        out.append(w)
    return out


def report(ck, pid, traces, verdicts, worlds_by_trace, configs_by_step):
    """Turn ConfigLattice verdict records into violations."""
    for v in verdicts:
        ck.traces += 1
        bad = [c for c, ok in v["verdict"].items() if not ok]
        key = (v["id"], v["step"])
        w_base, w_new, knobs, o, p = configs_by_step[key]
        if bad:
            ck.violation("%s/%s/%s/%s" % (pid, v["act"], v["arg"].split(":")[0], bad[0]),
                         "micro-spec %s, action %s(%s): clause '%s' fails; base observation %s, successor observation %s"
                         % (v["id"], v["act"], v["arg"], bad[0],
                            {k: str(x) for k, x in o.items() if k.startswith("opt")} | {"valid": o.get("valid")},
                            {k: str(x) for k, x in p.items() if k.startswith(("opt", "min"))} | {"valid": p.get("valid")}),
                         {"base_world": w_base, "new_world": w_new, "knobs": knobs, "act": v["act"], "arg": v["arg"],
                          "clause": bad[0]})
        if len(ck.samples) < 5:
            ck.sample({"microspec": v["id"], "act": v["act"], "arg": v["arg"], "verdict": v["verdict"],
                       "base": {k: str(x) for k, x in o.items() if k.startswith("opt")},
                       "successor": {k: str(x) for k, x in p.items() if k.startswith(("opt", "min"))}})
