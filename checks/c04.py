"""C04 — mapper-reported metrics equal the model's evaluation of the returned mapping.

Binding C: the mapper is run twice on every micro-spec (eval_in_detail=False: the joiner's
own totals; eval_in_detail=True: the model's totals for the reconstructed mapping).  Rows
are paired by their LoopTree.  The pair (JoinReport, ModelReport) plus the tree is one
trace of spec/Trace_Mapping.tla: TLC checks JoinReport = ModelReport for energy and latency
exactly (the property's equality) and, as a third witness that tells which side moved,
executes the tree (LoopNest + CostModel).  EDP, resource usage and every per-Einsum column
present in both reports are compared with a float32-rounding allowance (2^-22 relative),
which the property grants.
"""
from __future__ import annotations

import json
from fractions import Fraction

from checks import mapper_common as mc
from harness import loopnest as ln
from harness.core import Check, Machinery

REL = Fraction(1, 2 ** 22)


def close(a, b):
    if a == b:
        return True
    return abs(a - b) <= REL * max(abs(a), abs(b))


def compare_rows(jrow, row):
    """columns present in both reports (totals and per-Einsum breakdown)"""
    bad = []
    for k, v in jrow["totals"].items():
        if k in row["totals"] and not isinstance(v, str) and not isinstance(row["totals"][k], str):
            a, b = mc.fr(v), mc.fr(row["totals"][k])
            if not close(a, b):
                bad.append(("Total<SEP>" + k, a, b))
    n = 0
    for k, v in jrow["cols"].items():
        if k in row["cols"] and not isinstance(v, str) and not isinstance(row["cols"][k], str):
            n += 1
            a, b = mc.fr(v), mc.fr(row["cols"][k])
            if not close(a, b):
                bad.append((k, a, b))
    return bad, n


def run(ck: Check):
    thorough = ck.tier == "thorough"
    ck.rule = ("micro-specs as in C03; the mapper runs with eval_in_detail False and True for ENERGY, ENERGY|LATENCY, EDP and "
               "ENERGY|LATENCY|RESOURCE_USAGE; every returned row of the detailed run that has a row with the same LoopTree in "
               "the undetailed run is one trace. Non-trivial = pair whose LoopTree uses an inner memory; distinct by "
               "(world, metrics, row).")
    worlds = mc.mapper_worlds(ck, 5 if not thorough else 30, 1000)
    msets = [("ENERGY",), ("ENERGY", "LATENCY"), ("ENERGY", "RESOURCE_USAGE"), ("ENERGY", "LATENCY", "RESOURCE_USAGE")]
    if thorough:
        msets.append(("ENERGY_DELAY_PRODUCT",))
    cases, info = mc.returned_cases(ck, worlds, msets, detail_both=True)
    verdicts = mc.trace_mapping_verdicts(ck, cases, "c04")
    unpaired = 0
    shared_cols = 0
    for cid, meta in info.items():
        if meta.get("nodes") is None or meta.get("unsupported"):
            continue
        if meta.get("jrow") is None:
            unpaired += 1
            continue
        v = verdicts[cid]
        ck.traces += 1
        nodes = meta["nodes"]
        if any(n["kind"] == "S" and meta["world"]["level"][n["mem"]] > 0 for n in nodes):
            ck.count_nontrivial(cid)
        bad, n = compare_rows(meta["jrow"], meta["row"])
        shared_cols += n
        tlc_bad = []
        if meta["tlc_numbers"] and v.get("wellformed"):
            if not v["join_model_energy_eq"]:
                tlc_bad.append("energy")
            if not v["join_model_latency_eq"]:
                tlc_bad.append("latency")
        if tlc_bad or bad:
            which = tlc_bad[0] if tlc_bad else bad[0][0].split("<SEP>")[-1 if bad[0][0].startswith("Total") else 1]
            witness = ""
            if v.get("wellformed") and meta["tlc_numbers"]:
                witness = (" ; executing the tree gives energy %s latency %s (join agrees: %s/%s, model agrees: %s/%s)"
                           % (v["energy"], v["latency"], v["join_energy_ok"], v["join_latency_ok"],
                              v["model_energy_ok"], v["model_latency_ok"]))
            ck.violation("C04/join-report-differs-from-model-report/%s" % which,
                         "world %d metrics %s mapping %s: %s%s"
                         % (meta["world"]["id"], "+".join(meta["mset"]), ln.short(nodes),
                            "; ".join("%s join=%s model=%s" % (k, float(a), float(b)) for k, a, b in bad[:5]) or tlc_bad,
                            witness),
                         {"world": meta["world"], "nodes": nodes, "metrics": meta["mset"]})
        if len(ck.samples) < 4:
            ck.sample({"mapping": ln.short(nodes), "metrics": meta["mset"],
                       "join_totals": {k: str(mc.fr(x)) for k, x in meta["jrow"]["totals"].items() if not isinstance(x, str)},
                       "model_totals": {k: str(mc.fr(x)) for k, x in meta["row"]["totals"].items() if not isinstance(x, str)},
                       "spec_execution": {"energy": v.get("energy"), "latency": v.get("latency")}})
    ck.extra["rows_without_partner_in_undetailed_run"] = unpaired
    ck.extra["shared_breakdown_columns_compared"] = shared_cols
    if ck.traces == 0:
        raise Machinery("no (join, model) row pair could be formed")


def replay(path):
    import os
    rec = json.load(open(path))
    d = os.path.join(os.path.dirname(os.path.abspath(path)), "_replay_tmp")
    a = mc._mapper_job((rec["world"], tuple(rec["metrics"]), None, d, False))
    b = mc._mapper_job((rec["world"], tuple(rec["metrics"]), None, d, True))
    if "exception" in a or "exception" in b:
        print(a.get("traceback"), b.get("traceback")); return 2
    jr = {json.dumps(r.get("nodes")): r for r in a["rows"]}
    bad_any = False
    for r in b["rows"]:
        j = jr.get(json.dumps(r.get("nodes")))
        if j is None:
            continue
        bad, n = compare_rows(j, r)
        print(ln.short(r["nodes"]), "columns compared:", n, "differences:", [(k, float(x), float(y)) for k, x, y in bad])
        bad_any |= bool(bad)
    if bad_any:
        print("VIOLATION property=C04 replay=%s" % path)
        return 1
    print("no disagreement on this case")
    return 0
