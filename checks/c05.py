"""C05 — model action counts, energy and latency equal explicit LoopTree execution.

Spec: spec/LoopNest.tla (operational semantics: the loop nest is executed node by node),
spec/CostModel.tla (values -> actions -> energy/latency with the documented precedence),
spec/MC_LoopNest.tla (TLC constructs every mapping within bounds, then executes it).
Binding B: every mapping TLC constructed and executed is handed to the real
evaluate_mapping; per-(component, tensor, action) counts, total energy and total latency
must be exactly equal (rationals).
"""
from __future__ import annotations

import json
import random
from fractions import Fraction

from harness import loopnest as ln
from harness import microspec as ms
from harness.core import Check, Machinery


def _worlds(ck, n, *, toll_frac=0.0, start=1, exhaustive=False):
    rng = random.Random(1000 * ck.seed + start)
    out = []
    kinds = ["matmul", "matmul", "matvec", "reduce", "elementwise"]
    for i in range(n):
        kind = kinds[(i + ck.seed) % len(kinds)] if not exhaustive else ["matmul", "reduce", "matvec"][i % 3]
        n_mem = 2 if (exhaustive or i % 2 == 0) else 3
        nrv = {"matmul": 3, "matvec": 2, "reduce": 2, "elementwise": 2}[kind]
        if exhaustive:
            bounds = [2] * nrv if kind == "matmul" else [2, 4][:nrv]
        else:
            bounds = [rng.choice([2, 3, 4, 4, 6, 8]) for _ in range(nrv)]
            while 1:
                p = 1
                for b in bounds:
                    p *= b
                if p <= 64:
                    break
                bounds[bounds.index(max(bounds))] = 2
        w = ms.gen_world(rng, start + i, n_mem=n_mem, toll=(rng.random() < toll_frac),
                         bounds=bounds, rich_costs=True, kind=kind)
        if not exhaustive and i % 3 == 1:
            w["ninst"] = rng.choice([2, 3])     # workload n_instances: totals scale
        if i % 2 == 1:
            w["allowpers"] = True               # persistent (untiled, per-instance) input holders may be constructed
        out.append(w)
    return out


def compare(ck: Check, worlds, records, outs, label, prop="C05", toll_only=False):
    byid = {w["id"]: w for w in worlds}
    for rec, out in zip(records, outs):
        w = byid[rec["wid"]]
        ck.evaluations += 1
        has_toll = any(n["kind"] == "S" and w["istoll"][n["mem"]] for n in rec["nodes"])
        if toll_only and not has_toll:
            continue
        if "exception" in out:
            ck.impl_errors += 1
            if ck.impl_error_sample is None:
                ck.impl_error_sample = {"case": {"world": w["id"], "nodes": ln.short(rec["nodes"])},
                                        "traceback": out["traceback"]}
            continue
        if "error" in out:
            # infinite memories in these worlds: the model must not reject a well-formed mapping
            ck.violation("%s/rejects-wellformed-mapping/%s" % (prop, out["error"]),
                         "model raised %s on %s: %s" % (out["error"], ln.short(rec["nodes"]), out["msg"][:300]),
                         {"world": w, "nodes": rec["nodes"], "expected": rec})
            continue
        ck.traces += 1
        exp = ln.expected_actions(rec)
        got = out["actions"]
        depth_below = any(n["kind"] == "S" and any(m["kind"] == "T" for m in rec["nodes"][:j])
                          for j, n in enumerate(rec["nodes"]))
        if depth_below or has_toll:
            ck.count_nontrivial((rec["wid"], json.dumps(rec["nodes"])))
        bad = []
        for k, v in exp.items():
            g = got.get(k, Fraction(0))
            if g != v:
                bad.append((k, v, g))
        for k, g in got.items():
            if k not in exp and k[0] != "MAC" and g != 0:
                bad.append((k, Fraction(0), g))
        mac = got.get(("MAC", "None", "compute"))
        if mac is not None and mac != rec.get("mac_actions", rec["macs"]):
            bad.append((("MAC", "None", "compute"), Fraction(rec.get("mac_actions", rec["macs"])), mac))
        e, l = Fraction(*rec["energy"]), Fraction(*rec["latency"])
        if bad:
            k, v, g = bad[0]
            comp, t, a = k
            sig = "%s/actions/%s/%s/%s" % (prop, "toll" if w["istoll"].get(comp) else ("mac" if comp == "MAC" else "memory"),
                                          a, "output" if t == w["out"] else "input")
            ck.violation(sig, "mapping %s in world %d: %s" % (
                ln.short(rec["nodes"]), w["id"],
                "; ".join("%s spec=%s impl=%s" % (kk, vv, gg) for kk, vv, gg in bad[:6])),
                {"world": w, "nodes": rec["nodes"], "expected": rec})
        elif out["latency"] != l:
            ck.violation("%s/latency" % prop, "mapping %s in world %d: latency spec=%s impl=%s" % (
                ln.short(rec["nodes"]), w["id"], l, out["latency"]),
                {"world": w, "nodes": rec["nodes"], "expected": rec})
        elif out["energy"] != e:
            ck.violation("%s/energy" % prop, "mapping %s in world %d: energy spec=%s impl=%s" % (
                ln.short(rec["nodes"]), w["id"], e, out["energy"]),
                {"world": w, "nodes": rec["nodes"], "expected": rec})
    if records:
        r = records[len(records) // 3]
        ck.sample({"generator": label, "world": r["wid"], "mapping": ln.short(r["nodes"]),
                   "spec_reads": r["rd"], "spec_writes": r["wr"], "macs": r["macs"],
                   "energy": r["energy"], "latency": r["latency"]})


def run(ck: Check):
    thorough = ck.tier == "thorough"
    ck.rule = ("TLC constructs mappings (holders at any depth, any loop order, perfect factors, 2-3 levels) of "
               "generated worlds (matmul/matvec/reduce/elementwise; random per-action energies, throughputs, bits per "
               "value/action, values per action, skip_initial_output_write flags) and executes them; each is replayed into "
               "evaluate_mapping. Non-trivial = a holder sits below at least one loop (or a Toll is present); distinct by "
               "(world, node sequence).")
    ck.trusted += ["YAML writer harness/microspec.py (world -> arch/workload/mapping)",
                   "exact float -> Fraction conversion of the model's outputs"]
    # coverage / vacuity: every action of the machine is taken
    small = _worlds(ck, 1, exhaustive=True)
    ln.coverage_run(ck, small, "MC_LoopNest_tiny.cfg", "cov")
    # exhaustive construction on small worlds
    ex_worlds = _worlds(ck, 2 if not thorough else 6, exhaustive=True, start=10)
    res = ln.run_tlc(ck, ex_worlds, "MC_LoopNest_small.cfg" if not thorough else "MC_LoopNest_mid.cfg", "exh",
                     timeout=3000)
    if not res.ok:
        raise Machinery("MC_LoopNest exhaustive run failed: %s\n%s" % (res.violated, res.tail))
    outs = ln.evaluate_records(ck, ex_worlds, res.records)
    compare(ck, ex_worlds, res.records, outs, "exhaustive")
    ck.extra["exhaustive_mappings"] = len(res.records)
    # random walks on bigger worlds (3 levels, bounds up to 8, tolls)
    sim_worlds = _worlds(ck, 8 if not thorough else 40, toll_frac=0.3, start=100)
    res = ln.run_tlc(ck, sim_worlds, "MC_LoopNest_sim.cfg", "sim",
                     simulate="num=%d" % (500 if not thorough else 12000), depth=1500, seed=ck.seed + 1,
                     workers=8, timeout=3000)
    if not res.ok:
        raise Machinery("MC_LoopNest simulation failed: %s\n%s" % (res.violated, res.tail))
    outs = ln.evaluate_records(ck, sim_worlds, res.records)
    compare(ck, sim_worlds, res.records, outs, "simulate")
    ck.extra["simulated_mappings"] = len(res.records)


def replay(path):
    import os
    rec = json.load(open(path))
    d = os.path.join(os.path.dirname(os.path.abspath(path)), "_replay_tmp")
    out = ms.evaluate(rec["world"], rec["nodes"], d, "replay")
    exp = ln.expected_actions(rec["expected"])
    print("mapping:", ln.short(rec["nodes"]))
    bad = 0
    if "error" in out:
        print("model raised", out)
        bad = 1
    else:
        for k, v in sorted(exp.items()):
            g = out["actions"].get(k, Fraction(0))
            flag = "" if g == v else "   <-- differs"
            if g != v:
                bad += 1
            print("  %-28s spec=%-10s impl=%-10s%s" % (k, v, g, flag))
        for name in ("energy", "latency"):
            v = Fraction(*rec["expected"][name])
            g = out[name]
            if v != g:
                bad += 1
            print("  %-28s spec=%-10s impl=%-10s%s" % (name, v, g, "" if v == g else "   <-- differs"))
    if bad:
        print("VIOLATION property=%s replay=%s" % (rec.get("property", "C05"), path))
        return 1
    print("no disagreement on this case")
    return 0
