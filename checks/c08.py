"""C08 — tile-shape exploration prunes without losing any Pareto-optimal choice.

Spec: spec/MC_TileAssign.tla enumerates EVERY perfectly factorising tile assignment of
every template of a micro-spec; spec/Trace_Mapping.tla executes each instance (objectives,
reserved footprint, capacity validity); spec/Fronts.tla (on Pareto.tla) compares the
Pareto front of the exhaustive valid assignments with the Pareto front of the table that
the real pruned enumeration make_tile_shapes(job) returned for the same template
(recorded through the ACCELFORGE_VERIF_RECORD hook): every exhaustive valid point must be
weakly dominated by a returned row, and every non-dominated returned row must equal an
exhaustive valid point.  Role A (TLC, spec/TilePrune.tla): pruning partial assignments by a
per-symbol goal is sound exactly under the monotonicity premise that C09 discharges.
"""
from __future__ import annotations
import os

import json
import random
from fractions import Fraction

from checks import c07
from checks import mapper_common as mc
from checks import tile_common as tc
from harness import loopnest as ln
from harness.core import Check, Machinery

MSETS = [("ENERGY",), ("LATENCY",), ("ENERGY_DELAY_PRODUCT",), ("ENERGY", "LATENCY")]


def objective_cols(mset):
    if mset == ("ENERGY",):
        return ["energy"]
    if mset == ("LATENCY",):
        return ["latency"]
    return ["energy", "latency"]


def leaky_worlds(ck, n, start):
    """Leak energy that decides tile shapes: DRAM is expensive and fast, the GLB is cheap, slow and leaky.  The tile shape
    with the least dynamic energy (least DRAM traffic) is then not the one with the least total energy (least GLB time)."""
    import random
    rng = random.Random(ck.seed * 41 + start)
    out = []
    for i in range(n):
        w = mc.gen_microspec(rng, start + i, n_mem=3, kind="matmul", bounds=[[4, 4, 2], [8, 2, 2], [4, 2, 4]][i % 3])
        mems = sorted(w["level"], key=lambda c: w["level"][c])
        for c, (e, tp, leak) in zip(mems, ((16, [1, 0], 0), (1, [1, 1], rng.choice([32, 64])), (1, [1, 0], 0))):
            for a in w["cost"][c]["energy"]:
                w["cost"][c]["energy"][a] = e
                w["cost"][c]["tput"][a] = tp
            w["cost"][c]["leak"] = leak
            if w["level"][c]:
                w["keep"][c] = []
                w["maykeep"][c] = list(w["tensors"])
        out.append(w)
    return out


def large_part(ck):
    """Templates in the partial-pruning regime (make_tile_shapes Pareto-prunes PARTIAL assignments once 1000 or more of
    them are alive and symbols remain).  Executing every instance in TLC is out of reach at these sizes, so the oracle is
    the property's own: every perfect assignment (TLC, MC_TileAssign) is evaluated with the template's recorded compiled
    formulas (validated against execution by C07), valid ones (all usages <= 1, same float32 arithmetic as the mapper)
    are reduced to their distinct objective vectors and Fronts decides pruned = exhaustive."""
    import random
    rng = random.Random(ck.seed * 53 + 8)
    w = mc.gen_microspec(rng, 880, n_mem=3, kind="matmul", bounds=[128, 128, 128])
    mems = sorted(w["level"], key=lambda c: w["level"][c])
    for t in w["tensors"]:
        w["wbits"][t] = 8
        for c in w["bits"]:
            w["bits"][c][t] = 8
    for c, e in zip(mems, (64, 4, 1)):
        for a in w["cost"][c]["energy"]:
            w["cost"][c]["energy"][a] = e
            w["cost"][c]["tput"][a] = [1, 0]
        w["cost"][c]["leak"] = 0
        if w["level"][c]:
            w["keep"][c] = []
            w["maykeep"][c] = list(w["tensors"])
    w["size"][mems[1]], w["size"][mems[2]] = 65536, 2048
    w["mac"]["energy"], w["mac"]["tput"] = 1, [1, 1]
    mset = ("ENERGY",)
    outs = tc.collect(ck, [w], mset, nproc=1, large={"min_assign": 1000, "max_total": 700000, "cols": ["energy"]})
    o = outs[0]
    if "exception" in o:
        return
    cases, meta = [], {}
    for t in o["templates"]:
        cands = [[mc.fr(x) for x in c] for c in t["cands"]]
        ret = []
        for row in t["table"]:
            x = row.get("Total<SEP>energy")
            if x is not None and not isinstance(x, str):
                ret.append([mc.fr(x)])
        if not cands:
            continue
        cid = "large/%s" % t["id"]
        rc, rr = mc.rank_columns(cands, ret)
        cases.append({"id": cid, "kind": "front", "cands": rc, "ret": rr})
        meta[cid] = (t, cands, ret)
        ck.count_nontrivial(cid)
    ck.extra["large_templates_total"] = o.get("n_templates")
    ck.extra["large_templates_in_regime"] = o.get("n_big")
    ck.extra["large_templates_checked"] = len(cases)
    ck.extra["large_assignments_enumerated"] = sum(t["n_assignments"] for t in o["templates"])
    if not cases:
        raise Machinery("large part: no template in the partial-pruning regime was recorded")
    verdicts = mc.fronts_verdicts(ck, cases)
    for cid, v in verdicts.items():
        t, cands, ret = meta[cid]
        ck.traces += 1
        if v["uncovered"]:
            k = v["uncovered"] - 1
            ck.violation("C08/partial-pruning-regime/pruned-enumeration-loses-pareto-point/ENERGY",
                         "128x128x128 matmul, GLB 65536 b, RF 2048 b, template %s (symbols %s, %d perfect assignments, %d valid): "
                         "assignment %s has energy %s by the template's own compiled formulas and all usages <= 1; "
                         "make_tile_shapes returned %d row(s) with energies %s"
                         % (ln.short(t["nodes"]), t["syms"], t["n_assignments"], t["n_valid"], t["cand_assignment"][k],
                            [str(x) for x in cands[k]], len(ret), sorted({str(r[0]) for r in ret})[:4]),
                         {"world": w, "metrics": mset, "template_nodes": t["nodes"], "assignment": t["cand_assignment"][k],
                          "kind": "large"})
    ck.sample({"part": "large", "templates_checked": len(cases), "example_template": ln.short(o["templates"][0]["nodes"]),
               "assignments": o["templates"][0]["n_assignments"], "valid": o["templates"][0]["n_valid"]})


def run(ck: Check):
    thorough = ck.tier == "thorough"
    ck.rule = ("micro-specs (1 Einsum, 2-3 memories, finite and infinite inner sizes, keep/may_keep); every template of "
               "make_pmappings for the metric sets ENERGY, LATENCY, EDP, ENERGY|LATENCY at zero tolerance, perfect "
               "factorisation; exhaustive assignments from TLC. Non-trivial = template with at least two valid assignments "
               "with different objective vectors; distinct by (micro-spec, metrics, template).")
    ck.assumptions += ["imperfect factorisation, loop_bounds and max-fused-loop constraints of the quantifier are not exercised "
                       "yet (perfect assignments, single Einsum, no spatial fanout)"]
    ck.tlc_expect_ok("TilePrune", "TilePrune_mono.cfg", timeout=900)
    r = ck.tlc("TilePrune", "TilePrune_nonmono.cfg", timeout=900)
    if r.ok:
        raise Machinery("role-A negative lemma: goal pruning without the monotonicity premise must lose an optimum")
    ck.extra["role_A"] = ("TilePrune: pruning partial assignments by a goal is sound for objectives monotone in the pruned "
                          "symbol (TLC, all small tables); without monotonicity TLC finds a lost optimum")
    # every metric set in both tiers: which objectives steer the pruning depends on the metric set
    nworlds = 3 if not thorough else 12
    cases, meta = [], {}
    for mi, mset in enumerate(MSETS):
        worlds = c07.worlds_for(ck, nworlds, 100 + 20 * mi)
        if mi in (0, 2):
            worlds = worlds[:-1] + leaky_worlds(ck, 1 if not thorough else 3, 190 + 20 * mi)
        if mi % 2:
            for w in worlds:
                for c in w["size"]:
                    w["size"][c] = 0  # infinite memories
        outs = tc.collect(ck, worlds, mset)
        tcases, index, verdicts = tc.execute_all(ck, worlds, outs, "c08_%d" % mi)
        by_t = {}
        for c in tcases:
            w, t, k = index[c["id"]]
            by_t.setdefault((w["id"], t["id"]), []).append((c, verdicts[c["id"]], k))
        for w, o in zip(worlds, outs):
            if "exception" in o:
                continue
            for t in o["templates"]:
                if t.get("unsupported"):
                    ck.extra["templates_unsupported"] = ck.extra.get("templates_unsupported", 0) + 1
                    continue
                inst = by_t.get((w["id"], t["id"]), [])
                cols = objective_cols(mset)
                cands, cand_nodes, exact_fit = [], [], []
                for c, v, k in inst:
                    if not v.get("wellformed") or not v["cap"]:
                        continue
                    vec = []
                    if "energy" in cols:
                        vec.append(Fraction(*v["energy"]))
                    if "latency" in cols:
                        vec.append(Fraction(*v["latency"]))
                    # an assignment that fills a memory exactly (footprint = size) and whose float32 usage formula
                    # nevertheless comes out above 1 (size not a power of two: bits * float32(1/size) > 1) is judged
                    # apart (known finding C08/exact-fit...): it is valid by execution and by evaluate_mapping
                    fit = [m for m in v["footprint"] if w["size"].get(m) and v["footprint"][m] == w["size"][m]
                           and not isinstance(t["formulas"].get("usage<SEP>memory<SEP>" + m, [None] * (k + 1))[k], (str, type(None)))
                           and mc.fr(t["formulas"]["usage<SEP>memory<SEP>" + m][k]) > 1]
                    if fit:
                        exact_fit.append((vec, c["nodes"], fit[0]))
                        continue
                    cands.append(vec)
                    cand_nodes.append(c["nodes"])
                ret = []
                for row in t["table"]:
                    vec = []
                    ok = True
                    for col in cols:
                        x = row.get("Total<SEP>" + col)
                        if x is None or isinstance(x, str):
                            ok = False
                        else:
                            vec.append(mc.fr(x))
                    if ok:
                        ret.append(vec)
                for vec, nodes_, mem in exact_fit:
                    if not any(all(r[i] <= vec[i] for i in range(len(vec))) for r in ret):
                        ck.violation("C08/exact-fit-assignment-rejected-by-float32-usage-formula",
                                     "world %d (memory %s of %s bits) template %s: assignment %s fills %s exactly (usage 1 by "
                                     "execution and by evaluate_mapping) and has objectives %s, but its compiled usage formula "
                                     "evaluates above 1 in float32, make_tile_shapes drops it and no returned row weakly "
                                     "dominates it (returned %s)"
                                     % (w["id"], mem, w["size"][mem], ln.short(t["nodes"]), ln.short(nodes_), mem,
                                        [str(x) for x in vec], [[str(x) for x in r] for r in ret][:6]),
                                     {"world": w, "metrics": mset, "template_nodes": t["nodes"], "nodes": nodes_, "kind": "exact-fit"})
                        ck.extra["exact_fit_assignments_lost"] = ck.extra.get("exact_fit_assignments_lost", 0) + 1
                cid = "%d/%s/%s" % (w["id"], "+".join(mset), t["id"])
                rc, rr = mc.rank_columns(cands, ret)
                cases.append({"id": cid, "kind": "front", "cands": rc, "ret": rr})
                meta[cid] = (w, mset, t, cands, cand_nodes, ret)
                if len({tuple(c) for c in cands}) >= 2:
                    ck.count_nontrivial(cid)
    if not cases:
        raise Machinery("no template was recorded")
    verdicts = mc.fronts_verdicts(ck, cases)
    for cid, v in verdicts.items():
        w, mset, t, cands, cand_nodes, ret = meta[cid]
        ck.traces += 1
        if v["uncovered"]:
            k = v["uncovered"] - 1
            ck.violation("C08/pruned-enumeration-loses-pareto-point/%s" % "+".join(mset),
                         "world %d template %s (symbols %s): valid assignment %s has objectives %s, which no row returned by "
                         "make_tile_shapes weakly dominates; returned objective vectors: %s"
                         % (w["id"], ln.short(t["nodes"]), t["syms"], ln.short(cand_nodes[k]), [str(x) for x in cands[k]],
                            [[str(x) for x in r] for r in ret][:8]),
                         {"world": w, "metrics": mset, "template_nodes": t["nodes"], "nodes": cand_nodes[k]})
        elif v["unmatched_nd"]:
            r = v["unmatched_nd"] - 1
            ck.violation("C08/pruned-enumeration-returns-point-outside-exhaustive-set/%s" % "+".join(mset),
                         "world %d template %s: returned row with objectives %s is non-dominated among the returned rows but "
                         "equals no valid perfectly factorising assignment (exhaustive front: %s)"
                         % (w["id"], ln.short(t["nodes"]), [str(x) for x in ret[r]],
                            sorted({tuple(str(x) for x in c) for c in cands})[:8]),
                         {"world": w, "metrics": mset, "template_nodes": t["nodes"], "nodes": None})
        if len(ck.samples) < 4 and len(cands) >= 2:
            ck.sample({"world": w["id"], "metrics": mset, "template": ln.short(t["nodes"]), "symbols": t["syms"],
                       "valid_assignments": len(cands), "assignments_enumerated_by_code": len(t["enumerated_by_code"]),
                       "returned_rows": len(ret), "exhaustive_front": sorted({tuple(str(x) for x in c) for c in cands})[:6]})

    if thorough or os.environ.get("C08_LARGE"):
        large_part(ck)


def replay(path):
    import os
    rec = json.load(open(path))
    ck = Check("C08", "quick", 0)
    ck.work = os.path.join(os.path.dirname(os.path.abspath(path)), "_replay_tmp")
    os.makedirs(ck.work, exist_ok=True)
    w, mset = rec["world"], tuple(rec["metrics"])
    if rec.get("kind") == "large":
        # the large part is one fixed spec: run it again (minutes) and report what it finds
        large_part(ck)
        for sig, detail, _, n in ck.violations:
            print(sig, detail[:600])
        if ck.violations:
            print("VIOLATION property=C08 replay=%s" % path)
            return 1
        print("no disagreement on this case")
        return 0
    outs = tc.collect(ck, [w], mset, nproc=1)
    tcases, index, verdicts = tc.execute_all(ck, [w], outs, "replay")
    cols = objective_cols(mset)
    bad = False
    for t in outs[0]["templates"]:
        if t.get("unsupported") or t["nodes"] != rec["template_nodes"]:
            continue
        cands = []
        for c in tcases:
            ww, tt, k = index[c["id"]]
            v = verdicts[c["id"]]
            if tt["id"] == t["id"] and v.get("wellformed") and v["cap"]:
                cands.append([Fraction(*v[x]) for x in cols])
        ret = [[mc.fr(row["Total<SEP>" + c]) for c in cols] for row in t["table"]]
        rc, rr = mc.rank_columns(cands, ret)
        v = mc.fronts_verdicts(ck, [{"id": "r", "kind": "front", "cands": rc, "ret": rr}])["r"]
        print("template", ln.short(t["nodes"]), "verdict", v)
        bad |= bool(v["uncovered"] or v["unmatched_nd"])
    if bad:
        print("VIOLATION property=C08 replay=%s" % path)
        return 1
    print("no disagreement on this case")
    return 0
