SPECIFICATION Spec
INVARIANT Emit
