\* random: up to 40 rows, values within a few percent of each other (small tolerances bite)
CONSTANTS
  R = 40
  Vals = {96, 100, 101, 102, 104, 108, 110, 112, 120, 128}
  DVals = {1, 2}
  SchemaIds = {4, 9, 10, 11, 12, 13}
  TolIds = {1, 2, 5, 6, 7, 9, 10, 12}
  ConstIds = {1, 2, 3, 4, 5}
  N = 300
INIT RandInit
NEXT RandNext
INVARIANT Emit
