------------------------------ MODULE TileShapes ------------------------------
(***************************************************************************)
(* Candidate tile shapes and mapspace-size counts (property C10).           *)
(*                                                                          *)
(* A loop splits an OUTER size (the tile it iterates over) into tiles of a  *)
(* candidate shape s that must be built from whole INNER tiles.             *)
(*   perfect factorisation:   s is a multiple of inner and divides outer;   *)
(*   imperfect factorisation: s need not divide outer, the loop then runs   *)
(*                            TileCount(outer, s) = ceil(outer / s) times.  *)
(* All definitions are brute force (set filters, explicit enumeration of    *)
(* chains); nothing is taken from the implementation.                       *)
(***************************************************************************)
EXTENDS Integers, Sequences, FiniteSets

CeilDiv(a, b) == (a + b - 1) \div b

Divisors(n) == {d \in 1..n : n % d = 0}

Min(S) == CHOOSE m \in S : \A x \in S : m <= x
Max(S) == CHOOSE m \in S : \A x \in S : x <= m

-----------------------------------------------------------------------------
(* Perfect factorisation: THE DEFINITION in the property's words.           *)
PerfectCands(inner, outer) == {s \in inner..outer : s % inner = 0 /\ outer % s = 0}

-----------------------------------------------------------------------------
(* Imperfect factorisation.                                                  *)
Multiples(inner, outer) == {s \in inner..outer : s % inner = 0}

TileCount(outer, s) == CeilDiv(outer, s)

\* tile counts that some admissible shape (a multiple of inner, at most outer) produces
AchievableTiles(inner, outer) == {TileCount(outer, s) : s \in Multiples(inner, outer)}

(* "the smallest shape giving that count".  The sentence can be read with    *)
(* shapes ranging over all integers (then it is ceil(outer/t)) or over the   *)
(* multiples of inner only.  Both are defined; for inner = 1 they coincide.  *)
SmallestShape(t, outer) == Min({s \in 1..outer : TileCount(outer, s) = t})
SmallestMultiple(t, inner, outer) == Min({s \in Multiples(inner, outer) : TileCount(outer, s) = t})

\* reading "int": smallest integer shape;  reading "mult": smallest multiple of inner
CoversInt(C, inner, outer)  == \A t \in AchievableTiles(inner, outer) : SmallestShape(t, outer) \in C
CoversMult(C, inner, outer) == \A t \in AchievableTiles(inner, outer) : SmallestMultiple(t, inner, outer) \in C

WithinOuter(C, outer) == \A s \in C : s >= 1 /\ s <= outer

\* DECISIVE predicate = the part on which both readings agree: a candidate set is
\* rejected only if, for some achievable tile count, it contains neither reading's
\* smallest shape, or if a candidate exceeds the outer size.
ImperfectOK_Def(C, inner, outer) ==
  /\ WithinOuter(C, outer)
  /\ \A t \in AchievableTiles(inner, outer) :
        SmallestShape(t, outer) \in C \/ SmallestMultiple(t, inner, outer) \in C

(* The same predicates without the inner Min over 1..outer (needed for outer *)
(* in the thousands): ceil(outer/s) is non-increasing in s, hence s is the   *)
(* smallest shape with its tile count iff the next smaller shape has another *)
(* count.  MC_TileShapes_lemma.cfg lets TLC check, for every outer <= 10,    *)
(* every inner | outer and EVERY subset C of 0..outer+1, that the fast forms *)
(* equal the definitions above.                                              *)
IsSmallestInt(s, outer) == s = 1 \/ TileCount(outer, s - 1) # TileCount(outer, s)
IsSmallestMult(s, inner, outer) ==
  s % inner = 0 /\ (s = inner \/ TileCount(outer, s - inner) # TileCount(outer, s))

Sane(C, outer) == {s \in C : s >= 1 /\ s <= outer}
CoveredInt(C, inner, outer)  == {TileCount(outer, s) : s \in {x \in Sane(C, outer) : IsSmallestInt(x, outer)}}
CoveredMult(C, inner, outer) == {TileCount(outer, s) : s \in {x \in Sane(C, outer) : x >= inner /\ IsSmallestMult(x, inner, outer)}}

CoversIntFast(C, inner, outer)  == AchievableTiles(inner, outer) \subseteq CoveredInt(C, inner, outer)
CoversMultFast(C, inner, outer) == AchievableTiles(inner, outer) \subseteq CoveredMult(C, inner, outer)

MissingTiles(C, inner, outer) ==
  AchievableTiles(inner, outer) \ (CoveredInt(C, inner, outer) \cup CoveredMult(C, inner, outer))

ImperfectOK(C, inner, outer) == WithinOuter(C, outer) /\ MissingTiles(C, inner, outer) = {}

-----------------------------------------------------------------------------
(* Mapspace-size counter.  A rank variable of size n is split by L nested    *)
(* loops, outermost first; pat[i] says whether loop i may factorise          *)
(* imperfectly.  A factorisation chain records the choice made for each loop *)
(* but the last (which takes whatever remains):                              *)
(*    perfect loop:   a choice c that divides the remaining size r,          *)
(*                    remaining size becomes r / c;                          *)
(*    imperfect loop: any choice c in 1..r, remaining size becomes           *)
(*                    ceil(r / c).                                           *)
(* ChainSet enumerates the chains explicitly; Chains counts them.            *)
Choices(r, imperfect) == IF imperfect THEN 1..r ELSE Divisors(r)

RECURSIVE ChainSet(_, _)
ChainSet(r, pat) ==
  IF Len(pat) <= 1 THEN {<<>>}
  ELSE UNION {{<<ch>> \o rest : rest \in ChainSet(CeilDiv(r, ch), Tail(pat))}
              : ch \in Choices(r, pat[1])}

Chains(n, pat) == Cardinality(ChainSet(n, pat))

(* Independent statements of the same thing, checked equal by TLC on small   *)
(* sizes (MC_TileShapes_lemma.cfg):                                          *)
(*  - IsChain: a choice sequence is a chain iff every step is admissible     *)
(*    (filter over ALL sequences in [1..L-1 -> 1..n]);                       *)
(*  - all-perfect patterns: chains = ordered factorisations of n into L      *)
(*    factors.                                                               *)
RECURSIVE IsChainFrom(_, _, _, _)
IsChainFrom(r, pat, q, i) ==
  IF i > Len(q) THEN TRUE
  ELSE /\ q[i] \in 1..r
       /\ pat[i] \/ r % q[i] = 0
       /\ IsChainFrom(CeilDiv(r, q[i]), pat, q, i + 1)

ChainSetByFilter(n, pat) ==
  IF Len(pat) <= 1 THEN {<<>>}
  ELSE {q \in [1..(Len(pat) - 1) -> 1..n] : IsChainFrom(n, pat, q, 1)}

RECURSIVE Prod(_, _)
Prod(f, k) == IF k = 0 THEN 1 ELSE f[k] * Prod(f, k - 1)
OrderedFactorisations(n, L) == {f \in [1..L -> Divisors(n)] : Prod(f, L) = n}
=============================================================================
