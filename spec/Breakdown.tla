------------------------------ MODULE Breakdown ------------------------------
(***************************************************************************)
(* Result breakdowns as derived views of one base table (property C28).     *)
(* A recorded result row is a finite function                               *)
(*     (einsum, component, tensor, action) |-> value                         *)
(* for energy and for action counts (leak energy has tensor "-"), a function *)
(*     (einsum, component) |-> latency,                                      *)
(* and the reservation columns (memory, column) |-> fraction.               *)
(* Every accessor of the Mappings API is a projection of these:             *)
(*   energy(flags) / actions(flags) : sum over the coordinates not kept      *)
(*   latency(per_einsum, per_component):                                     *)
(*        both      -> the table itself                                      *)
(*        einsum    -> max over components                                   *)
(*        component -> sum over Einsums                                      *)
(*        neither   -> sum over Einsums of the max over components           *)
(*   resource_usage() : max over a memory's reservation columns              *)
(* Values are integers (the harness scales the recorded rationals by one     *)
(* common denominator per table).                                            *)
(***************************************************************************)
EXTENDS Integers, Sequences, FiniteSets, TLC, Json, IOUtils

Cases == JsonDeserialize(IOEnv.CASES_FILE)

VARIABLE i
Init == i = 1
Next == i < Len(Cases) /\ i' = i + 1
Spec == Init /\ [][Next]_i

Rows(tbl) == {tbl[k] : k \in 1..Len(tbl)}

RECURSIVE SumV(_)
SumV(S) == IF S = {} THEN 0 ELSE LET r == CHOOSE x \in S : TRUE IN r.v + SumV(S \ {r})

MaxV(S) == IF S = {} THEN 0 ELSE LET r == CHOOSE x \in S : \A y \in S : y.v <= x.v IN r.v

\* key of a row under flags f = <<per_einsum, per_component, per_tensor, per_action>>
Key4(r, f) == <<IF f[1] THEN r.e ELSE "*", IF f[2] THEN r.c ELSE "*", IF f[3] THEN r.t ELSE "*", IF f[4] THEN r.a ELSE "*">>

Project4(tbl, f) ==
  LET R == Rows(tbl)
      Keys == {Key4(r, f) : r \in R}
  IN {[k |-> key, v |-> SumV({r \in R : Key4(r, f) = key})] : key \in Keys}

Flags4 == {<<a, b, c, d>> : a \in BOOLEAN, b \in BOOLEAN, c \in BOOLEAN, d \in BOOLEAN}

\* latency views
LatBoth(tbl) == {[k |-> <<r.e, r.c>>, v |-> r.v] : r \in Rows(tbl)}
LatEinsum(tbl) == LET R == Rows(tbl) IN {[k |-> <<e, "*">>, v |-> MaxV({r \in R : r.e = e})] : e \in {r.e : r \in R}}
LatComp(tbl) == LET R == Rows(tbl) IN {[k |-> <<"*", c>>, v |-> SumV({r \in R : r.c = c})] : c \in {r.c : r \in R}}
LatTotal(tbl) == SumV({[e |-> x.k[1], v |-> x.v] : x \in LatEinsum(tbl)})

\* usage view
Usage(tbl) == LET R == Rows(tbl) IN {[k |-> m, v |-> MaxV({r \in R : r.m = m})] : m \in {r.m : r \in R}}

Views(c) ==
  [id |-> c.id,
   energy |-> [f \in Flags4 |-> Project4(c.energy, f)],
   actions |-> [f \in {g \in Flags4 : g[4]} |-> Project4(c.actions, f)],
   lat_both |-> LatBoth(c.latency), lat_einsum |-> LatEinsum(c.latency), lat_comp |-> LatComp(c.latency),
   lat_total |-> LatTotal(c.latency),
   usage |-> Usage(c.reservations)]

\* ToJson needs string keys: flags are rendered as a sequence of records
FlagRec(fn) == {[flags |-> f, rows |-> fn[f]] : f \in DOMAIN fn}
Out(c) == LET v == Views(c)
          IN [id |-> v.id, energy |-> FlagRec(v.energy), actions |-> FlagRec(v.actions),
              lat_both |-> v.lat_both, lat_einsum |-> v.lat_einsum, lat_comp |-> v.lat_comp,
              lat_total |-> v.lat_total, usage |-> v.usage]

Emit == i <= Len(Cases) => PrintT(ToJson(Out(Cases[i])))
=============================================================================
