CONSTANTS
  Shapes <- Shapes22
  ESet <- One
  RSet <- One
  KeyMode = "after"
  WalkMode = "reverse"
SPECIFICATION Spec
INVARIANT Lossless
INVARIANT NoError
INVARIANT CompressInv
