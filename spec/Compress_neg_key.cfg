CONSTANTS
  ESet <- One
  Shapes1 <- Shapes22
  Shapes2 <- Shapes22
  Shapes3 <- Shapes22
  RSet1 <- One
  RSet2 <- One
  RSet3 <- One
  KeyMode = "after"
  WalkMode = "reverse"
SPECIFICATION Spec
INVARIANT Lossless
INVARIANT NoError
INVARIANT CompressInv
