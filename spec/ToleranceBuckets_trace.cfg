CONSTANTS
  Vals = {1}
  On = 1
  Od = 1
  Wide = FALSE
INIT TInit
NEXT TNext
INVARIANT EmitT
CHECK_DEADLOCK FALSE
