--------------------------- MODULE ComponentCosts ---------------------------
(***************************************************************************)
(* Property C27: computing component costs is idempotent.                   *)
(*                                                                          *)
(* A CASE is a sequence of components                                       *)
(*   [area, leak : Rat,                     base (input) values             *)
(*    area_scale, leak_scale, energy_scale, tp_scale, npi : Rat,            *)
(*    acts : sequence of [energy, tp, escale, tscale : Rat]]                *)
(* (npi = n_parallel_instances; Rat = <<num, den>>, den > 0) and a HISTORY, *)
(* a sequence of calls, each call being the set of cost kinds it is asked   *)
(* to compute (the area / energy / throughput / leak flags of               *)
(* Spec.calculate_component_costs).                                         *)
(*                                                                          *)
(* The value of a cost kind, once computed, is  base * (its scale factors): *)
(*   area        = area   * area_scale   * npi                              *)
(*   leak_power  = leak   * leak_scale   * npi                              *)
(*   energy[a]   = energy * energy_scale * escale[a]                        *)
(*   throughput[a] = tp   * tp_scale     * tscale[a] * npi                  *)
(* and computing it again must not change it.                               *)
(*                                                                          *)
(* Calculate (Mode "once") applies the scales of a kind iff they have not   *)
(* been applied yet: TLC proves Stable for every history.  Mode "reapply"   *)
(* (multiply at every call, which is what a stateless implementation does   *)
(* when it finds the value already filled in) violates Stable: the lemma    *)
(* that shows the invariant is not vacuous.                                 *)
(***************************************************************************)
EXTENDS Integers, Sequences, FiniteSets, TLC

CONSTANTS Mode,      \* role A: "once" | "reapply"
          MaxCalls   \* role A: longest history

Kinds == {"area", "leak_power", "energy", "throughput"}

-----------------------------------------------------------------------------
(* exact rationals *)
RECURSIVE GCD(_, _)
GCD(a, b) == IF b = 0 THEN a ELSE GCD(b, a % b)
AbsI(x) == IF x < 0 THEN -x ELSE x
Norm(n, d) == IF n = 0 THEN <<0, 1>>
              ELSE LET g == GCD(AbsI(n), AbsI(d)) IN
                   IF d < 0 THEN <<-(n \div g), -(d \div g)>> ELSE <<n \div g, d \div g>>
Mul(a, b) == Norm(a[1] * b[1], a[2] * b[2])
Eq(a, b) == a[1] * b[2] = b[1] * a[2]
One == <<1, 1>>

-----------------------------------------------------------------------------
(* the definition *)
NActs(P, c) == Len(P[c].acts)

\* product of the scale factors of kind k (action a for the per-action kinds)
ScaleOf(P, c, k, a) ==
  CASE k = "area"       -> Mul(P[c].area_scale, P[c].npi)
    [] k = "leak_power" -> Mul(P[c].leak_scale, P[c].npi)
    [] k = "energy"     -> Mul(P[c].energy_scale, P[c].acts[a].escale)
    [] k = "throughput" -> Mul(Mul(P[c].tp_scale, P[c].acts[a].tscale), P[c].npi)

\* the input values, as a valuation  val[c][k]  (a rational for area / leak_power, a
\* sequence of rationals, one per action, for energy / throughput)
Base(P) == [c \in 1..Len(P) |->
              [area       |-> P[c].area,
               leak_power |-> P[c].leak,
               energy     |-> [a \in 1..NActs(P, c) |-> P[c].acts[a].energy],
               throughput |-> [a \in 1..NActs(P, c) |-> P[c].acts[a].tp]]]

\* v with the scales of the kinds in K multiplied in
Scaled(P, v, K) ==
  [c \in 1..Len(P) |->
     [area       |-> IF "area" \in K THEN Mul(v[c].area, ScaleOf(P, c, "area", 0)) ELSE v[c].area,
      leak_power |-> IF "leak_power" \in K THEN Mul(v[c].leak_power, ScaleOf(P, c, "leak_power", 0))
                     ELSE v[c].leak_power,
      energy     |-> [a \in 1..NActs(P, c) |->
                        IF "energy" \in K THEN Mul(v[c].energy[a], ScaleOf(P, c, "energy", a)) ELSE v[c].energy[a]],
      throughput |-> [a \in 1..NActs(P, c) |->
                        IF "throughput" \in K THEN Mul(v[c].throughput[a], ScaleOf(P, c, "throughput", a))
                        ELSE v[c].throughput[a]]]]

\* THE DEFINITION: what is observed when exactly the kinds in K have been computed
Defn(P, K) == Scaled(P, Base(P), K)

\* one call asking for the kinds F, from state st = [applied, val]
CallOnce(P, st, F)    == [applied |-> st.applied \cup F, val |-> Scaled(P, st.val, F \ st.applied)]
CallReapply(P, st, F) == [applied |-> st.applied \cup F, val |-> Scaled(P, st.val, F)]
Start(P) == [applied |-> {}, val |-> Base(P)]

\* states after each call of history H (sequence of sets of kinds)
RECURSIVE RunOnce(_, _, _), RunReapply(_, _, _)
RunOnce(P, H, i) == IF i = 0 THEN Start(P) ELSE CallOnce(P, RunOnce(P, H, i - 1), H[i])
RunReapply(P, H, i) == IF i = 0 THEN Start(P) ELSE CallReapply(P, RunReapply(P, H, i - 1), H[i])

ValEq(P, v, w, K) ==
  \A c \in 1..Len(P) :
     /\ "area" \in K => Eq(v[c].area, w[c].area)
     /\ "leak_power" \in K => Eq(v[c].leak_power, w[c].leak_power)
     /\ "energy" \in K => \A a \in 1..NActs(P, c) : Eq(v[c].energy[a], w[c].energy[a])
     /\ "throughput" \in K => \A a \in 1..NActs(P, c) : Eq(v[c].throughput[a], w[c].throughput[a])

-----------------------------------------------------------------------------
(* role A: the calls as actions, every history up to MaxCalls *)
VARIABLES params, st, calls, hist
vars == <<params, st, calls, hist>>

InitWith(P) == params = P /\ st = Start(P) /\ calls = 0 /\ hist = <<>>

Calculate(F) ==
  /\ calls < MaxCalls
  /\ st' = IF Mode = "once" THEN CallOnce(params, st, F) ELSE CallReapply(params, st, F)
  /\ calls' = calls + 1
  /\ hist' = Append(hist, F)
  /\ UNCHANGED params

Next == \E F \in (SUBSET Kinds) \ {{}} : Calculate(F)

\* every kind that has been computed (by whatever history) has the value of the
\* definition; kinds never asked for still have their input value
Stable == /\ ValEq(params, st.val, Defn(params, st.applied), Kinds)
          /\ st.val = RunOnce(params, hist, Len(hist)).val
=============================================================================
