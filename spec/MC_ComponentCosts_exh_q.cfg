CONSTANTS
  Mode = "once"
  MaxCalls = 3
  RN = 0
  Small = TRUE
INIT ExhInitAll
NEXT ExhNext
INVARIANT Emit
