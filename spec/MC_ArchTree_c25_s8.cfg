\* case generator: every well-formed tree with MinEmit..MaxN nodes over the given alphabet
\* (model checking), or random growth walks (-simulate); one JSON record per tree
CONSTANTS
  MaxN = 8
  MaxDepth = 4
  LeafKinds = {"Memory", "Compute"}
  BranchKinds = {"Fork", "Hierarchical"}
  Fanouts = {2}
  ComputeFanouts = {3}
  BranchTags = {1}
  MinEmit = 8
  AppendComputes = TRUE
  CountOwn = FALSE
INIT Init
NEXT GenNext
INVARIANT Emit25
