CONSTANTS
  U = {a, b, c}
  MaxKeys = 3
  OtherLast = FALSE
INIT Init
NEXT Next
INVARIANT Correct
