CONSTANTS
  Shapes <- Shapes22
  RSet <- One
  KeyMode = "before"
  WalkMode = "reverse"
  ESet <- OneTwo
  Shapes1 <- Shapes33
  Shapes2 <- Shapes22
  Shapes3 <- Shapes22
  RSet1 <- OneTwo
  RSet2 <- OneTwo
  RSet3 <- One
  NCases = 1000000
INIT ExhInit
NEXT ExhNext
INVARIANT Emit
