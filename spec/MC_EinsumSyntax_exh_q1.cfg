CONSTANTS
  MaxIn = 2
  OutK = 1
  InK = 1
  NEnt = 3
  MaxWS = 1
  MalWS = 0
  WS <- WS1
  N = 0
INIT ExhInit
NEXT ExhNext
INVARIANT EmitResult
INVARIANT RoundTrip
INVARIANT MalformedIsMalformed
INVARIANT TypeOK
