CONSTANTS
  ESet <- One
  Shapes1 <- Shapes22
  Shapes2 <- Shapes22
  Shapes3 <- Shapes22
  RSet1 <- One
  RSet2 <- One
  RSet3 <- One
  KeyMode = "before"
  WalkMode = "reverse"
  NCases = 1000000
INIT BigInit
NEXT BigNext
INVARIANT EmitBig
