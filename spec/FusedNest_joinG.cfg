SPECIFICATION JSpec
INVARIANT JEmitG
