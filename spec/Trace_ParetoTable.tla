------------------------- MODULE Trace_ParetoTable -------------------------
(* Binding C for C12: the harness recorded, for every generated table, the  *)
(* set of rows the implementation kept (plain, and with constant columns    *)
(* added).  TLC evaluates ParetoTable!Covers on each record and whether the *)
(* two kept sets are the same.  One record per case in CASE_FILE:           *)
(*   [T, cls, tol, kept, keptc]                                             *)
EXTENDS ParetoTable, TLC, Json, IOUtils

Cases == JsonDeserialize(IOEnv.CASE_FILE)

VARIABLE i
SeqSet(s) == {s[j] : j \in 1..Len(s)}

Verdict(c) ==
  LET K == SeqSet(c.kept) IN
  [id |-> c.id,
   covers |-> Covers(c.T, c.cls, K, c.tol),
   tight  |-> CoversG(c.T, c.cls, K, c.tol, TRUE),
   uncovered |-> Uncovered(c.T, c.cls, K, c.tol),
   const_same |-> SeqSet(c.kept) = SeqSet(c.keptc),
   subset |-> K \subseteq 1..Len(c.T)]

Init == i \in 1..Len(Cases)
Next == UNCHANGED i
Emit == PrintT(ToJson(Verdict(Cases[i])))
=============================================================================
