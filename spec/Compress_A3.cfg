CONSTANTS
  Shapes <- Shapes22
  ESet <- Three
  RSet <- One
  KeyMode = "before"
  WalkMode = "reverse"
SPECIFICATION Spec
INVARIANT Lossless
INVARIANT NoError
INVARIANT CompressInv
