CONSTANTS
  Shapes <- Shapes22
  ESet <- Two
  RSet <- OneTwo
  KeyMode = "before"
  WalkMode = "reverse"
SPECIFICATION Spec
INVARIANT Lossless
INVARIANT NoError
INVARIANT CompressInv
