CONSTANTS
  Parent <- Tree6
  Mode = "dep"
  NNames = 4
  WithSelf = FALSE
  PlaceIn = {1, 3}
  SelfPlaces = {}
  KeyOrders = "all"
  G2Scopes <- Chain123
  G2Rev = {FALSE}
  RN = 0
INIT G1InitDag
NEXT ExhNext
INVARIANT Emit
