CONSTANTS
  Parent <- Tree6
  Mode = "dep"
  NNames = 4
  WithSelf = FALSE
  PlaceIn = {1}
  SelfPlaces = {}
  KeyOrders = "all"
  G2Scopes <- Chain123
  G2Rev = {FALSE}
  RN = 0
INIT G1Init
NEXT ExhNext
INVARIANT Emit
