\* case generator (model checking): every well-formed tree with exactly 5 nodes, all kinds, fanouts {1,2} ({1,3} on Compute)
CONSTANTS
  MaxN = 5
  MaxDepth = 4
  LeafKinds = {"Memory", "Toll", "Container", "Compute"}
  BranchKinds = {"Fork", "Hierarchical"}
  Fanouts = {1, 2}
  ComputeFanouts = {1, 3}
  MinEmit = 5
  AppendComputes = TRUE
  CountOwn = FALSE
INIT Init
NEXT GenNext
INVARIANT Emit25
