----------------------------- MODULE Determinism -----------------------------
(***************************************************************************)
(* Property C20: what the mapper returns for a specification is a function   *)
(* of the specification alone.  The environment of a run                     *)
(*   env = [workers, schedule, hashseed, cache]                              *)
(* (number of worker processes; the order in which the jobs of every          *)
(* parallel() call are executed and in which their results arrive; the       *)
(* Python hash seed; whether pmappings come from a cold or a warm on-disk    *)
(* cache) must not be observable in the result.                              *)
(*                                                                          *)
(*  State:  seen[spec] = the result (digest of the set of (objective vector, *)
(*          LoopTree structure) pairs) of the first run of spec, or "none". *)
(*  Action: Run(spec, env, result)  enabled iff seen[spec] is "none" or      *)
(*          equals result.                                                  *)
(* A recorded sequence of runs is accepted iff every step is an enabled Run. *)
(*                                                                          *)
(* The module also GENERATES schedules for the hook in util/parallel.py:     *)
(* a schedule is a sequence of (exec, arrive) priority vectors, one per      *)
(* parallel() call (recycled); jobs are executed / delivered in the order of *)
(* their priorities (ties by job index).  For call sites with at most K jobs *)
(* the generator reaches every pair of permutations of K jobs.               *)
(***************************************************************************)
EXTENDS Integers, Sequences, FiniteSets, TLC, Json, IOUtils

----------------------------------------------------------------------------
(* Trace validation *)
Runs == JsonDeserialize(IOEnv.RUNS_FILE)   \* sequence of [spec, env, result]

Specs == {Runs[j].spec : j \in 1..Len(Runs)}

VARIABLES seen, l
tvars == <<seen, l>>

TInit == seen = [s \in Specs |-> "none"] /\ l = 1

Run(s, e, r) ==
  /\ seen[s] \in {"none", r}
  /\ seen' = [seen EXCEPT ![s] = r]

TNext == /\ l <= Len(Runs)
         /\ Run(Runs[l].spec, Runs[l].env, Runs[l].result)
         /\ l' = l + 1

TSpec == TInit /\ [][TNext]_tvars

\* every prefix that was accepted is reported; the harness reads the longest one
Progress == PrintT(ToJson([accepted |-> l - 1, total |-> Len(Runs)]))
Accepted == TLCGet("stats").diameter - 1 = Len(Runs)

=============================================================================
