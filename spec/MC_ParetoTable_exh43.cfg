\* thorough: every 4-row table over 2 values for the 4-column schema (2 objectives, reservation, fused loop) and 3-column schemas
CONSTANTS
  R = 4
  Vals = {4, 5}
  DVals = {1, 2}
  SchemaIds = {4, 5, 8, 13}
  TolIds = {1, 5, 7}
  ConstIds = {1, 3}
  N = 0
INIT ExhInit
NEXT ExhNext
INVARIANT Emit
