CONSTANTS
  NSet <- DesignN
  WSet <- DesignW
  Modes <- AllModes
  InOrder = FALSE
  Placement = "by_tag"
SPECIFICATION Spec
INVARIANT TypeOK
INVARIANT Correct
INVARIANT AtMostOnce
INVARIANT ExactlyOnce
INVARIANT StoreInv
