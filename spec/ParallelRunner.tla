---------------------------- MODULE ParallelRunner ----------------------------
(***************************************************************************)
(* accelforge/util/parallel.py:parallel as a transition system (C32).       *)
(*                                                                          *)
(* n jobs 0..n-1 are handed to a pool of nw workers.  A free worker takes a *)
(* pending job (Dispatch), finishes it at some later time (Complete) and    *)
(* its tagged result <<tag, value>> is appended to the stream `arrived` in  *)
(* COMPLETION order -- this is joblib's return_as="generator_unordered".    *)
(* What parallel() then does depends on the call:                           *)
(*   "list"  : every job is wrapped as f(i, job) -> <<i, result>>; the      *)
(*             collector stores results[i] = result for each arrival        *)
(*             (Collect) and returns the list (ReturnList);                 *)
(*   "dict"  : every job is wrapped as _dict_job(key, job) -> <<key, r>>;   *)
(*             the collector builds {key: r} in arrival order (Collect) and *)
(*             returns {k: result[k] for k in jobs}, i.e. in the key order  *)
(*             of the input (ReturnDict);                                   *)
(*   "generator"           : joblib's ordered generator: the consumer is    *)
(*             handed job k's result only after jobs 0..k-1 (YieldOrdered); *)
(*   "generator_unordered" : the consumer sees the arrival stream itself    *)
(*             (YieldUnordered) -- only the bag of results is specified.    *)
(* The serial short cut (n_jobs = 1 or one job) is the case nw = 1 with     *)
(* in-order dispatch.                                                       *)
(*                                                                          *)
(* Placement = "by_tag" is the code.  Placement = "by_arrival" (store the   *)
(* k-th arrival at position k) is the design error the index tag exists to  *)
(* prevent; TLC must refute Correct for it (negative control, role A).      *)
(***************************************************************************)
EXTENDS Integers, Sequences, FiniteSets

CONSTANTS NSet,       \* job counts to explore
          WSet,       \* worker counts to explore
          Modes,      \* subset of {"list","dict","generator","generator_unordered"}
          InOrder,    \* TRUE: a free worker takes the lowest pending job (joblib); FALSE: any
          Placement   \* "by_tag" | "by_arrival"

VARIABLES n, nw, mode,
          pending,    \* jobs not yet handed to a worker
          running,    \* worker -> job or Idle
          arrived,    \* sequence of <<job, tag, value>> in completion order
          collected,  \* how many arrivals the collector / consumer has taken
          store,      \* tag -> value, what the collector has placed so far
          execs,      \* job -> how many times it was started
          phase,      \* "run" | "returned"
          ret         \* the value handed back to the caller

vars == <<n, nw, mode, pending, running, arrived, collected, store, execs, phase, ret>>

Idle == -1
None == -1                          \* Python's None in a pre-allocated result list
Jobs == 0 .. (n - 1)
Workers == 1 .. nw

\* Inputs and the jobs' function.  Arg and Key are injective on 0..66 and unrelated to
\* the job index, so a result in the wrong place is always visible.
Arg(i) == (37 * i + 11) % 101
G(x)   == 3 * x + 1000
F(i)   == G(Arg(i))                 \* THE result of job i
Key(i) == (17 * i + 5) % 67         \* dict inputs: key id of the i-th item

Tag(i) == IF mode = "dict" THEN Key(i) ELSE i

Put(f, k, v) == [x \in (DOMAIN f) \cup {k} |-> IF x = k THEN v ELSE f[x]]
EmptyFn == [x \in {} |-> 0]

Init ==
  /\ n \in NSet
  /\ nw \in WSet
  /\ mode \in Modes
  /\ pending = 0 .. (n - 1)
  /\ running = [w \in 1 .. nw |-> Idle]
  /\ arrived = <<>>
  /\ collected = 0
  /\ store = EmptyFn
  /\ execs = [i \in 0 .. (n - 1) |-> 0]
  /\ phase = "run"
  /\ ret = <<>>

Dispatch(w, j) ==
  /\ phase = "run"
  /\ running[w] = Idle
  /\ j \in pending
  /\ InOrder => \A k \in pending : j <= k
  /\ running' = [running EXCEPT ![w] = j]
  /\ pending' = pending \ {j}
  /\ execs' = [execs EXCEPT ![j] = @ + 1]
  /\ UNCHANGED <<n, nw, mode, arrived, collected, store, phase, ret>>

Complete(w) ==
  /\ phase = "run"
  /\ running[w] # Idle
  /\ arrived' = Append(arrived, <<running[w], Tag(running[w]), F(running[w])>>)
  /\ running' = [running EXCEPT ![w] = Idle]
  /\ UNCHANGED <<n, nw, mode, pending, collected, store, execs, phase, ret>>

\* list / dict: the collector takes the next arrival and places it
Collect ==
  /\ phase = "run"
  /\ mode \in {"list", "dict"}
  /\ collected < Len(arrived)
  /\ LET e == arrived[collected + 1]
         slot == IF Placement = "by_tag" THEN e[2]
                 ELSE IF mode = "dict" THEN Key(collected) ELSE collected
     IN store' = Put(store, slot, e[3])
  /\ collected' = collected + 1
  /\ UNCHANGED <<n, nw, mode, pending, running, arrived, execs, phase, ret>>

AllDone == pending = {} /\ \A w \in Workers : running[w] = Idle

ReturnList ==
  /\ phase = "run" /\ mode = "list"
  /\ AllDone /\ collected = Len(arrived)
  /\ ret' = [k \in 1 .. n |-> IF (k - 1) \in DOMAIN store THEN store[k - 1] ELSE None]
  /\ phase' = "returned"
  /\ UNCHANGED <<n, nw, mode, pending, running, arrived, collected, store, execs>>

\* {k: result[k] for k in jobs}: a sequence of <<key, value>> in input key order
ReturnDict ==
  /\ phase = "run" /\ mode = "dict"
  /\ AllDone /\ collected = Len(arrived)
  /\ \A i \in Jobs : Key(i) \in DOMAIN store       \* otherwise Python raises KeyError
  /\ ret' = [k \in 1 .. n |-> <<Key(k - 1), store[Key(k - 1)]>>]
  /\ phase' = "returned"
  /\ UNCHANGED <<n, nw, mode, pending, running, arrived, collected, store, execs>>

YieldOrdered ==
  /\ phase = "run" /\ mode = "generator"
  /\ collected < n
  /\ \E k \in 1 .. Len(arrived) :
       /\ arrived[k][1] = collected
       /\ ret' = Append(ret, arrived[k][3])
  /\ collected' = collected + 1
  /\ UNCHANGED <<n, nw, mode, pending, running, arrived, store, execs, phase>>

YieldUnordered ==
  /\ phase = "run" /\ mode = "generator_unordered"
  /\ collected < Len(arrived)
  /\ ret' = Append(ret, arrived[collected + 1][3])
  /\ collected' = collected + 1
  /\ UNCHANGED <<n, nw, mode, pending, running, arrived, store, execs, phase>>

Exhausted ==
  /\ phase = "run" /\ mode \in {"generator", "generator_unordered"}
  /\ AllDone /\ collected = Len(arrived)
  /\ phase' = "returned"
  /\ UNCHANGED <<n, nw, mode, pending, running, arrived, collected, store, execs, ret>>

\* Candidates are narrowed before Dispatch's own guards are evaluated (cheaper for TLC).
\* With InOrder the lowest pending job goes to the lowest idle worker: worker identity
\* is not observable, so nothing is lost for the completion orders that can occur.
IdleWorkers == {w \in Workers : running[w] = Idle}
DispatchW == IF InOrder /\ IdleWorkers # {}
             THEN {CHOOSE w \in IdleWorkers : \A v \in IdleWorkers : w <= v}
             ELSE IdleWorkers
DispatchJ == IF InOrder /\ pending # {}
             THEN {CHOOSE j \in pending : \A k \in pending : j <= k}
             ELSE pending

DispatchAny == \E w \in DispatchW, j \in DispatchJ : Dispatch(w, j)
CompleteAny == \E w \in Workers : Complete(w)

Next ==
  \/ DispatchAny
  \/ CompleteAny
  \/ Collect \/ ReturnList \/ ReturnDict
  \/ YieldOrdered \/ YieldUnordered \/ Exhausted

Spec == Init /\ [][Next]_vars

---------------------------------------------------------------------------
(* THE PROPERTY (C32): what the caller gets back.                           *)
Range(s) == {s[k] : k \in 1 .. Len(s)}

Expected(m) ==
  IF m = "dict" THEN [k \in 1 .. n |-> <<Key(k - 1), F(k - 1)>>]
  ELSE [k \in 1 .. n |-> F(k - 1)]

RetOK(m, r) ==
  IF m = "generator_unordered"
  THEN Len(r) = n /\ Range(r) = {F(i) : i \in Jobs}     \* F is injective: bag equality
  ELSE r = Expected(m)

Correct == phase = "returned" => RetOK(mode, ret)

AtMostOnce == \A i \in Jobs : execs[i] <= 1
ExactlyOnce == phase = "returned" => \A i \in Jobs : execs[i] = 1

\* what the collector has placed is what arrived under that tag (inductive core)
StoreInv ==
  (Placement = "by_tag" /\ mode \in {"list", "dict"}) =>
     \A k \in 1 .. collected :
        /\ arrived[k][2] \in DOMAIN store
        /\ store[arrived[k][2]] = arrived[k][3]
        /\ arrived[k][3] = F(arrived[k][1])

\* constant sets for the .cfg files (cfg cannot write intervals / string sets portably)
DesignN  == 0 .. 5
DesignNq == 0 .. 4
DesignW  == 1 .. 3
NegN     == 0 .. 3
AllModes == {"list", "dict", "generator", "generator_unordered"}
ListDict == {"list", "dict"}

TypeOK ==
  /\ pending \subseteq Jobs
  /\ \A w \in Workers : running[w] \in Jobs \cup {Idle}
  /\ collected \in 0 .. Len(arrived)
  /\ Len(arrived) <= n
  /\ phase \in {"run", "returned"}
=============================================================================
