CONSTANTS
  NSet <- DesignN
  WSet <- DesignW
  Modes <- AllModes
  InOrder = FALSE
  Placement = "by_tag"
INIT TraceInit
NEXT TraceNext
INVARIANT Accepted
INVARIANT Correct
INVARIANT AtMostOnce
INVARIANT ExactlyOnce
INVARIANT StoreInv
