CONSTANTS
  Parent <- Tree6
  Mode = "dep"
  NNames = 3
  WithSelf = FALSE
  PlaceIn = {1, 2, 3, 4, 6}
  SelfPlaces = {1, 3, 4}
  KeyOrders = "all"
  G2Scopes <- Chain123
  G2Rev = {FALSE}
  RN = 0
INIT G1Init
NEXT ExhNext
INVARIANT Emit
