CONSTANTS
  MaxIn = 1
  OutK = 1
  InK = 2
  MaxWS = 2
  MalWS = 0
  WS <- WS3
  N = 0
INIT ExhInit
NEXT ExhNext
INVARIANT EmitResult
INVARIANT RoundTrip
INVARIANT MalformedIsMalformed
INVARIANT TypeOK
