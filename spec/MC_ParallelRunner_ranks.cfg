CONSTANTS
  NSet <- BigN
  WSet <- BigW
  Modes <- AllModes
  InOrder = TRUE
  Placement = "by_tag"
  NCases = 1000000
INIT RankInit
NEXT RankNext
INVARIANT EmitRank
