------------------------------- MODULE Compress -------------------------------
(***************************************************************************)
(* compress_pmappings.py as a transition system (C15).                      *)
(*                                                                          *)
(* Per Einsum e there is a list of sub-tables (pmapping groups); sub-table  *)
(* s has shape[e][s] rows (possibly 0).  A row has a joining part, which    *)
(* stays in the table that is joined, and a payload (per-Einsum actions,    *)
(* energies, latencies, mapping id) identified here by <<e, s, k>>.         *)
(*                                                                          *)
(* Compress (one CompressSub step per sub-table, as _compress_pmapping_list *)
(* does): the rows of sub-table s get the consecutive indices               *)
(* start .. start+len-1, the payload rows are stored in a dict under the    *)
(* key `start` (Python dict: a repeated key overwrites the value and keeps  *)
(* its first insertion position -- this happens after an empty sub-table),  *)
(* then start += len.                                                       *)
(* JoinSelect: the join leaves R result rows, each holding one compressed   *)
(* index per Einsum: sel[r][e].  Any function is possible.                  *)
(* Decompress (decompress_pmappings): per Einsum, the distinct selected     *)
(* indices in DEScending order; the dict items are walked in REVERSE, and   *)
(* the walk advances while the index is below the current start key         *)
(* (DecAdvance); the row with that index is looked up in the current        *)
(* payload table (DecPick, exactly one must match); finally the payload is  *)
(* merged onto the result rows by index (DecMerge, a left merge).           *)
(*                                                                          *)
(* THE PROPERTY: out[r][e] is the payload of the row that sel[r][e] denotes,*)
(* where "denotes" is defined without any bookkeeping: index g is the       *)
(* (g+1)-th row of the concatenation of the Einsum's sub-tables (RowOf).    *)
(*                                                                          *)
(* KeyMode = "before" is the code.  "after" (dict key taken after start is  *)
(* incremented) and WalkMode = "forward" (dict walked front to back) are    *)
(* bookkeeping errors TLC must refute (negative controls).                  *)
(***************************************************************************)
EXTENDS Integers, Sequences, FiniteSets

CONSTANTS ESet,       \* numbers of Einsums to explore
          Shapes1, Shapes2, Shapes3,   \* per-Einsum shapes (sequences of row counts) to explore
                                       \* when there are 1 / 2 / 3 Einsums
          RSet1, RSet2, RSet3,         \* numbers of result rows to explore, likewise
          KeyMode,    \* "before" | "after"
          WalkMode    \* "reverse" | "forward"

VARIABLES shape,      \* shape[e][s] = rows of sub-table s of Einsum e
          sel,        \* sel[r][e] = compressed index selected for result row r
          phase,      \* "compress" | "join" | "decompress" | "done" | "error"
          ce, cs, start,   \* compress cursor: Einsum, sub-table, running start index
          comp,       \* comp[e] = per sub-table, the compressed-index column
          ddKeys,     \* ddKeys[e] = dict keys (start indices) in insertion order
          ddVal,      \* ddVal[e] = key -> payload table = sequence of <<index, rowid>>
          de,         \* Einsum being decompressed
          dstage,     \* "start" | "walk"
          todo,       \* distinct selected indices still to find, descending
          itpos,      \* how many dict items the walk has consumed
          curKey,     \* start key of the current payload table (Inf before the first)
          found,      \* index -> rowid found so far for Einsum de
          out         \* out[r][e] = rowid merged onto result row r (None if nothing)

vars == <<shape, sel, phase, ce, cs, start, comp, ddKeys, ddVal, de, dstage, todo, itpos,
          curKey, found, out>>

Inf == 1000000
None == <<0, 0, 0>>
E == Len(shape)
R == Len(sel)

RECURSIVE SumSeq(_)
SumSeq(s) == IF s = <<>> THEN 0 ELSE Head(s) + SumSeq(Tail(s))
Total(e) == SumSeq(shape[e])

\* THE DEFINITION: rows of Einsum e in concatenation order
RECURSIVE FlatFrom(_, _)
FlatFrom(e, s) == IF s > Len(shape[e]) THEN <<>>
                  ELSE [k \in 1 .. shape[e][s] |-> <<e, s, k>>] \o FlatFrom(e, s + 1)
Flat(e) == FlatFrom(e, 1)
RowOf(e, g) == Flat(e)[g + 1]

Range(s) == {s[k] : k \in 1 .. Len(s)}
Put(f, k, v) == [x \in (DOMAIN f) \cup {k} |-> IF x = k THEN v ELSE f[x]]
EmptyFn == [x \in {} |-> 0]

RECURSIVE SortDesc(_)
SortDesc(S) == IF S = {} THEN <<>>
               ELSE LET m == CHOOSE x \in S : \A y \in S : y <= x IN <<m>> \o SortDesc(S \ {m})

\* every shape has at least one row in total (otherwise nothing can be selected)
ShapeOK(sh) == \A e \in 1 .. Len(sh) : SumSeq(sh[e]) >= 1

ShapesE(ne) == IF ne = 1 THEN Shapes1 ELSE IF ne = 2 THEN Shapes2 ELSE Shapes3
RSetE(ne)   == IF ne = 1 THEN RSet1 ELSE IF ne = 2 THEN RSet2 ELSE RSet3

Init ==
  /\ \E ne \in ESet : shape \in [1 .. ne -> ShapesE(ne)]
  /\ ShapeOK(shape)
  /\ \E nr \in RSetE(Len(shape)) :
        sel \in [1 .. nr -> {f \in [1 .. Len(shape) -> 0 .. 8] :
                                \A e \in 1 .. Len(shape) : f[e] < SumSeq(shape[e])}]
  /\ phase = "compress"
  /\ ce = 1 /\ cs = 1 /\ start = 0
  /\ comp = [e \in 1 .. Len(shape) |-> <<>>]
  /\ ddKeys = [e \in 1 .. Len(shape) |-> <<>>]
  /\ ddVal = [e \in 1 .. Len(shape) |-> EmptyFn]
  /\ de = 1 /\ dstage = "start" /\ todo = <<>> /\ itpos = 0 /\ curKey = Inf
  /\ found = EmptyFn
  /\ out = [r \in 1 .. Len(sel) |-> [e \in 1 .. Len(shape) |-> None]]

---------------------------------------------------------------------------
CompressSub ==
  /\ phase = "compress"
  /\ LET len == shape[ce][cs]
         key == IF KeyMode = "before" THEN start ELSE start + len
     IN /\ comp' = [comp EXCEPT ![ce] = Append(@, [k \in 1 .. len |-> start + k - 1])]
        /\ ddKeys' = [ddKeys EXCEPT ![ce] = IF key \in Range(@) THEN @ ELSE Append(@, key)]
        /\ ddVal' = [ddVal EXCEPT ![ce] =
                       Put(@, key, [k \in 1 .. len |-> <<start + k - 1, <<ce, cs, k>>>>])]
        /\ IF cs < Len(shape[ce])
           THEN cs' = cs + 1 /\ start' = start + len /\ UNCHANGED <<ce, phase>>
           ELSE IF ce < E
                THEN ce' = ce + 1 /\ cs' = 1 /\ start' = 0 /\ UNCHANGED phase
                ELSE phase' = "join" /\ UNCHANGED <<ce, cs, start>>
  /\ UNCHANGED <<shape, sel, de, dstage, todo, itpos, curKey, found, out>>

\* the joined table refers only to indices that compression handed out
JoinSelect ==
  /\ phase = "join"
  /\ \A r \in 1 .. R, e \in 1 .. E :
        \E s \in 1 .. Len(comp[e]) : sel[r][e] \in Range(comp[e][s])
  /\ phase' = "decompress"
  /\ UNCHANGED <<shape, sel, ce, cs, start, comp, ddKeys, ddVal, de, dstage, todo, itpos,
                 curKey, found, out>>

DecStart ==
  /\ phase = "decompress" /\ dstage = "start"
  /\ todo' = SortDesc({sel[r][de] : r \in 1 .. R})
  /\ itpos' = 0 /\ curKey' = Inf /\ found' = EmptyFn
  /\ dstage' = "walk"
  /\ UNCHANGED <<shape, sel, phase, ce, cs, start, comp, ddKeys, ddVal, de, out>>

WalkKey(e, p) == IF WalkMode = "reverse" THEN ddKeys[e][Len(ddKeys[e]) - p + 1] ELSE ddKeys[e][p]

\* while chosen is None or i < start_index: start_index, chosen = next(iter)
DecAdvance ==
  /\ phase = "decompress" /\ dstage = "walk" /\ todo # <<>>
  /\ itpos = 0 \/ Head(todo) < curKey
  /\ IF itpos = Len(ddKeys[de])
     THEN phase' = "error" /\ UNCHANGED <<itpos, curKey>>           \* StopIteration
     ELSE itpos' = itpos + 1 /\ curKey' = WalkKey(de, itpos + 1) /\ UNCHANGED phase
  /\ UNCHANGED <<shape, sel, ce, cs, start, comp, ddKeys, ddVal, de, dstage, todo, found, out>>

\* cur_chosen = chosen[chosen.index == i]; assert len(cur_chosen) == 1
DecPick ==
  /\ phase = "decompress" /\ dstage = "walk" /\ todo # <<>>
  /\ ~ (itpos = 0 \/ Head(todo) < curKey)
  /\ LET tab == ddVal[de][curKey]
         hit == {k \in 1 .. Len(tab) : tab[k][1] = Head(todo)}
     IN IF Cardinality(hit) # 1
        THEN phase' = "error" /\ UNCHANGED <<found, todo>>          \* AssertionError
        ELSE /\ found' = Put(found, Head(todo), tab[CHOOSE k \in hit : TRUE][2])
             /\ todo' = Tail(todo)
             /\ UNCHANGED phase
  /\ UNCHANGED <<shape, sel, ce, cs, start, comp, ddKeys, ddVal, de, dstage, itpos, curKey, out>>

\* pd.merge(data, concat(found), left_on=<compressed index>, right_index=True, how="left")
DecMerge ==
  /\ phase = "decompress" /\ dstage = "walk" /\ todo = <<>>
  /\ out' = [r \in 1 .. R |-> [out[r] EXCEPT ![de] =
                IF sel[r][de] \in DOMAIN found THEN found[sel[r][de]] ELSE None]]
  /\ IF de < E THEN de' = de + 1 /\ dstage' = "start" /\ UNCHANGED phase
     ELSE phase' = "done" /\ UNCHANGED <<de, dstage>>
  /\ UNCHANGED <<shape, sel, ce, cs, start, comp, ddKeys, ddVal, todo, itpos, curKey, found>>

Next == CompressSub \/ JoinSelect \/ DecStart \/ DecAdvance \/ DecPick \/ DecMerge

Spec == Init /\ [][Next]_vars

---------------------------------------------------------------------------
\* C15: decompress(select(compress(T))) = payload of the selected rows
Lossless == phase = "done" =>
              \A r \in 1 .. R, e \in 1 .. E : out[r][e] = RowOf(e, sel[r][e])

NoError == phase # "error"

\* compression hands out 0 .. Total(e)-1, in concatenation order
CompressInv ==
  phase \in {"join", "decompress", "done"} =>
    \A e \in 1 .. E :
      LET flatIdx == [g \in 0 .. Total(e) - 1 |->
                        LET id == RowOf(e, g) IN comp[e][id[2]][id[3]]]
      IN \A g \in 0 .. Total(e) - 1 : flatIdx[g] = g

\* constant sets for the .cfg files
Shapes33 == UNION {[1 .. k -> 0 .. 3] : k \in 1 .. 3}      \* <= 3 sub-tables, 0..3 rows
Shapes22 == UNION {[1 .. k -> 0 .. 2] : k \in 1 .. 2}
Shapes21 == UNION {[1 .. k -> 0 .. 1] : k \in 1 .. 2}
Shapes32 == UNION {[1 .. k -> 0 .. 2] : k \in 1 .. 3}
One == {1}
Two == {2}
Three == {3}
OneTwo == {1, 2}
OneToThree == {1, 2, 3}
=============================================================================
