CONSTANTS
  MaxNodes = 7
  MaxLoopsPerRv = 1
SPECIFICATION Spec
INVARIANT Emit
INVARIANT ExecOK
INVARIANT FootprintLemma
