----------------------------- MODULE PmappingJoin -----------------------------
(***************************************************************************)
(* Property C13: joining per-Einsum pmapping tables = exhaustive combination *)
(* of compatible pmappings.  Two Einsums E1 -> E2 that share one tensor.      *)
(*                                                                          *)
(* A pmapping is abstracted (structurally, from its LoopTree) to              *)
(*   [obj    : objective vector (additive: energy, latency),                 *)
(*    mem    : the memory of the OUTERMOST holder of the shared tensor (its   *)
(*             backing storage in this pmapping),                            *)
(*    blocks : the loops above that holder, from the outermost inwards, as a  *)
(*             sequence of blocks; a block is the set of <<rank variable,     *)
(*             tile shape>> loops between two consecutive holders (loops of   *)
(*             one block may be permuted freely, blocks may not); loops with  *)
(*             a single iteration are dropped (they change nothing)]         *)
(* Two pmappings agree on "the storage, loops and tile shapes of the shared   *)
(* tensor" iff they back it in the same memory, have the same set of loops    *)
(* above it, and some loop order is consistent with both block sequences.     *)
(* ExhaustiveJoin sums the objectives of every compatible pair; Front is      *)
(* Pareto!FrontRows with all goals "min".                                    *)
(* Capacity is not part of this module: the harness uses memories in which    *)
(* every combination fits (the reservation algebra is the business of C06).   *)
(***************************************************************************)
EXTENDS Pareto, TLC, Json, IOUtils

Cases == JsonDeserialize(IOEnv.CASES_FILE)

Loops(p) == UNION {{p.blocks[b][k] : k \in 1..Len(p.blocks[b])} : b \in 1..Len(p.blocks)}
BlockOf(p, x) == CHOOSE b \in 1..Len(p.blocks) : \E k \in 1..Len(p.blocks[b]) : p.blocks[b][k] = x

\* x must come strictly before y in p
Before(p, x, y) == BlockOf(p, x) < BlockOf(p, y)

Compatible(p, q) ==
  /\ p.mem = q.mem
  /\ Loops(p) = Loops(q)
  /\ \A x, y \in Loops(p) : ~(Before(p, x, y) /\ Before(q, y, x))

Sum(a, b) == [c \in 1..Len(a) |-> a[c] + b[c]]

Pairs(c) == {<<i, j>> \in (1..Len(c.P1)) \X (1..Len(c.P2)) : Compatible(c.P1[i], c.P2[j])}
Joined(c) == {Sum(c.P1[pr[1]].obj, c.P2[pr[2]].obj) : pr \in Pairs(c)}

AllMin(k) == [i \in 1..k |-> "min"]
FrontOf(S, k) == {v \in S : ~ \E u \in S : Dominates(AllMin(k), u, v)}

VARIABLE i
Init == i = 1
Next == i < Len(Cases) /\ i' = i + 1
Spec == Init /\ [][Next]_i

Emit == i <= Len(Cases) =>
  LET c == Cases[i]
      J == Joined(c)
  IN PrintT(ToJson([id |-> c.id, pairs |-> Cardinality(Pairs(c)), joined |-> Cardinality(J),
                    front |-> FrontOf(J, c.k)]))
=============================================================================
