CONSTANTS
  Mode = "once"
  MaxCalls = 2
  RN = 0
  Small = FALSE
INIT RoleAInit
NEXT RoleANext
INVARIANT Stable
