\* quick: every 3-row table over 3 values for the three 2-column schemas x 6 tolerances
CONSTANTS
  R = 3
  Vals = {4, 5, 8}
  DVals = {1, 2}
  SchemaIds = {1, 2, 3}
  TolIds = {1, 2, 3, 4, 5, 8}
  ConstIds = {2}
  N = 0
INIT ExhInit
NEXT ExhNext
INVARIANT Emit
