SPECIFICATION Spec
INVARIANT Emit
