------------------------------ MODULE FusedNest ------------------------------
(***************************************************************************)
(* Occupancy of a FUSED multi-Einsum LoopTree (property C06, fused clause;   *)
(* C13, "combining memory reservations by their lifetimes").                 *)
(*                                                                          *)
(* The tree is a shared prefix (holders and shared loops) followed by one     *)
(* Sequential split whose k branches each end in the compute of one Einsum.  *)
(* It is encoded as a node sequence with a branch tag:                        *)
(*    [kind |-> "S", mem, t, br]   [kind |-> "T", rv, tile, br]               *)
(*    [kind |-> "C", einsum, br]        br = 0: prefix, br = e: branch e       *)
(* Execution order: for every iteration of the shared loops, branch 1, then   *)
(* branch 2, ... (a "macro step" is one branch execution in one iteration).   *)
(*                                                                          *)
(* Einsum e sees the pmapping View(e): the prefix and its own branch, without *)
(* holders of tensors it does not use.  A holder reserves its tile at the     *)
(* position LoopNest!FootprintPos gives it IN THAT VIEW (streaming through    *)
(* immediately following fully relevant loops).  A tile lives from its first  *)
(* to its last use within one residency of that position ("tiles live from    *)
(* first to last use and are freed when the enclosing shared loop iteration   *)
(* ends"): a residency in the prefix spans the macro steps of the shared loops *)
(* below it; its uses are the macro steps of the branches whose Einsum uses   *)
(* the tensor; a residency inside a branch lives in that branch only.         *)
(*   Peak(m) = max over macro steps of the bits live in m.                    *)
(***************************************************************************)
EXTENDS LoopNest, Json, IOUtils

FCases == JsonDeserialize(IOEnv.CASES_FILE)
\* case = [id, world |-> [bound, proj, level, istoll, bits, einsums : seq of [name, tensors : seq]], nodes]

K(c) == Len(c.world.einsums)
TensorsOf(c, e) == {c.world.einsums[e].tensors[i] : i \in 1..Len(c.world.einsums[e].tensors)}
Users(c, t) == {e \in 1..K(c) : t \in TensorsOf(c, e)}

\* positions of the original sequence that Einsum e sees, in order
Sees(c, e, p) == /\ c.nodes[p].br \in {0, e}
                 /\ (c.nodes[p].kind = "S" => c.nodes[p].t \in TensorsOf(c, e))
ViewPos(c, e) == LET S == {p \in 1..Len(c.nodes) : Sees(c, e, p)}
                 IN  [i \in 1..Cardinality(S) |-> CHOOSE p \in S : Cardinality({q \in S : q < p}) = i - 1]
View(c, e) == [i \in 1..Len(ViewPos(c, e)) |->
                 LET n == c.nodes[ViewPos(c, e)[i]]
                 IN IF n.kind = "C" THEN [kind |-> "C"] ELSE n]
IndexIn(c, e, p) == CHOOSE i \in 1..Len(ViewPos(c, e)) : ViewPos(c, e)[i] = p

\* the split: first position that belongs to a branch
Split(c) == Min({p \in 1..Len(c.nodes) : c.nodes[p].br # 0})

\* holder at original position p, seen by Einsum e: where its tile is reserved (original position)
ReservedAt(c, e, p) == ViewPos(c, e)[FootprintPos(c.world, View(c, e), IndexIn(c, e, p))]
ReservedBits(c, e, p) ==
  LET v == View(c, e)
      q == FootprintPos(c.world, v, IndexIn(c, e, p))
      n == c.nodes[p]
  IN TileValuesAt(c.world, v, q, n.t) * c.world.bits[n.mem][n.t]

Owner(c, p) == Min(IF c.nodes[p].br = 0 THEN Users(c, c.nodes[p].t) ELSE {c.nodes[p].br})

\* number of iterations of the shared loops at or below original position q (down to the split)
RECURSIVE ItersBelow(_, _)
ItersBelow(c, q) ==
  IF q >= Split(c) THEN 1
  ELSE LET n == c.nodes[q]
           rest == ItersBelow(c, q + 1)
       IN IF n.kind = "T"
          THEN (Ext(c.world, View(c, 1), IndexIn(c, 1, q), n.rv) \div n.tile) * rest
          ELSE rest

\* is the tile of the holder at p live during (some execution of) branch b ?
LiveIn(c, p, b) ==
  LET e == Owner(c, p)
      q == ReservedAt(c, e, p)
      U == IF c.nodes[p].br = 0 THEN Users(c, c.nodes[p].t) ELSE {c.nodes[p].br}
  IN IF q >= Split(c)
     THEN \* reserved inside a branch (a branch holder, or a prefix holder that streams into its branch)
          b = c.nodes[q].br
     ELSE \* reserved in the prefix: one residency spans ItersBelow macro iterations
          \/ ItersBelow(c, q) >= 2
          \/ (Min(U) <= b /\ b <= Max(U))

MemHoldersF(c, m) == {p \in 1..Len(c.nodes) : c.nodes[p].kind = "S" /\ c.nodes[p].mem = m /\ ~c.world.istoll[m]}

RECURSIVE SumLive(_, _, _)
SumLive(c, S, b) ==
  IF S = {} THEN 0
  ELSE LET p == CHOOSE x \in S : TRUE
       IN (IF LiveIn(c, p, b) THEN ReservedBits(c, Owner(c, p), p) ELSE 0) + SumLive(c, S \ {p}, b)

PeakF(c, m) == Max({SumLive(c, MemHoldersF(c, m), b) : b \in 1..K(c)})

\* every Einsum's view is a well-formed single-Einsum mapping
ViewsOK(c) == \A e \in 1..K(c) :
                 LET rvs == UNION {{c.world.proj[t][k] : k \in 1..Len(c.world.proj[t])} : t \in TensorsOf(c, e)}
                     w == [c.world EXCEPT !.proj = [t \in TensorsOf(c, e) |-> c.world.proj[t]],
                                          !.bound = [r \in rvs |-> c.world.bound[r]]]
                 IN WellFormed(w, View(c, e))

-----------------------------------------------------------------------------
(* Merging two compatible pmappings (C13).  p and q are single-Einsum node     *)
(* sequences of Einsums 1 and 2 that share tensor sh; cut(x) = position of the *)
(* outermost holder of sh in x.  Everything up to the cut is prefix, the rest  *)
(* is the Einsum's branch.  Prefix holders keep their level = number of        *)
(* multi-iteration loops above them; the merged prefix lists, level by level,  *)
(* p's holders, q's holders (q's holder of sh and q's holders of tensors that   *)
(* p already holds at that level are dropped), then the shared loop of that     *)
(* level in p's order (the pair is compatible, so q has the same loops).       *)
CutPos(x, sh) == Min({j \in 1..Len(x) : x[j].kind = "S" /\ x[j].t = sh})
TagAll(seq, b) == [j \in 1..Len(seq) |-> seq[j] @@ [br |-> b]]
SubSeqSafe(x, a, b) == IF a > b THEN <<>> ELSE SubSeq(x, a, b)
FilterSeq(x, P(_)) == LET F[k \in 0..Len(x)] == IF k = 0 THEN <<>> ELSE IF P(x[k]) THEN Append(F[k-1], x[k]) ELSE F[k-1]
                      IN F[Len(x)]
\* loops of the prefix of x, in order
PrefLoops(x, sh) == FilterSeq(SubSeqSafe(x, 1, CutPos(x, sh)), LAMBDA n : n.kind = "T")
LoopSetOf(x, sh) == {<<PrefLoops(x, sh)[k].rv, PrefLoops(x, sh)[k].tile>> : k \in 1..Len(PrefLoops(x, sh))}
\* holders of the prefix of x that have exactly k prefix loops above them
HoldersAtLevel(x, sh, k) ==
  LET c == CutPos(x, sh)
      lvl(j) == Cardinality({a \in 1..(j-1) : x[a].kind = "T"})
      F[j \in 0..c] == IF j = 0 THEN <<>> ELSE IF x[j].kind = "S" /\ lvl(j) = k THEN Append(F[j-1], x[j]) ELSE F[j-1]
  IN F[c]
\* General merge (several shared loops, possibly permuted between p and q): the merged prefix uses a loop order
\* that respects both pmappings (a loop that is above a holder in p or in q stays above it); a holder goes below
\* the last of the loops that are above it in its own pmapping.
LoopsAboveIn(x, j) == {<<x[a].rv, x[a].tile>> : a \in {b \in 1..(j-1) : x[b].kind = "T"}}
PrefHolders(x, sh) == {j \in 1..CutPos(x, sh) : x[j].kind = "S"}
\* order constraints of x: loop u must precede loop v if some prefix holder of x has u above it and v below it
MustPrecede(x, sh, u, v) == \E j \in PrefHolders(x, sh) : u \in LoopsAboveIn(x, j) /\ v \notin LoopsAboveIn(x, j)
                                                            /\ v \in LoopSetOf(x, sh)
MergedOrder(p, q, sh) ==
  LET LS == LoopSetOf(p, sh)
      n == Cardinality(LS)
  IN CHOOSE o \in [1..n -> LS] :
       /\ \A a, b \in 1..n : a # b => o[a] # o[b]
       /\ \A a, b \in 1..n : a < b => ~MustPrecede(p, sh, o[b], o[a]) /\ ~MustPrecede(q, sh, o[b], o[a])
OrderExists(p, q, sh) ==
  LET LS == LoopSetOf(p, sh)
      n == Cardinality(LS)
  IN \E o \in [1..n -> LS] :
       /\ \A a, b \in 1..n : a # b => o[a] # o[b]
       /\ \A a, b \in 1..n : a < b => ~MustPrecede(p, sh, o[b], o[a]) /\ ~MustPrecede(q, sh, o[b], o[a])
LevelIn(x, j, o) == LET A == LoopsAboveIn(x, j)
                        ix == {a \in 1..Len(o) : o[a] \in A}
                    IN IF ix = {} THEN 0 ELSE Max(ix)
HoldersAtLevelG(x, sh, o, k) ==
  LET c == CutPos(x, sh)
      F[j \in 0..c] == IF j = 0 THEN <<>> ELSE IF x[j].kind = "S" /\ LevelIn(x, j, o) = k THEN Append(F[j-1], x[j]) ELSE F[j-1]
  IN F[c]
MergedG(p, q, sh) ==
  LET o == MergedOrder(p, q, sh)
      nl == Len(o)
      pAt(k) == HoldersAtLevelG(p, sh, o, k)
      qAt(k) == FilterSeq(HoldersAtLevelG(q, sh, o, k),
                          LAMBDA n : ~ \E a \in 1..Len(pAt(k)) : pAt(k)[a].t = n.t /\ pAt(k)[a].mem = n.mem)
      Lev[k \in 0..nl] == LET here == TagAll(pAt(k), 0) \o TagAll(qAt(k), 0)
                           IN IF k = 0 THEN here
                              ELSE Lev[k-1] \o <<[kind |-> "T", rv |-> o[k][1], tile |-> o[k][2], br |-> 0]>> \o here
      b1 == TagAll(SubSeqSafe(p, CutPos(p, sh) + 1, Len(p)), 1)
      b2 == TagAll(SubSeqSafe(q, CutPos(q, sh) + 1, Len(q)), 2)
  IN Lev[nl] \o b1 \o b2

Merged(p, q, sh) ==
  LET L == PrefLoops(p, sh)
      nl == Len(L)
      pAt(k) == HoldersAtLevel(p, sh, k)
      qAt(k) == FilterSeq(HoldersAtLevel(q, sh, k),
                          LAMBDA n : ~ \E a \in 1..Len(pAt(k)) : pAt(k)[a].t = n.t /\ pAt(k)[a].mem = n.mem)
      Lev[k \in 0..nl] == LET here == TagAll(pAt(k), 0) \o TagAll(qAt(k), 0)
                           IN IF k = 0 THEN here ELSE Lev[k-1] \o <<L[k] @@ [br |-> 0]>> \o here
      b1 == TagAll(SubSeqSafe(p, CutPos(p, sh) + 1, Len(p)), 1)
      b2 == TagAll(SubSeqSafe(q, CutPos(q, sh) + 1, Len(q)), 2)
  IN Lev[nl] \o b1 \o b2

\* C13 with capacity: exhaustive join of two recorded pmapping tables.  Pairs are compatible when they back the
\* shared tensor in the same memory under the same (at most one, canonical) shared loop; a pair is valid when the
\* merged tree's peak fits every finite memory; objectives add.
JCases == JsonDeserialize(IOEnv.JOIN_FILE)
LoopSet(x, sh) == {<<PrefLoops(x, sh)[k].rv, PrefLoops(x, sh)[k].tile>> : k \in 1..Len(PrefLoops(x, sh))}
CompatN(p, q, sh) == /\ p[CutPos(p, sh)].mem = q[CutPos(q, sh)].mem
                     /\ LoopSet(p, sh) = LoopSet(q, sh)
                     /\ Len(PrefLoops(p, sh)) <= 1 /\ Len(PrefLoops(q, sh)) <= 1
FitsJ(jc, a, b) ==
  LET c == [id |-> "x", world |-> jc.world, nodes |-> Merged(jc.P1[a].nodes, jc.P2[b].nodes, jc.sh)]
  IN \A m \in DOMAIN jc.world.level : (jc.world.size[m] > 0) => PeakF(c, m) <= jc.world.size[m]
PairsJ(jc) == {<<a, b>> \in (1..Len(jc.P1)) \X (1..Len(jc.P2)) : CompatN(jc.P1[a].nodes, jc.P2[b].nodes, jc.sh)}
ValidPairsJ(jc) == {pr \in PairsJ(jc) : FitsJ(jc, pr[1], pr[2])}
SumJ(a, b) == [k \in 1..Len(a) |-> a[k] + b[k]]
DomJ(u, v) == (\A k \in 1..Len(u) : u[k] <= v[k]) /\ (\E k \in 1..Len(u) : u[k] < v[k])
FrontJ(S) == {v \in S : ~ \E u \in S : DomJ(u, v)}
JoinReport(jc) ==
  LET VP == ValidPairsJ(jc)
      J == {SumJ(jc.P1[pr[1]].obj, jc.P2[pr[2]].obj) : pr \in VP}
  IN [id |-> jc.id, pairs |-> Cardinality(PairsJ(jc)), valid |-> Cardinality(VP), front |-> FrontJ(J)]

\* general variant: any number of shared loops, usage of the finite memories as further objective coordinates
CompatG(p, q, sh) == /\ p[CutPos(p, sh)].mem = q[CutPos(q, sh)].mem
                     /\ LoopSetOf(p, sh) = LoopSetOf(q, sh)
                     /\ Cardinality(LoopSetOf(p, sh)) = Len(PrefLoops(p, sh))   \* no repeated (rv, tile) loop
                     /\ OrderExists(p, q, sh)
JoinReportG(jc) ==
  LET PG == {<<a, b>> \in (1..Len(jc.P1)) \X (1..Len(jc.P2)) : CompatG(jc.P1[a].nodes, jc.P2[b].nodes, jc.sh)}
      tree(pr) == [id |-> "x", world |-> jc.world, nodes |-> MergedG(jc.P1[pr[1]].nodes, jc.P2[pr[2]].nodes, jc.sh)]
      fin == {m \in DOMAIN jc.world.level : jc.world.size[m] > 0}
      mems == jc.usagemems   \* sequence of memories whose usage is an objective coordinate (may be empty)
      vec(pr) == SumJ(jc.P1[pr[1]].obj, jc.P2[pr[2]].obj)
                 \o [k \in 1..Len(mems) |-> PeakF(tree(pr), mems[k])]
      VP == {pr \in PG : \A m \in fin : PeakF(tree(pr), m) <= jc.world.size[m]}
      J == {vec(pr) : pr \in VP}
  IN [id |-> jc.id, pairs |-> Cardinality(PG), valid |-> Cardinality(VP), front |-> FrontJ(J)]

VARIABLE i
\* the execution variables of LoopNest are not used here (definitions only)
Unused == <<W, nodes, phase, pc, dir, idx, rd, wr, macs, valid, step, since, first, last, live, pts>>
FInit == /\ i = 1
         /\ W = 0 /\ nodes = <<>> /\ phase = "static" /\ pc = 0 /\ dir = "down" /\ idx = <<>> /\ rd = <<>> /\ wr = <<>>
         /\ macs = 0 /\ valid = <<>> /\ step = 0 /\ since = <<>> /\ first = <<>> /\ last = <<>> /\ live = <<>> /\ pts = <<>>
FNext == i < Len(FCases) /\ i' = i + 1 /\ UNCHANGED Unused
FSpec == FInit /\ [][FNext]_<<i, Unused>>

JInit == /\ i = 1
         /\ W = 0 /\ nodes = <<>> /\ phase = "static" /\ pc = 0 /\ dir = "down" /\ idx = <<>> /\ rd = <<>> /\ wr = <<>>
         /\ macs = 0 /\ valid = <<>> /\ step = 0 /\ since = <<>> /\ first = <<>> /\ last = <<>> /\ live = <<>> /\ pts = <<>>
JNext == i < Len(JCases) /\ i' = i + 1 /\ UNCHANGED Unused
JSpec == JInit /\ [][JNext]_<<i, Unused>>
JEmit == i <= Len(JCases) => PrintT(ToJson(JoinReport(JCases[i])))
JEmitG == i <= Len(JCases) => PrintT(ToJson(JoinReportG(JCases[i])))

FEmit == i <= Len(FCases) =>
  LET c == FCases[i]
  IN PrintT(ToJson([id |-> c.id, views_ok |-> ViewsOK(c),
                    peak |-> [m \in DOMAIN c.world.level |-> PeakF(c, m)]]))
=============================================================================
