CONSTANTS
  Parent <- Tree6
  Mode = "dep"
  NNames = 4
  WithSelf = TRUE
  PlaceIn = {2, 4}
  SelfPlaces = {}
  KeyOrders = "two"
  G2Scopes <- Chain123
  G2Rev = {FALSE}
  RN = 0
INIT G1Init
NEXT ExhNext
INVARIANT Emit
