------------------------------- MODULE SetExpr -------------------------------
(***************************************************************************)
(* Meaning of accelforge's set expressions (property C22).                  *)
(*                                                                          *)
(* A workload is a record                                                   *)
(*    [ein  |-> << [ins |-> set of tensor names, out |-> tensor name], .. >>,*)
(*     pers |-> set of tensor names flagged persistent,                     *)
(*     ren  |-> << <<rename name, source expression>>, .. >>]               *)
(* Einsum i reads W.ein[i].ins and writes W.ein[i].out (never one of its    *)
(* own inputs).  The named sets are DEFINED from this record; nothing here  *)
(* was derived from the implementation.                                     *)
(*                                                                          *)
(* An expression is a tuple:  <<"n", name>>, <<"~", e>>, <<op, e1, e2>>     *)
(* with op in {"&", "|", "-", "^"}.                                         *)
(***************************************************************************)
EXTENDS Integers, Sequences, FiniteSets, TLC

BinOps == {"&", "|", "-", "^"}

NamedSets == {"All", "Tensors", "Inputs", "Outputs", "Intermediates", "Shared",
              "Persistent", "Nothing"}

NEinsums(W) == Len(W.ein)

\* the tensors of Einsum i: the universe in which ~ complements
EinsumTensors(W, i) == W.ein[i].ins \cup {W.ein[i].out}

WorkloadTensors(W) == UNION {EinsumTensors(W, i) : i \in 1..NEinsums(W)}

Readers(W, t) == {j \in 1..NEinsums(W) : t \in W.ein[j].ins}
Writers(W, t) == {j \in 1..NEinsums(W) : t = W.ein[j].out}
Users(W, t)   == Readers(W, t) \cup Writers(W, t)

RenNames(W) == {W.ren[k][1] : k \in 1..Len(W.ren)}

\* Documented meaning (docs/source/guide/parsing/evaluation.rst, "Set Expressions"):
\*   All / Tensors  all tensors used in the current Einsum
\*   Inputs/Outputs tensors input to / output from the current Einsum
\*   Intermediates  tensors produced by one Einsum and consumed by another
\*   Shared         tensors shared between multiple Einsums
\*   Persistent     tensors flagged persistent
\*   Nothing        the empty set
\* every one of them restricted to the current Einsum's tensors.
Named(W, i, nm) ==
  LET U == EinsumTensors(W, i) IN
  CASE nm = "All"           -> U
    [] nm = "Tensors"       -> U
    [] nm = "Inputs"        -> W.ein[i].ins
    [] nm = "Outputs"       -> {W.ein[i].out}
    [] nm = "Intermediates" -> {t \in U : Readers(W, t) # {} /\ Writers(W, t) # {}}
    [] nm = "Shared"        -> {t \in U : Cardinality(Users(W, t)) > 1}
    [] nm = "Persistent"    -> U \cap W.pers
    [] nm = "Nothing"       -> {}

\* names an expression may use in the architecture for this workload
Defined(W) == NamedSets \cup WorkloadTensors(W) \cup RenNames(W)

\* THE DEFINITION (property C22): set algebra over a table of named sets,
\* complement within the universe U (the Einsum's tensors)
RECURSIVE EvalT(_, _, _)
EvalT(x, tab, U) ==
  CASE x[1] = "n" -> tab[x[2]]
    [] x[1] = "~" -> U \ EvalT(x[2], tab, U)
    [] x[1] = "&" -> EvalT(x[2], tab, U) \cap EvalT(x[3], tab, U)
    [] x[1] = "|" -> EvalT(x[2], tab, U) \cup EvalT(x[3], tab, U)
    [] x[1] = "-" -> EvalT(x[2], tab, U) \ EvalT(x[3], tab, U)
    [] x[1] = "^" -> LET a == EvalT(x[2], tab, U)
                         b == EvalT(x[3], tab, U)
                     IN (a \ b) \cup (b \ a)

\* the named sets and every tensor of the workload; a tensor of the workload
\* that the Einsum does not touch is the empty set
BaseTab(W, i) ==
  [nm \in NamedSets \cup WorkloadTensors(W) |->
     IF nm \in NamedSets THEN Named(W, i, nm) ELSE {nm} \cap EinsumTensors(W, i)]

\* a rename is a new name for the value of its source expression in this Einsum;
\* renames are evaluated in order and a source may use the names before it
RECURSIVE WithRenames(_, _, _, _)
WithRenames(tab, ren, k, U) ==
  IF k > Len(ren) THEN tab
  ELSE WithRenames(tab @@ (ren[k][1] :> EvalT(ren[k][2], tab, U)), ren, k + 1, U)

Tab(W, i) == WithRenames(BaseTab(W, i), W.ren, 1, EinsumTensors(W, i))

Eval(x, W, i) == EvalT(x, Tab(W, i), EinsumTensors(W, i))

-----------------------------------------------------------------------------
(* Concrete syntax, as the sequence of tokens of the expression string (the *)
(* harness joins the tokens; building strings with \o is 2.5x slower in     *)
(* TLC).  Full: every binary node parenthesised.  Min: only the parentheses *)
(* Python's grammar needs (binary operators are left associative; from      *)
(* loosest to tightest:  |  ^  &  -  and unary ~ binds tighter than all of  *)
(* them), so that parsing Min(x) with Python's precedence gives back        *)
(* exactly the tree x.                                                      *)
IsBin(x) == x[1] \in BinOps

Prec(op) == CASE op = "|" -> 1 [] op = "^" -> 2 [] op = "&" -> 3 [] op = "-" -> 4
NodePrec(x) == IF IsBin(x) THEN Prec(x[1]) ELSE 9

Paren(s) == <<"(">> \o s \o <<")">>

RECURSIVE Full(_)
Full(x) ==
  CASE x[1] = "n" -> <<x[2]>>
    [] x[1] = "~" -> <<"~">> \o Full(x[2])
    [] OTHER      -> Paren(Full(x[2]) \o <<x[1]>> \o Full(x[3]))

RECURSIVE Min(_)
Min(x) ==
  CASE x[1] = "n" -> <<x[2]>>
    [] x[1] = "~" -> <<"~">> \o (IF IsBin(x[2]) THEN Paren(Min(x[2])) ELSE Min(x[2]))
    [] OTHER      ->
         LET p == Prec(x[1])
             l == IF NodePrec(x[2]) <  p THEN Paren(Min(x[2])) ELSE Min(x[2])
             r == IF NodePrec(x[3]) <= p THEN Paren(Min(x[3])) ELSE Min(x[3])
         IN l \o <<x[1]>> \o r

RECURSIVE Depth(_)
Depth(x) == CASE x[1] = "n" -> 1
              [] x[1] = "~" -> 1 + Depth(x[2])
              [] OTHER      -> 1 + (IF Depth(x[2]) >= Depth(x[3]) THEN Depth(x[2]) ELSE Depth(x[3]))

RECURSIVE NOps(_)
NOps(x) == CASE x[1] = "n" -> 0
             [] x[1] = "~" -> 1 + NOps(x[2])
             [] OTHER      -> 1 + NOps(x[2]) + NOps(x[3])

\* all trees of depth <= d over leaf names L (a leaf has depth 1)
RECURSIVE Trees(_, _)
Trees(d, L) ==
  IF d <= 1 THEN {<<"n", nm>> : nm \in L}
  ELSE LET S == Trees(d - 1, L)
       IN S \cup {<<"~", a>> : a \in S} \cup {<<o, a, b>> : o \in BinOps, a \in S, b \in S}

-----------------------------------------------------------------------------
(* Dictionaries keyed by set expressions, with the optional key Other.      *)
(* keys is the sequence of the keys other than Other; ks[k] is the value of *)
(* the k-th key in the Einsum and U the Einsum's tensors.                   *)
KeySets(keys, W, i) == [k \in 1..Len(keys) |-> Eval(keys[k], W, i)]

Covered(ks) == UNION {ks[k] : k \in 1..Len(ks)}

\* overlapping keys: the dictionary is rejected
Overlap(ks) == \E j, k \in 1..Len(ks) : j < k /\ ks[j] \cap ks[k] # {}

\* Other = everything not covered by the other keys
OtherSet(ks, U) == U \ Covered(ks)

\* which key a tensor gets its value from; Len(ks)+1 stands for Other
Assign(ks, hasOther, U) ==
  [t \in (IF hasOther THEN U ELSE Covered(ks)) |->
     IF t \in Covered(ks) THEN CHOOSE k \in 1..Len(ks) : t \in ks[k] ELSE Len(ks) + 1]

\* "assigns every tensor exactly once": checked by TLC on every generated dictionary
ExactlyOnce(ks, hasOther, U) ==
  (hasOther /\ ~Overlap(ks)) =>
     \A t \in U :
        Cardinality({k \in 1..Len(ks) : t \in ks[k]}
                    \cup (IF t \in OtherSet(ks, U) THEN {Len(ks) + 1} ELSE {})) = 1

=============================================================================
