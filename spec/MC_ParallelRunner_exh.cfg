CONSTANTS
  NSet <- Small
  WSet <- SmallW
  Modes <- AllModes
  InOrder = TRUE
  Placement = "by_tag"
INIT SchedInit
NEXT SchedNext
INVARIANT EmitSched
INVARIANT Correct
