CONSTANTS
  NSet <- Small
  WSet <- SmallW
  Modes <- AllModes
  InOrder = TRUE
  Placement = "by_tag"
  NCases = 0
INIT SchedInit
NEXT SchedNext
INVARIANT EmitSched
INVARIANT Correct
