------------------------- MODULE MC_ComponentCosts -------------------------
(* Case families and generators for C27 (spec/ComponentCosts.tla).           *)
(*                                                                           *)
(*   E1: component 1 (a Memory with two actions) takes EVERY vector of six   *)
(*       scale factors over {1/2, 1, 2} and every n_parallel_instances in    *)
(*       {1, 2, 4}; component 2 (a Compute) is fixed; histories: three full  *)
(*       calls, and full / all-but-area (what the mapper asks for) / full.   *)
(*       (Small: n_parallel_instances in {1, 2}, three full calls only.)     *)
(*   E2: every history of length 1..3 over four flag sets, for nine scale    *)
(*       vectors (all 1, exactly one factor 2, all 2).                       *)
(*   Rand: two or three components with random rational base values and      *)
(*       scale factors, random histories of 1..3 calls over arbitrary flag   *)
(*       sets, with or without a spatial container in the architecture.      *)
(*                                                                           *)
(* Every record carries the inputs, the history, and after each call what    *)
(* the definition says is observed (expect) and what re-applying the scales  *)
(* at every call would give (reapply; used only to NAME a disagreement).     *)
EXTENDS ComponentCosts, Json, IOUtils, Randomization

CONSTANTS RN,   \* random cases per run
          Small  \* exhaustive families: TRUE = the reduced grid of the quick tier

VARIABLES H, shape, n
gvars == <<params, st, calls, hist, H, shape, n>>

R(a, b) == <<a, b>>
ScaleVals == {R(1, 2), R(1, 1), R(2, 1)}
NpiVals   == {R(1, 1), R(2, 1), R(4, 1)}

Act(e, t, es, ts) == [energy |-> e, tp |-> t, escale |-> es, tscale |-> ts]
Comp(ar, lk, as, ls, es, ts, np, acts) ==
  [area |-> ar, leak |-> lk, area_scale |-> as, leak_scale |-> ls, energy_scale |-> es,
   tp_scale |-> ts, npi |-> np, acts |-> acts]

\* component 2 (Compute): fixed, every factor different from 1
FixedCompute == Comp(R(3, 1), R(1, 2), R(2, 1), R(3, 1), R(1, 2), R(2, 1), R(2, 1),
                     <<Act(R(7, 1), R(8, 1), R(3, 2), R(1, 4))>>)

\* component 1 (Memory) from a vector of six factors and npi
\* sv = <<area_scale, leak_scale, energy_scale, tp_scale, read.escale, read.tscale>>
Mem(sv, np) == Comp(R(5, 1), R(3, 2), sv[1], sv[2], sv[3], sv[4], np,
                    <<Act(R(3, 1), R(4, 1), sv[5], sv[6]), Act(R(1, 2), R(1, 1), R(1, 1), R(1, 1))>>)

All == Kinds
NoArea == Kinds \ {"area"}
E1Hists == IF Small THEN {<<All, All, All>>} ELSE {<<All, All, All>>, <<All, NoArea, All>>}
E1Npi   == IF Small THEN {R(1, 1), R(2, 1)} ELSE NpiVals

FlagSets4 == {All, NoArea, {"area"}, {"energy", "throughput"}}
HistsUpTo3(FS) == UNION {[1..k -> FS] : k \in 1..3}
Ones == [i \in 1..6 |-> R(1, 1)]
SV9 == {Ones, [i \in 1..6 |-> R(2, 1)]} \cup {[Ones EXCEPT ![j] = R(2, 1)] : j \in 1..6}

-----------------------------------------------------------------------------
SetSeq(S) == LET RECURSIVE F(_)
                 F(T) == IF T = {} THEN <<>> ELSE LET x == CHOOSE y \in T : TRUE IN <<x>> \o F(T \ {x})
             IN F(S)

Rec ==
  [comps   |-> params,
   hist    |-> [i \in 1..Len(H) |-> SetSeq(H[i])],
   shape   |-> shape,
   expect  |-> [i \in 1..Len(H) |-> LET s == RunOnce(params, H, i) IN
                  [applied |-> SetSeq(s.applied), val |-> s.val]],
   reapply |-> [i \in 1..Len(H) |-> RunReapply(params, H, i).val]]

Emit == PrintT(ToJson(Rec))

Idle == /\ st = Start(params) /\ calls = 0 /\ hist = <<>> /\ n = 0

E1Init == /\ \E sv \in [1..6 -> ScaleVals], np \in E1Npi : params = <<Mem(sv, np), FixedCompute>>
          /\ H \in E1Hists
          /\ shape \in {0}
          /\ Idle
E2Init == /\ \E sv \in SV9, np \in {R(1, 1), R(2, 1)} : params = <<Mem(sv, np), FixedCompute>>
          /\ H \in HistsUpTo3(FlagSets4)
          /\ shape \in {1}
          /\ Idle
ExhInitAll == E1Init \/ E2Init
ExhNext == UNCHANGED gvars

-----------------------------------------------------------------------------
(* role A: every history (all 15 flag sets per call) for a grid of parameters *)
RoleAInit == /\ \E sv \in SV9 \cup {[i \in 1..6 |-> R(1, 2)]}, np \in NpiVals : InitWith(<<Mem(sv, np), FixedCompute>>)
             /\ H = <<>> /\ shape = 0 /\ n = 0
RoleANext == Next /\ UNCHANGED <<H, shape, n>>

-----------------------------------------------------------------------------
(* random generator (-simulate): every draw is used once and stored *)
RNums == <<0, 1, 1, 2, 3, 5, 6, 7, 10, 12>>
RDens == <<1, 1, 1, 2, 4, 8>>
RScaleN == <<1, 1, 2, 3, 4, 5>>
RBase(i)  == R(RNums[RandomElement(1..Len(RNums))], RDens[RandomElement(1..Len(RDens))])   \* not reduced
RScale(i) == R(RScaleN[RandomElement(1..Len(RScaleN))], RDens[RandomElement(1..Len(RDens))])
RNpi(i)   == R(RandomElement({1, 1, 2, 3, 4, 8}), 1)
RAct(i)  == Act(RBase(i), RBase(i), RScale(i), RScale(i))
RComp(nacts) == Comp(RBase(0), RBase(0), RScale(0), RScale(0), RScale(0), RScale(0), RNpi(0),
                     [a \in 1..nacts |-> RAct(a)])
RParams(nc) == IF nc = 2 THEN <<RComp(2), RComp(1)>> ELSE <<RComp(2), RComp(1), RComp(2)>>
RHist(len) == [i \in 1..len |-> RandomSubset(RandomElement(0..4), Kinds)]

RandInit == /\ params = <<Mem(Ones, R(1, 1)), FixedCompute>> /\ H = <<All>> /\ shape = 0
            /\ st = Start(params) /\ calls = 0 /\ hist = <<>> /\ n = 0
RandNext == /\ n < RN
            /\ n' = n + 1
            /\ params' = RParams(RandomElement(2..3))
            /\ H' = RHist(RandomElement(1..3))
            /\ shape' = RandomElement(0..1)
            /\ UNCHANGED <<st, calls, hist>>
RandEmit == (n > 0) => PrintT(ToJson(Rec))
=============================================================================
