SPECIFICATION TSpec
INVARIANT Progress
POSTCONDITION Accepted
