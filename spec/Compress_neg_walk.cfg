CONSTANTS
  Shapes <- Shapes22
  ESet <- One
  RSet <- One
  KeyMode = "before"
  WalkMode = "forward"
SPECIFICATION Spec
INVARIANT Lossless
INVARIANT NoError
INVARIANT CompressInv
