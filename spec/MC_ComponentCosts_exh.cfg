CONSTANTS
  Mode = "once"
  MaxCalls = 3
  RN = 0
  Small = FALSE
INIT ExhInitAll
NEXT ExhNext
INVARIANT Emit
