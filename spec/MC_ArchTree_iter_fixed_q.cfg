\* role A: iterator that does not append Compute leaves + cost loop that counts the own fanout: all invariants hold (all trees with <= 4 nodes)
CONSTANTS
  MaxN = 4
  MaxDepth = 4
  LeafKinds = {"Memory", "Container", "Compute"}
  BranchKinds = {"Fork", "Hierarchical"}
  Fanouts = {2}
  ComputeFanouts = {1, 3}
  MinEmit = 1
  AppendComputes = FALSE
  CountOwn = TRUE
SPECIFICATION Spec
INVARIANT GrowIsPrefixOK
INVARIANT FullIsWF
INVARIANT AllLeavesYielded
INVARIANT YieldedParentsAreAncestors
INVARIANT CostsCorrect
INVARIANT FlattenIsPath
