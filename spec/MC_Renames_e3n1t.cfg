CONSTANTS
  NEin = 3
  KindSeq <- KT
  SrcT <- ST3
  SrcR <- SR3
  Cnts <- Cnts12
  N = 0
INIT ExhInit
NEXT ExhNext
INVARIANT Emit
