CONSTANTS
  MaxNodes = 7
  MaxLoopsPerRv = 2
SPECIFICATION Spec
INVARIANT Emit
INVARIANT ExecOK
INVARIANT FootprintLemma
