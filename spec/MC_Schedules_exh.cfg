CONSTANTS
  K = 3
  Calls = 1
  NSched = 1
SPECIFICATION ESpec
INVARIANT GEmit
