\* case generator (model checking): every well-formed tree with 1..4 nodes, all kinds, fanouts {1,2} ({1,3} on Compute)
CONSTANTS
  MaxN = 4
  MaxDepth = 4
  LeafKinds = {"Memory", "Toll", "Container", "Compute"}
  BranchKinds = {"Fork", "Hierarchical"}
  Fanouts = {1, 2}
  ComputeFanouts = {1, 3}
  MinEmit = 1
  AppendComputes = TRUE
  CountOwn = FALSE
INIT Init
NEXT GenNext
INVARIANT Emit25
