CONSTANTS
  Parent <- Tree6
  Mode = "dep"
  NNames = 4
  WithSelf = FALSE
  PlaceIn = {3}
  SelfPlaces = {}
  KeyOrders = "two"
  G2Scopes <- Chain123
  G2Rev = {FALSE}
  RN = 0
INIT RoleAInitG1
NEXT RoleANext
INVARIANT Confluent
INVARIANT StuckIffCycle
INVARIANT TerminalIsExpected
