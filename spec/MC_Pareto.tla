----------------------------- MODULE MC_Pareto -----------------------------
(* Case generators for C11: every behaviour is one matrix + goal vector and *)
(* the mask that the DEFINITION (Pareto!Mask) assigns to it.  The harness   *)
(* replays each printed record into fast_pareto_mask / makepareto_numpy.    *)
EXTENDS Pareto, TLC, Json, IOUtils, Randomization

CONSTANTS R,        \* max number of rows (exhaustive: exactly R)
          C,        \* number of columns
          Vals,     \* abstract values
          GoalSeqs, \* set of goal vectors to use
          N         \* number of random cases (random generators)

VARIABLES M, G, n

vars == <<M, G, n>>

GoalOrder == <<"min", "max", "diff", "min_per_prime_factor", "max_per_prime_factor">>
\* goal vectors of length k over goal indices idxs, up to column permutation
SortedGoalSeqs(idxs, k) ==
  {[i \in 1..k |-> GoalOrder[f[i]]] :
     f \in {g \in [1..k -> idxs] : \A i \in 1..(k-1) : g[i] <= g[i+1]}}
AllGoalSeqs(idxs, k) == {[i \in 1..k |-> GoalOrder[f[i]]] : f \in [1..k -> idxs]}
GoalsMMD_sorted == SortedGoalSeqs(1..3, C)   \* min / max / diff
GoalsMMD_all    == AllGoalSeqs(1..3, C)
GoalsAllMin     == {[i \in 1..C |-> "min"]}
GoalsMinMax     == AllGoalSeqs(1..2, C)
GoalsPF_all     == AllGoalSeqs({1, 3, 4, 5}, C)
GoalsEverything == AllGoalSeqs(1..5, C)

Rec == [M |-> M, G |-> G, mask |-> Mask(M, G)]

Emit == PrintT(ToJson(Rec))

---------------------------------------------------------------------------
(* Exhaustive: all R x C matrices over Vals, all goal vectors in GoalSeqs.  *)
ExhInit == /\ M \in [1..R -> [1..C -> Vals]]
           /\ G \in GoalSeqs
           /\ n = 0
ExhNext == UNCHANGED vars

---------------------------------------------------------------------------
(* Random: N matrices with 2..R rows, values drawn from Vals.  Row          *)
(* duplication and near-duplication are forced with probability ~1/3 so     *)
(* that ties, duplicates and dominated neighbours are frequent.             *)
\* (the dummy parameter keeps TLC from caching this as a constant-level definition)
RandRow(z) == [c \in 1..C |-> RandomElement(Vals)]

RECURSIVE RandRows(_)
RandRows(k) ==
  IF k = 0 THEN <<>>
  ELSE LET prev == RandRows(k - 1)
           mode == RandomElement(0..2)
       IN IF mode = 0 /\ prev # <<>>
          THEN \* perturb one cell of a previous row
               LET src == prev[RandomElement(1..Len(prev))]
                   cc  == RandomElement(1..C)
               IN Append(prev, [src EXCEPT ![cc] = RandomElement(Vals)])
          ELSE Append(prev, RandRow(k))

RandInit == /\ n = 0
            /\ M = RandRows(2)
            /\ G = RandomElement(GoalSeqs)
RandNext == /\ n < N
            /\ n' = n + 1
            /\ M' = RandRows(RandomElement(2..R))
            /\ G' = RandomElement(GoalSeqs)
=============================================================================
