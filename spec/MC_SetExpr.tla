----------------------------- MODULE MC_SetExpr -----------------------------
(* Case generators for C22.  Every printed record carries the inputs (the   *)
(* workload, the Einsum, the concrete expression strings) and the result    *)
(* that the DEFINITION SetExpr!Eval / SetExpr!Assign gives.  The harness    *)
(* (checks/c22.py) evaluates the strings through the real front end.        *)
EXTENDS SetExpr, TLC, Json, IOUtils, Randomization

CONSTANTS MaxDepth,   \* exhaustive: trees of depth <= MaxDepth (leaf = depth 1)
          Alphabet,   \* exhaustive: leaf names to use (intersected with Defined(W))
          Pairs,      \* exhaustive: set of <<workload index, einsum index>>
          N,          \* random: number of cases
          K,          \* random: expressions per case / max keys per dictionary
          RDepth      \* random: maximal depth of a random tree

VARIABLES c, n
vars == <<c, n>>

Nm(x) == <<"n", x>>
Ein(ins, out) == [ins |-> ins, out |-> out]

\* two renames whose sources are defined in every Einsum
RenStd == << <<"rin", <<"&", Nm("Inputs"), Nm("Intermediates")>> >>,
             <<"rw",  <<"~", <<"|", Nm("Shared"), Nm("Outputs")>> >> >> >>

(* The small workload family of the exhaustive runs: 1-4 Einsums, chains,   *)
(* a diamond, a tensor written twice, a feedback pair; persistent inputs,   *)
(* outputs, intermediates and none.                                         *)
Family == <<
  [ein |-> <<Ein({"A", "B"}, "C")>>,                         pers |-> {"A"},      ren |-> RenStd],
  [ein |-> <<Ein({"A", "B"}, "C"), Ein({"C", "A"}, "D")>>,   pers |-> {"A"},      ren |-> RenStd],
  [ein |-> <<Ein({"A"}, "B"), Ein({"B"}, "C"), Ein({"C", "A"}, "D")>>,
                                                             pers |-> {},         ren |-> RenStd],
  [ein |-> <<Ein({"A"}, "B"), Ein({"B", "A"}, "C"), Ein({"C", "B"}, "D"), Ein({"D", "A"}, "E")>>,
                                                             pers |-> {"A", "E"}, ren |-> RenStd],
  [ein |-> <<Ein({"A"}, "C"), Ein({"B"}, "C")>>,             pers |-> {"C"},      ren |-> RenStd],
  [ein |-> <<Ein({"A"}, "B"), Ein({"A"}, "C"), Ein({"B", "C"}, "D")>>,
                                                             pers |-> {"A", "D"}, ren |-> RenStd],
  [ein |-> <<Ein({"A"}, "B")>>,                              pers |-> {},         ren |-> RenStd],
  [ein |-> <<Ein({"A"}, "B"), Ein({"B"}, "C")>>,             pers |-> {"B"},      ren |-> RenStd],
  [ein |-> <<Ein({"A", "C"}, "B"), Ein({"B"}, "C")>>,        pers |-> {"A"},      ren |-> RenStd]
>>

PairsAll == {<<w, e>> : w \in 1..Len(Family), e \in 1..4} \cap
            {p \in (1..Len(Family)) \X (1..4) : p[2] <= NEinsums(Family[p[1]])}

RECURSIVE PairSeqFrom(_, _)
PairSeqFrom(w, e) ==
  IF w > Len(Family) THEN <<>>
  ELSE IF e > NEinsums(Family[w]) THEN PairSeqFrom(w + 1, 1)
  ELSE <<<<w, e>>>> \o PairSeqFrom(w, e + 1)
PairSeq == PairSeqFrom(1, 1)

EnvInt(name, dflt) == IF name \in DOMAIN IOEnv THEN atoi(IOEnv[name]) ELSE dflt

\* pairs selected by the environment variables C22_PAIR / C22_PAIR2 (1-based, wrap around)
PairAt(i)  == PairSeq[((i - 1) % Len(PairSeq)) + 1]
PairsSel   == {PairAt(EnvInt("C22_PAIR", 1))}
PairsSel2  == {PairAt(EnvInt("C22_PAIR", 1)), PairAt(EnvInt("C22_PAIR2", 2))}

AlphaNamed == {"All", "Inputs", "Outputs", "Intermediates", "Shared", "Persistent", "Nothing"}
AlphaMixed == {"Inputs", "Shared", "Persistent", "A", "B", "D", "rin"}
AlphaAll   == NamedSets \cup {"A", "B", "C", "D", "E"} \cup {"rin", "rw"}
AlphaQ0    == {"All", "Inputs", "Intermediates", "Persistent"}
AlphaQ1    == {"Outputs", "Shared", "A", "rw"}
AlphaSel   == CASE EnvInt("C22_ALPHA", 0) = 0 -> AlphaNamed
                [] EnvInt("C22_ALPHA", 0) = 1 -> AlphaMixed
                [] EnvInt("C22_ALPHA", 0) = 2 -> AlphaQ0
                [] OTHER                      -> AlphaQ1
\* keys of exhaustively enumerated dictionaries
AlphaDict  == {"Inputs", "Outputs", "Intermediates", "Shared", "Persistent", "Nothing", "A", "B", "rw"}

Leaves(W) == Alphabet \cap Defined(W)

\* what the harness needs to build the workload: sources of renames as strings
WOut(W) == [ein |-> W.ein, pers |-> W.pers,
            ren |-> [k \in 1..Len(W.ren) |-> [name |-> W.ren[k][1], src |-> Full(W.ren[k][2])]]]

ExprOutT(x, tab, U) == [s |-> Full(x), m |-> Min(x), v |-> EvalT(x, tab, U)]

\* SetExpr!Tab tabulated once for the family (a constant, so TLC evaluates it once)
TabC == [w \in 1..Len(Family) |-> [e \in 1..NEinsums(Family[w]) |-> Tab(Family[w], e)]]
UC   == [w \in 1..Len(Family) |-> [e \in 1..NEinsums(Family[w]) |-> EinsumTensors(Family[w], e)]]

---------------------------------------------------------------------------
(* Exhaustive expressions: every tree of depth <= MaxDepth over Leaves(W),  *)
(* for every selected (workload, Einsum).  The top level is enumerated by   *)
(* quantifiers so that TLC never has to build the set of all trees.         *)
ExhInitFor(depth, alpha, pairs) ==
  \E p \in pairs :
       LET W == Family[p[1]]
           S == Trees(depth - 1, alpha \cap Defined(W))
       IN \/ \E a \in S : c = [w |-> p[1], e |-> p[2], x |-> a]
          \/ /\ depth > 1
             /\ \E a \in S : c = [w |-> p[1], e |-> p[2], x |-> <<"~", a>>]
          \/ /\ depth > 1
             /\ \E o \in BinOps, a \in S, b \in S : c = [w |-> p[1], e |-> p[2], x |-> <<o, a, b>>]
ExhInit == n = 0 /\ ExhInitFor(MaxDepth, Alphabet, Pairs)
ExhNext == UNCHANGED vars

ExhEmit == PrintT(ToJson([k |-> "expr", w |-> c.w, e |-> c.e] @@ ExprOutT(c.x, TabC[c.w][c.e], UC[c.w][c.e])))

\* printed once: the family itself
ASSUME PrintT(ToJson([k |-> "family", family |-> [w \in 1..Len(Family) |-> WOut(Family[w])]]))

---------------------------------------------------------------------------
(* Exhaustive dictionaries: 0, 1 or 2 keys of depth <= 2 over AlphaDict,    *)
(* with and without Other, Other in every position.                         *)
DictInitFor(alpha, pairs) ==
  \E p \in pairs :
       LET W == Family[p[1]]
           L == alpha \cap Defined(W)
           S == {<<"n", a>> : a \in L} \cup {<<"~", <<"n", a>>>> : a \in L}
       IN \E keys \in {<<>>} \cup {<<a>> : a \in S} \cup {<<a, b>> : a \in S, b \in S} :
          \E op \in 0..(Len(keys) + 1) :
             /\ \A j, k \in 1..Len(keys) : j < k => keys[j] # keys[k]
             /\ c = [w |-> p[1], e |-> p[2], keys |-> keys, opos |-> op]
DictInit == n = 0 /\ DictInitFor(Alphabet, Pairs)

\* opos = 0: no Other key; opos = j: Other is the j-th key of the dictionary
DictOutT(keys, opos, tab, U) ==
  LET ks == [k \in 1..Len(keys) |-> EvalT(keys[k], tab, U)]
  IN [keys  |-> [k \in 1..Len(keys) |-> Full(keys[k])],
      opos  |-> opos,
      err   |-> Overlap(ks),
      asg   |-> IF Overlap(ks) THEN <<>> ELSE
                LET A == Assign(ks, opos > 0, U)
                IN [j \in 1..(Len(keys) + 1) |-> {t \in DOMAIN A : A[t] = j}],
      other |-> OtherSet(ks, U),
      once  |-> ExactlyOnce(ks, opos > 0, U)]

DictEmit == PrintT(ToJson([k |-> "dict", w |-> c.w, e |-> c.e]
                          @@ DictOutT(c.keys, c.opos, TabC[c.w][c.e], UC[c.w][c.e])))

DictInv == ExactlyOnce([k \in 1..Len(c.keys) |-> EvalT(c.keys[k], TabC[c.w][c.e], UC[c.w][c.e])],
                       c.opos > 0, UC[c.w][c.e])

---------------------------------------------------------------------------
(* The quick tier in one TLC run: depth <= 2 over all names for the whole   *)
(* family, depth <= 3 over a 4-name alphabet (C22_ALPHA: 2 or 3) for one    *)
(* selected pair, and the exhaustive dictionaries of one selected pair.     *)
QuickInit ==
  /\ n = 0
  /\ \/ ExhInitFor(2, AlphaAll, PairsAll)
     \/ ExhInitFor(3, AlphaSel, {PairAt(EnvInt("C22_PAIR", 1))})
     \/ DictInitFor(AlphaDict, {PairAt(EnvInt("C22_PAIR2", 2))})
IsDict == "keys" \in DOMAIN c
QuickEmit == IF IsDict THEN DictEmit ELSE ExhEmit
QuickInv  == IsDict => DictInv

---------------------------------------------------------------------------
(* Random (-simulate, reproducible under -seed): workloads of 1-4 Einsums   *)
(* over five tensors with random inputs, output, persistent flags and       *)
(* rename sources.  A step draws either K random trees of depth <= RDepth   *)
(* or <= RDepth - 1 ("rexpr"), or a dictionary of 0-3 distinct keys of      *)
(* depth <= 3 with Other absent or anywhere ("rdict").                      *)
TU == {"A", "B", "C", "D", "E"}
OpSeq == <<"~", "&", "|", "-", "^">>

RECURSIVE RandTree(_, _)
RandTree(d, L) ==
  IF d <= 1 \/ RandomElement(1..6) = 1 THEN <<"n", RandomElement(L)>>
  ELSE LET o == OpSeq[RandomElement(1..5)]
       IN IF o = "~" THEN <<"~", RandTree(d - 1, L)>>
          ELSE <<o, RandTree(d - 1, L), RandTree(d - 1, L)>>

\* (operators without parameters are constants for TLC and would be evaluated once
\* for the whole run; the parameter z keeps every draw fresh)
RandEinsum(z) == LET out == RandomElement(TU)
                 IN Ein(RandomElement(SUBSET (TU \ {out}) \ {{}}), out)

RECURSIVE RandEinsums(_)
RandEinsums(k) == IF k = 0 THEN <<>> ELSE Append(RandEinsums(k - 1), RandEinsum(k))

RandW(z) ==
         [ein  |-> RandEinsums(RandomElement(1..4)),
          pers |-> RandomElement(SUBSET TU),
          ren  |-> << <<"rin", RandTree(2, AlphaNamed)>>, <<"rw", RandTree(3, AlphaNamed)>> >>]

RECURSIVE RandTrees(_, _, _)
RandTrees(k, d, L) == IF k = 0 THEN <<>> ELSE Append(RandTrees(k - 1, d, L), RandTree(d, L))

\* The state holds the workload and the trees; everything printed is computed
\* from the state, so a record is consistent by construction.  ei is reduced
\* modulo the number of Einsums, opos modulo the number of keys + 2.
RandInit == /\ n = 0
            /\ c = [kind |-> "none", W |-> Family[1], ei |-> 0, xs |-> <<>>, opos |-> 0]

RandCase(W, kind) ==
  IF kind = "rexpr"
  THEN [kind |-> kind, W |-> W, ei |-> RandomElement(0..11),
        xs |-> RandTrees(K, RDepth - RandomElement(0..1), Defined(W)), opos |-> 0]
  ELSE [kind |-> kind, W |-> W, ei |-> RandomElement(0..11),
        xs |-> RandTrees(RandomElement(0..3), 3, Defined(W)), opos |-> RandomElement(0..11)]

RandNext == /\ n < N
            /\ n' = n + 1
            /\ c' = RandCase(RandW(n), IF RandomElement(1..4) = 1 THEN "rexpr" ELSE "rdict")

RandE == (c.ei % NEinsums(c.W)) + 1
RandOpos == c.opos % (Len(c.xs) + 2)

RECURSIVE LeafNames(_)
LeafNames(x) == CASE x[1] = "n" -> {x[2]}
                  [] x[1] = "~" -> LeafNames(x[2])
                  [] OTHER      -> LeafNames(x[2]) \cup LeafNames(x[3])

\* the generator is checked, not trusted: a case outside the domain prints nothing
RandValid == /\ c.kind \in {"rexpr", "rdict"}
             /\ \A k \in 1..Len(c.xs) : LeafNames(c.xs[k]) \subseteq Defined(c.W)
             /\ \A k \in 1..Len(c.W.ren) : LeafNames(c.W.ren[k][2]) \subseteq NamedSets
             /\ \A i \in 1..NEinsums(c.W) : c.W.ein[i].out \notin c.W.ein[i].ins /\ c.W.ein[i].ins # {}
             /\ c.kind = "rdict" => \A j, k \in 1..Len(c.xs) : j < k => c.xs[j] # c.xs[k]

RandEmit ==
  IF ~RandValid THEN TRUE
  ELSE LET tab == Tab(c.W, RandE)
           U   == EinsumTensors(c.W, RandE)
       IN IF c.kind = "rexpr"
          THEN PrintT(ToJson([k |-> "rexpr", W |-> WOut(c.W), e |-> RandE,
                              items |-> [j \in 1..Len(c.xs) |-> ExprOutT(c.xs[j], tab, U) @@ [d |-> Depth(c.xs[j])]]]))
          ELSE PrintT(ToJson([k |-> "rdict", W |-> WOut(c.W), e |-> RandE] @@ DictOutT(c.xs, RandOpos, tab, U)))
=============================================================================
