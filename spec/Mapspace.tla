------------------------------ MODULE Mapspace ------------------------------
(***************************************************************************)
(* The mapspace a micro-spec defines (properties C01, C02, C08, C16-C19):   *)
(* a transition system that CONSTRUCTS a single-Einsum mapping; its          *)
(* terminal states are the mapspace.                                        *)
(*                                                                          *)
(*  1. ChooseKeep: every memory m holds a set S_m of tensors with            *)
(*        keep_m \subseteq S_m \subseteq keep_m \cup may_keep_m ;            *)
(*     the outermost memory holds every tensor (it backs them).             *)
(*  2. The outermost memory's holders come first, with no loop above them.   *)
(*  3. AddHolder: the remaining holders follow in any order that respects    *)
(*     the memory hierarchy (a holder of a lower memory never sits above a  *)
(*     holder of a higher memory).                                          *)
(*  4. AddLoop: temporal loops go anywhere below the outermost holders, in   *)
(*     any order; along the nest the tile shapes of each rank variable form  *)
(*     a strictly decreasing divisor chain that ends at 1 (perfect           *)
(*     factorisation; one-iteration loops are not generated: they change    *)
(*     nothing).  Between two consecutive holders (a "slot") a rank          *)
(*     variable is looped over at most once: two loops over the same rank    *)
(*     variable with no holder between them are one loop.                    *)
(*  5. Close: every rank variable is at tile 1 and every chosen holder is    *)
(*     placed; the compute is appended.                                      *)
(*                                                                          *)
(* Validity with respect to capacity is not decided here: the property       *)
(* speaks of "valid mappings", and validity (capacity) is decided by the     *)
(* model when the harness prices the mapping.                                *)
(***************************************************************************)
EXTENDS LoopNest, Json, IOUtils

MWorlds == JsonDeserialize(IOEnv.WORLDS_FILE)

VARIABLES held    \* [memory -> set of tensors] chosen in step 1 ("none" before)

mvars == <<W, nodes, phase, held, xvars>>

MRankVars == DOMAIN W.bound
MComps == DOMAIN W.level
MTop == CHOOSE c \in MComps : W.level[c] = 0
MDivisors(n) == {d \in 1..n : n % d = 0}

AsSet(seq) == {seq[i] : i \in 1..Len(seq)}

KeepChoices(w) ==
  {h \in [DOMAIN w.level -> SUBSET AsSet(w.tensors)] :
     \A m \in DOMAIN w.level :
        /\ AsSet(w.keep[m]) \subseteq h[m]
        /\ h[m] \subseteq (AsSet(w.keep[m]) \cup AsSet(w.maykeep[m]))
        /\ (w.level[m] = 0 => h[m] = AsSet(w.tensors))}

MBacking(w) == [i \in 1..Len(w.tensors) |-> [kind |-> "S", mem |-> (CHOOSE c \in DOMAIN w.level : w.level[c] = 0), t |-> w.tensors[i]]]

MInit ==
  /\ W \in {MWorlds[i] : i \in 1..Len(MWorlds)}
  /\ held \in KeepChoices(W)
  /\ nodes = MBacking(W)
  /\ phase = "build"
  /\ pc = 0 /\ dir = "down" /\ idx = <<>> /\ rd = <<>> /\ wr = <<>> /\ macs = 0
  /\ valid = <<>> /\ step = 0 /\ since = <<>> /\ first = <<>> /\ last = <<>> /\ live = <<>> /\ pts = <<>>

Placed(m) == {nodes[j].t : j \in {i \in 1..Len(nodes) : IsHolder(nodes[i]) /\ nodes[i].mem = m}}
LastHolderPos == Max({j \in 1..Len(nodes) : IsHolder(nodes[j])})
MaxPlacedLevel == Max({W.level[nodes[j].mem] : j \in {i \in 1..Len(nodes) : IsHolder(nodes[i])}})
\* rank variables looped over in the current slot (after the last holder)
SlotVars == {nodes[j].rv : j \in {i \in (LastHolderPos+1)..Len(nodes) : IsLoop(nodes[i])}}

MAddLoop ==
  /\ phase = "build"
  /\ \E r \in MRankVars :
       /\ r \notin SlotVars
       /\ \E d \in MDivisors(Ext(W, nodes, Len(nodes) + 1, r)) :
            /\ d < Ext(W, nodes, Len(nodes) + 1, r)
            /\ nodes' = Append(nodes, [kind |-> "T", rv |-> r, tile |-> d])
  /\ UNCHANGED <<W, phase, held, xvars>>

MAddHolder ==
  /\ phase = "build"
  /\ \E m \in MComps, t \in DOMAIN W.proj :
       /\ W.level[m] > 0
       /\ t \in held[m] /\ t \notin Placed(m)
       /\ W.level[m] >= MaxPlacedLevel                \* global hierarchy order
       /\ \A m2 \in MComps : (W.level[m2] > 0 /\ W.level[m2] < W.level[m]) => held[m2] \subseteq Placed(m2)
       /\ nodes' = Append(nodes, [kind |-> "S", mem |-> m, t |-> t])
  /\ UNCHANGED <<W, phase, held, xvars>>

MClose ==
  /\ phase = "build"
  /\ \A r \in MRankVars : Ext(W, nodes, Len(nodes) + 1, r) = 1
  /\ \A m \in MComps : held[m] \subseteq Placed(m)
  /\ nodes' = Append(nodes, [kind |-> "C"])
  /\ phase' = "done"
  /\ UNCHANGED <<W, held, xvars>>

MNext == MAddLoop \/ MAddHolder \/ MClose

MSpec == MInit /\ [][MNext]_mvars

MEmit == phase = "done" => PrintT(ToJson([wid |-> W.id, nodes |-> nodes]))

\* every terminal state is a well-formed mapping that keeps what it must
MWellFormed ==
  phase = "done" =>
    /\ WellFormed(W, nodes)
    /\ \A m \in MComps : AsSet(W.keep[m]) \subseteq Placed(m)
    /\ \A m \in MComps : Placed(m) \subseteq (AsSet(W.keep[m]) \cup AsSet(W.maykeep[m])) \cup (IF W.level[m] = 0 THEN AsSet(W.tensors) ELSE {})
=============================================================================
