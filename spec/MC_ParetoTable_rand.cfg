CONSTANTS
  ExhFamilies <- NoFamilies
  RandFamilies <- RandAll
  N = 100000
INIT RandInit
NEXT RandNext
INVARIANT Emit
