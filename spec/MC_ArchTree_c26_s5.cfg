\* case generator (model checking): every tree shape with exactly 5 nodes over Memory(fanout 2), Compute(fanout 3), Fork, Hierarchical
CONSTANTS
  MaxN = 5
  MaxDepth = 4
  LeafKinds = {"Memory", "Compute"}
  BranchKinds = {"Fork", "Hierarchical"}
  Fanouts = {2}
  ComputeFanouts = {3}
  MinEmit = 5
  AppendComputes = TRUE
  CountOwn = FALSE
INIT Init
NEXT GenNext
INVARIANT Emit26
