CONSTANTS
  R = 3
  C = 3
  Vals = {0, 1, 2}
  N = 0
  GoalSeqs <- GoalsMMD_sorted
INIT ExhInit
NEXT ExhNext
INVARIANT Emit
