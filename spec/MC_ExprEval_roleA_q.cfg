CONSTANTS
  Parent <- Tree6
  Mode = "dep"
  NNames = 3
  WithSelf = TRUE
  PlaceIn = {1, 4}
  SelfPlaces = {}
  KeyOrders = "two"
  G2Scopes <- Chain23
  G2Rev = {FALSE}
  RN = 0
INIT RoleAInitAll
NEXT RoleANext
INVARIANT Confluent
INVARIANT StuckIffCycle
INVARIANT TerminalIsExpected
