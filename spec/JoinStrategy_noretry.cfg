CONSTANTS
  Keys = {1, 2}
  ObjVals = {0, 1, 3}
  ResVals = {0, 1, 2}
  Cap = 2
  MaxP = 2
  CheckOversub = FALSE
SPECIFICATION Spec
INVARIANT Correct
