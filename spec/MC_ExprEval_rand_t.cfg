CONSTANTS
  Parent <- Tree6
  Mode = "dep"
  NNames = 3
  WithSelf = TRUE
  PlaceIn = {1}
  SelfPlaces = {}
  KeyOrders = "two"
  G2Scopes <- Chain123
  G2Rev = {FALSE}
  RN = 4000
INIT RandInit
NEXT RandNext
INVARIANT RandEmit
