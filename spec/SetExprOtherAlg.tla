--------------------------- MODULE SetExprOtherAlg ---------------------------
(***************************************************************************)
(* Role A for C22: the way a dictionary keyed by set expressions is         *)
(* evaluated, as a transition system, checked against the definition        *)
(* (SetExpr!Overlap, SetExpr!Assign).                                       *)
(*                                                                          *)
(* The algorithm keeps a running remainder `other` (initially all tensors   *)
(* of the Einsum), evaluates the keys one at a time, subtracts each         *)
(* evaluated key from the remainder, gives the key Other the remainder,     *)
(* and finally rejects the dictionary if two evaluated keys intersect.      *)
(* OtherLast = TRUE : keys other than Other first, Other last;              *)
(* OtherLast = FALSE: plain dictionary order (a wrong design: TLC must      *)
(*                    find a counterexample, which shows that the           *)
(*                    invariant is able to fail).                           *)
(***************************************************************************)
EXTENDS SetExpr

CONSTANTS U,          \* the Einsum's tensors
          MaxKeys,    \* dictionaries with 0..MaxKeys keys besides Other
          OtherLast

VARIABLES ks,      \* values of the keys other than Other (sequence of subsets of U)
          opos,    \* 0: no Other key; j: Other is the j-th key of the dictionary
          todo,    \* keys still to evaluate: key indices, 0 stands for Other
          other,   \* the running remainder
          got,     \* got[j]: evaluated value of key j; got[Len(ks)+1]: value of Other
          status   \* "run", "ok", "error"
vars == <<ks, opos, todo, other, got, status>>

NK == Len(ks)

\* dictionary order: key indices with 0 (Other) inserted at position opos
DictOrder(n, op) ==
  IF op = 0 THEN [i \in 1..n |-> i]
  ELSE [i \in 1..(n + 1) |-> IF i < op THEN i ELSE IF i = op THEN 0 ELSE i - 1]

RECURSIVE WithoutOther(_)
WithoutOther(s) == IF s = <<>> THEN <<>>
                   ELSE IF Head(s) = 0 THEN WithoutOther(Tail(s)) ELSE <<Head(s)>> \o WithoutOther(Tail(s))

EvalOrder(n, op) ==
  IF OtherLast THEN WithoutOther(DictOrder(n, op)) \o (IF op > 0 THEN <<0>> ELSE <<>>)
  ELSE DictOrder(n, op)

Init == /\ \E n \in 0..MaxKeys : ks \in [1..n -> SUBSET U]
        /\ opos \in 0..(MaxKeys + 1)
        /\ opos <= Len(ks) + 1
        /\ todo = EvalOrder(Len(ks), opos)
        /\ other = U
        /\ got = [j \in 1..(Len(ks) + 1) |-> {}]
        /\ status = "run"

EvalKey == /\ status = "run" /\ todo # <<>> /\ Head(todo) # 0
           /\ got' = [got EXCEPT ![Head(todo)] = ks[Head(todo)]]
           /\ other' = other \ ks[Head(todo)]
           /\ todo' = Tail(todo)
           /\ UNCHANGED <<ks, opos, status>>

EvalOther == /\ status = "run" /\ todo # <<>> /\ Head(todo) = 0
             /\ got' = [got EXCEPT ![NK + 1] = other]
             /\ other' = {}
             /\ todo' = Tail(todo)
             /\ UNCHANGED <<ks, opos, status>>

Present == 1..NK \cup (IF opos > 0 THEN {NK + 1} ELSE {})

CheckDisjoint == /\ status = "run" /\ todo = <<>>
                 /\ status' = IF \E i, j \in Present : i < j /\ got[i] \cap got[j] # {} THEN "error" ELSE "ok"
                 /\ UNCHANGED <<ks, opos, todo, other, got>>

Next == EvalKey \/ EvalOther \/ CheckDisjoint

\* the terminal state agrees with the definition
Correct ==
  /\ status = "error" => Overlap(ks)
  /\ status = "ok" =>
       /\ ~Overlap(ks)
       /\ LET A == Assign(ks, opos > 0, U)
          IN \A j \in Present : got[j] = {t \in DOMAIN A : A[t] = j}
       /\ ExactlyOnce(ks, opos > 0, U)
=============================================================================
