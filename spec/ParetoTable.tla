---------------------------- MODULE ParetoTable ----------------------------
(***************************************************************************)
(* Property C12: pruning a pmapping TABLE.                                  *)
(*                                                                          *)
(* A table is a sequence of rows; a row is a sequence of integers, one per  *)
(* column.  Every column has a CLASS that follows from its name in          *)
(* accelforge's column-naming convention (df_convention.py):                *)
(*                                                                          *)
(*   "obj"    Total<SEP>...                      objective, minimised       *)
(*   "res"    reservation<SEP>name<SEP>n<SEP>left|right   resource          *)
(*            reservation, minimised                                        *)
(*   "diff"   fused_loop<SEP>...  (tile shape of a fused loop): rows are    *)
(*            only comparable when these are identical                      *)
(*   "niter"  fused_loop<SEP>n_iterations...     derived from the tile      *)
(*            shapes, not compared                                          *)
(*   "tensor" tensor<SEP>name                    not compared               *)
(*   "other"  anything else (per-Einsum detail, the mapping object, ...)    *)
(*                                                                          *)
(* The class of a name is fixed in the catalogue of MC_ParetoTable.tla; the *)
(* implementation has to derive the same class from the name alone.         *)
(*                                                                          *)
(* Dominance itself (Leq / Lt per goal) is Pareto.tla's.                    *)
(***************************************************************************)
EXTENDS Pareto

Classes == {"obj", "res", "diff", "niter", "tensor", "other"}

Compared(cls) == {c \in 1..Len(cls) : cls[c] \in {"obj", "res", "diff"}}

GoalOf(k) == IF k = "diff" THEN "diff" ELSE "min"

\* a strictly dominates b: identical fused-loop tile shapes, no worse on every
\* objective and reservation column, strictly better on one of them.
TDominates(cls, a, b) ==
  /\ \A c \in Compared(cls) : Leq(GoalOf(cls[c]), a[c], b[c])
  /\ \E c \in Compared(cls) : Lt(GoalOf(cls[c]), a[c], b[c])

SameCompared(cls, a, b) == \A c \in Compared(cls) : a[c] = b[c]

(* ZERO TOLERANCE.  "keep": no other row dominates it and it is the first    *)
(* row with these compared values -- it must be kept.  "drop": some row      *)
(* dominates it -- it must be dropped.  "dup": not dominated, but an earlier *)
(* row has the same compared values (it may differ elsewhere, e.g. in the    *)
(* mapping column).  The property's words ("no other row dominates it") keep *)
(* such a row, the implementation's de-duplication drops it; only what both  *)
(* readings agree on is decisive, so "dup" rows are free.                    *)
Expect(T, cls, i) ==
  IF \E j \in 1..Len(T) : TDominates(cls, T[j], T[i]) THEN "drop"
  ELSE IF \E j \in 1..(i - 1) : SameCompared(cls, T[j], T[i]) THEN "dup"
  ELSE "keep"

ExpectVec(T, cls) == [i \in 1..Len(T) |-> Expect(T, cls, i)]

-----------------------------------------------------------------------------
(* TOLERANCES.  tol = [on, od, rn, rd, an, ad]:                              *)
(*    objective tolerance            t = on/od                               *)
(*    relative reservation tolerance r = rn/rd                               *)
(*    absolute reservation tolerance a = an/ad                               *)
(* Every dropped row d must have a KEPT row k with the same fused-loop tile  *)
(* shapes,  k[obj] <= (1+t) d[obj]  on every objective, and on every         *)
(* reservation  k <= (1+r)(d + a)  -- which is  k <= (1+r) d  when only the  *)
(* relative tolerance is given,  k <= d + a  when only the absolute one is,  *)
(* and the composition of the two slacks when both are (the implementation   *)
(* picks, per value, whichever step is larger; the composition is the bound  *)
(* that holds for every such choice).  All comparisons are exact integer     *)
(* cross-multiplications.                                                    *)
ZeroTol(tol) == tol.on = 0 /\ tol.rn = 0 /\ tol.an = 0

ObjWithin(k, d, tol) == LeqScaled(k, d, tol.on, tol.od)

ResWithin(k, d, tol) ==
  k * tol.rd * tol.ad <= (tol.rd + tol.rn) * (d * tol.ad + tol.an)

\* the tighter reading max((1+r) d, d + a); reported, not decisive
ResWithinTight(k, d, tol) ==
  \/ LeqScaled(k, d, tol.rn, tol.rd)
  \/ k * tol.ad <= d * tol.ad + tol.an

CoverRow(cls, k, d, tol, tight) ==
  \A c \in Compared(cls) :
    CASE cls[c] = "diff" -> k[c] = d[c]
      [] cls[c] = "obj"  -> ObjWithin(k[c], d[c], tol)
      [] cls[c] = "res"  -> IF tight THEN ResWithinTight(k[c], d[c], tol)
                                     ELSE ResWithin(k[c], d[c], tol)

\* K = set of kept row numbers
CoversG(T, cls, K, tol, tight) ==
  \A d \in (1..Len(T)) \ K : \E k \in K : CoverRow(cls, T[k], T[d], tol, tight)

Covers(T, cls, K, tol) == CoversG(T, cls, K, tol, FALSE)

\* first uncovered row (0 if none): the witness printed for a violation
Uncovered(T, cls, K, tol) ==
  LET U == {d \in (1..Len(T)) \ K : ~ \E k \in K : CoverRow(cls, T[k], T[d], tol, FALSE)}
  IN IF U = {} THEN 0 ELSE CHOOSE d \in U : \A e \in U : d <= e

=============================================================================
