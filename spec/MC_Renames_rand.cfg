CONSTANTS
  NEin = 3
  KindSeq <- KT
  SrcT <- ST3
  SrcR <- SR3
  Cnts <- Cnts12
  N = 1000000
INIT RandInit
NEXT RandNext
INVARIANT RandEmit
