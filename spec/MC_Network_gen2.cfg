CONSTANTS
  Cases <- CasesGen
SPECIFICATION DetSpec
INVARIANT Emit
