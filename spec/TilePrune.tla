------------------------------ MODULE TilePrune ------------------------------
(***************************************************************************)
(* Role A for C08: the contract between goal-directed pruning of partial    *)
(* tile assignments (make_tile_shapes.get_tile_shape_choices) and the sign   *)
(* analysis (C09).                                                          *)
(* Two symbols x, y with candidate sets X, Y; an objective table f[x][y].    *)
(* The enumeration fixes x first; if the analysis says "f is non-decreasing  *)
(* in x" (goal min) every x except the smallest is pruned before y is        *)
(* enumerated.  Claim: the pruned enumeration contains an optimum of f       *)
(* whenever f really is non-decreasing in x (Monotone = TRUE); TLC finds a   *)
(* counterexample when the goal is applied to a table without that premise.  *)
(***************************************************************************)
EXTENDS Integers, FiniteSets

CONSTANTS X, Y, Vals, Monotone

VARIABLES f, phase, kept
vars == <<f, phase, kept>>

IsMono(g) == \A a, b \in X, y \in Y : a <= b => g[a][y] <= g[b][y]
Tables == {g \in [X -> [Y -> Vals]] : Monotone => IsMono(g)}

MinX == CHOOSE a \in X : \A b \in X : a <= b

Init == f \in Tables /\ phase = "x" /\ kept = {}
PruneX == /\ phase = "x"
          /\ kept' = {<<MinX, y>> : y \in Y}     \* goal "min x": only the smallest x survives
          /\ phase' = "done"
          /\ UNCHANGED f
Next == PruneX
Spec == Init /\ [][Next]_vars

Best(S) == CHOOSE v \in {f[p[1]][p[2]] : p \in S} : \A q \in S : v <= f[q[1]][q[2]]
NoOptimumLost == phase = "done" => Best(kept) = Best(X \X Y)
=============================================================================
