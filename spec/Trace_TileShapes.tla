--------------------------- MODULE Trace_TileShapes ---------------------------
(* Direction code -> spec for the imperfect candidate sets (C10).  The       *)
(* harness records what get_possible_factor_sizes(outer, imperfect=True,     *)
(* inner, 1) returned, one JSON object {"outer","inner","cands"} per call,   *)
(* in CASE_FILE; TLC evaluates TileShapes!ImperfectOK on every recorded set  *)
(* and prints its verdict.  ok = FALSE is a violation of the property.       *)
EXTENDS TileShapes, TLC, Json, IOUtils

VARIABLES i, out
vars == <<i, out>>

\* out = <<>> while pending, <<verdict>> afterwards
Recorded == JsonDeserialize(IOEnv.CASE_FILE)
SeqToSet(q) == {q[k] : k \in 1..Len(q)}

Verdict(r) ==
  LET C == SeqToSet(r.cands)
  IN [idx      |-> i,
      outer    |-> r.outer,
      inner    |-> r.inner,
      ok       |-> ImperfectOK(C, r.inner, r.outer),          \* decisive
      within   |-> WithinOuter(C, r.outer),
      missing  |-> MissingTiles(C, r.inner, r.outer),
      ok_int   |-> CoversIntFast(C, r.inner, r.outer),        \* reading: smallest integer shape
      ok_mult  |-> CoversMultFast(C, r.inner, r.outer),       \* reading: smallest multiple of inner
      ntiles   |-> Cardinality(AchievableTiles(r.inner, r.outer))]

Init == i \in 1..Len(Recorded) /\ out = <<>>
Judge == Len(out) = 0 /\ out' = <<Verdict(Recorded[i])>> /\ UNCHANGED i
Spec == Init /\ [][Judge]_vars

Emit == IF Len(out) = 0 THEN TRUE ELSE PrintT(ToJson(out[1]))

\* used by --replay on a single recorded case: TLC itself reports the rejection
Accepted == Len(out) = 1 => out[1].ok
=============================================================================
