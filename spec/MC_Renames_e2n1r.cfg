CONSTANTS
  NEin = 2
  KindSeq <- KR
  SrcT <- ST3
  SrcR <- SR3
  Cnts <- Cnts12
  N = 0
INIT ExhInit
NEXT ExhNext
INVARIANT Emit
