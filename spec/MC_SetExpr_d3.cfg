CONSTANTS
  MaxDepth = 3
  Alphabet <- AlphaSel
  Pairs <- PairsSel
  N = 0
  K = 0
  RDepth = 0
INIT ExhInit
NEXT ExhNext
INVARIANT ExhEmit
