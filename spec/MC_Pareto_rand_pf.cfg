CONSTANTS
  R = 8
  C = 3
  Vals = {1, 2, 3, 4, 5, 6, 7, 8, 9, 10, 11, 12}
  N = 3000
  GoalSeqs <- GoalsPF_all
INIT RandInit
NEXT RandNext
INVARIANT Emit
