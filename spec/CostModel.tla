----------------------------- MODULE CostModel -----------------------------
(* From value counts (LoopNest) to actions, energy and latency, as the       *)
(* accelforge documentation states it:                                       *)
(*  values per action of (component c, action a, tensor t)                   *)
(*     = a.values_per_action[t]               if given,                      *)
(*     else c.values_per_action[t]            if given,                      *)
(*     else bits_per_action(c,a) / bits_per_value(c,t)                       *)
(*  with bits_per_action(c,a) = a.bits_per_action, else c.bits_per_action,   *)
(*  else 1, and bits_per_value(c,t) = c.bits_per_value[t], else the          *)
(*  workload's.  actions = values / values_per_action.                       *)
(*  latency(c) = sum over actions of actions / throughput (an infinite       *)
(*  throughput contributes 0); total latency = max over components;          *)
(*  energy = sum actions * energy-per-action + leak power * total latency.   *)
(* In the world record absent optional fields are encoded as 0 (num) and     *)
(* an infinite throughput as <<1, 0>>.                                       *)
EXTENDS Rat, Sequences, FiniteSets

\* cost record of component c in world w:
\*   w.cost[c] = [avpa |-> [a -> [t -> <<n,d>>]], cvpa |-> [t -> <<n,d>>], abpa |-> [a -> Int],
\*                cbpa |-> Int, energy |-> [a -> Int], tput |-> [a -> <<n,d>>], leak |-> Int]
BPA(w, c, a) == IF w.cost[c].abpa[a] # 0 THEN w.cost[c].abpa[a]
                ELSE IF w.cost[c].cbpa # 0 THEN w.cost[c].cbpa ELSE 1

VPA(w, c, a, t) ==
  IF w.cost[c].avpa[a][t][1] # 0 THEN w.cost[c].avpa[a][t]
  ELSE IF w.cost[c].cvpa[t][1] # 0 THEN w.cost[c].cvpa[t]
  ELSE Norm(BPA(w, c, a), w.bits[c][t])

\* actions for `vals` values
Actions(w, c, a, t, vals) == RDiv(R(vals), VPA(w, c, a, t))

RECURSIVE RSumSet(_, _)
RSumSet(S, f) == IF S = {} THEN <<0, 1>>
                 ELSE LET x == CHOOSE y \in S : TRUE IN RAdd(f[x], RSumSet(S \ {x}, f))

RECURSIVE RMaxSet(_, _)
RMaxSet(S, f) == IF S = {} THEN <<0, 1>>
                 ELSE LET x == CHOOSE y \in S : TRUE IN RMax(f[x], RMaxSet(S \ {x}, f))

IsInf(tp) == tp[2] = 0
TimeFor(acts, tp) == IF IsInf(tp) THEN <<0, 1>> ELSE RDiv(acts, tp)

\* per-(component, tensor, action) action counts from LoopNest's value counters
ActionTable(w, rd, wr) ==
  [c \in DOMAIN w.level |-> [t \in DOMAIN w.proj |->
      [read  |-> Actions(w, c, "read", t, rd[c][t]),
       write |-> IF w.istoll[c] THEN <<0, 1>> ELSE Actions(w, c, "write", t, wr[c][t])]]]

CompActions(w, tab, c, a) == RSumSet(DOMAIN w.proj, [t \in DOMAIN w.proj |-> tab[c][t][a]])

CompLatency(w, tab, c) ==
  RAdd(TimeFor(CompActions(w, tab, c, "read"), w.cost[c].tput["read"]),
       TimeFor(CompActions(w, tab, c, "write"), w.cost[c].tput["write"]))

ComputeLatency(w, macs) == TimeFor(R(macs), w.mac.tput)

TotalLatency(w, tab, macs) ==
  RMax(ComputeLatency(w, macs),
       RMaxSet(DOMAIN w.level, [c \in DOMAIN w.level |-> CompLatency(w, tab, c)]))

DynEnergy(w, tab, macs) ==
  RAdd(RMul(R(macs), R(w.mac.energy)),
       RSumSet(DOMAIN w.level, [c \in DOMAIN w.level |->
          RAdd(RMul(CompActions(w, tab, c, "read"), R(w.cost[c].energy["read"])),
               RMul(CompActions(w, tab, c, "write"), R(w.cost[c].energy["write"])))]))

LeakPower(w) == w.mac.leak + (LET S == DOMAIN w.level
                                  RECURSIVE Go(_)
                                  Go(T) == IF T = {} THEN 0
                                           ELSE LET c == CHOOSE y \in T : TRUE IN w.cost[c].leak + Go(T \ {c})
                              IN Go(S))

TotalEnergy(w, tab, macs) ==
  RAdd(DynEnergy(w, tab, macs), RMul(R(LeakPower(w)), TotalLatency(w, tab, macs)))
=============================================================================
