------------------------------- MODULE Network -------------------------------
(***************************************************************************)
(* Moving data across one spatial fanout, by explicit routing (C30).        *)
(*                                                                          *)
(* A case c = [topo, mode, n, s, v]:                                        *)
(*   n  fanout size (number of destinations of the spatial loop,            *)
(*      `shape_repeats` in the code),                                       *)
(*   s  stride: number of array coordinates between two neighbouring        *)
(*      destinations (`last_fanout`, the fanout of the loops below),        *)
(*   v  data volume per destination, in unit-size values,                   *)
(*   mode "multicast": the loop is irrelevant to the tensor, the SAME v     *)
(*         values go to every destination;                                  *)
(*        "unicast": the loop is relevant, every destination gets its own   *)
(*         v DISTINCT values;                                               *)
(*   topo "mesh": one dimension of a mesh = a line of n*s nodes 0..n*s-1,   *)
(*         link l joins node l-1 and node l; destination d sits at node     *)
(*         d*s;                                                             *)
(*        "switch": n nodes, node d has one link (link d) to a central      *)
(*         switch.                                                          *)
(* The source is NOT distributed: all data starts at node 0, which is also  *)
(* destination 0 (it needs no transfer to itself).                          *)
(*                                                                          *)
(* A packet [val, pos, dsts] carries value `val`, is at `pos`, and is still *)
(* responsible for the destinations in `dsts`.  Nothing here is a closed    *)
(* form: the counters are whatever routing every packet produces.           *)
(*   Replicate (p, d): at a node that is itself destination d (or inside     *)
(*                the switch) a copy for d is split off; a shared value is  *)
(*                never duplicated anywhere else, so it crosses a link at   *)
(*                most once.                                                *)
(*   Deliver (p): a single-destination packet standing at its destination   *)
(*                is consumed.                                              *)
(*   Inject (p):  switch only: node 0 sends the packet over its own link    *)
(*                into the switch.                                          *)
(*   Hop (p):     mesh: the packet moves one link along the line (its only  *)
(*                shortest route); switch: the packet traverses the switch  *)
(*                to its destination's link.  One hop = one link of the     *)
(*                line / one switch traversal.                              *)
(* Observed: hops (total number of Hop steps) and link[l] (how many values  *)
(* crossed link l).                                                         *)
(***************************************************************************)
EXTENDS Integers, FiniteSets, TLC

CONSTANTS Cases,             \* set of case records [topo, mode, n, s, v]
          ReplicateAnywhere  \* FALSE = the routing discipline of the property.  TRUE = a copy may be
                             \* split off at ANY node (used once, to show that the invariants below
                             \* are not vacuous: TLC must then find a link crossed twice by a shared value)

VARIABLES c,        \* the case (never changes)
          st        \* [pk: set of packets, link: link id -> count, hops, got]

vars == <<c, st>>

SW == -1            \* position "inside the switch"

Dests(k) == 0..(k.n - 1)
Vals(k)  == 1..k.v

\* where destination d lives
NodeOf(k, d) == IF k.topo = "mesh" THEN d * k.s ELSE d

Links(k) == IF k.topo = "mesh" THEN 1..(k.n * k.s - 1) ELSE 0..(k.n - 1)

InitPackets(k) ==
  IF k.mode = "multicast"
  THEN {[val |-> x, pos |-> 0, dsts |-> Dests(k)] : x \in Vals(k)}
  ELSE {[val |-> x, pos |-> 0, dsts |-> {d}] : x \in Vals(k), d \in Dests(k)}

InitState(k) == [pk   |-> InitPackets(k),
                 link |-> [l \in Links(k) |-> 0],
                 hops |-> 0,
                 got  |-> {}]

-----------------------------------------------------------------------------
(* Enabling conditions and effects as operators on a state value, so that    *)
(* the actions below and the deterministic schedule DetRun use the very same *)
(* definitions.                                                              *)

Here(k, p) == {d \in p.dsts : NodeOf(k, d) = p.pos}   \* destinations located where p stands

CanReplicate(k, p, d) ==
  /\ d \in p.dsts
  /\ Cardinality(p.dsts) > 1
  /\ \/ d \in Here(k, p)
     \/ k.topo = "switch" /\ p.pos = SW
     \/ ReplicateAnywhere

DoReplicate(s0, p, d) ==
  [s0 EXCEPT !.pk = (@ \ {p}) \cup {[p EXCEPT !.dsts = {d}], [p EXCEPT !.dsts = @ \ {d}]}]

CanDeliver(k, p) == Cardinality(p.dsts) = 1 /\ Here(k, p) = p.dsts

DoDeliver(s0, p) ==
  [s0 EXCEPT !.pk = @ \ {p},
             !.got = @ \cup {<<d, p.val>> : d \in p.dsts}]

CanInject(k, p) == k.topo = "switch" /\ p.pos = 0 /\ Here(k, p) = {}

DoInject(s0, p) ==
  [s0 EXCEPT !.pk = (@ \ {p}) \cup {[p EXCEPT !.pos = SW]},
             !.link[0] = @ + 1]

CanHop(k, p) ==
  IF k.topo = "mesh"
  THEN /\ Here(k, p) = {}        \* nothing to drop here ...
       /\ \E d \in p.dsts : NodeOf(k, d) > p.pos   \* ... and somebody further down the line still waits
  ELSE p.pos = SW /\ Cardinality(p.dsts) = 1

HopTarget(k, p) ==
  IF k.topo = "mesh" THEN p.pos + 1 ELSE NodeOf(k, CHOOSE d \in p.dsts : TRUE)

\* the link crossed by the hop: on the line, link l joins nodes l-1 and l
HopLink(k, p) == HopTarget(k, p)

DoHop(k, s0, p) ==
  [s0 EXCEPT !.pk = (@ \ {p}) \cup {[p EXCEPT !.pos = HopTarget(k, p)]},
             !.link[HopLink(k, p)] = @ + 1,
             !.hops = @ + 1]

-----------------------------------------------------------------------------
Init == c \in Cases /\ st = InitState(c)

ReplicateAt(p, d) == CanReplicate(c, p, d) /\ st' = DoReplicate(st, p, d) /\ UNCHANGED c
DeliverOf(p)      == CanDeliver(c, p)      /\ st' = DoDeliver(st, p)      /\ UNCHANGED c
InjectOf(p)       == CanInject(c, p)       /\ st' = DoInject(st, p)       /\ UNCHANGED c
HopOf(p)          == CanHop(c, p)          /\ st' = DoHop(c, st, p)       /\ UNCHANGED c

\* top-level actions (one coverage line each): any packet may move next
Replicate == \E p \in st.pk : \E d \in p.dsts : ReplicateAt(p, d)
Deliver   == \E p \in st.pk : DeliverOf(p)
Inject    == \E p \in st.pk : InjectOf(p)
Hop       == \E p \in st.pk : HopOf(p)

Next == Replicate \/ Deliver \/ Inject \/ Hop

Spec == Init /\ [][Next]_vars

-----------------------------------------------------------------------------
(* One fixed schedule: always serve the packet TLC's CHOOSE picks, replicate *)
(* the lowest destination first.                                             *)
DetStep(k, s0) ==
  LET p == CHOOSE q \in s0.pk : TRUE
      R == {d \in p.dsts : CanReplicate(k, p, d)}
  IN  IF R # {} THEN DoReplicate(s0, p, CHOOSE d \in R : \A e \in R : d <= e)
      ELSE IF CanDeliver(k, p) THEN DoDeliver(s0, p)
      ELSE IF CanInject(k, p)  THEN DoInject(s0, p)
      ELSE IF CanHop(k, p)     THEN DoHop(k, s0, p)
      ELSE s0   \* stuck packet: never happens (invariant NoStuckPacket)

DetNext == st.pk # {} /\ st' = DetStep(c, st) /\ st' # st /\ UNCHANGED c

DetSpec == Init /\ [][DetNext]_vars

RECURSIVE DetRun(_, _)
DetRun(k, s0) == IF s0.pk = {} \/ DetStep(k, s0) = s0 THEN s0 ELSE DetRun(k, DetStep(k, s0))

DetFinal(k) == DetRun(k, InitState(k))

-----------------------------------------------------------------------------
Done == st.pk = {}

RECURSIVE SumRange(_, _, _)
SumRange(f, lo, hi) == IF lo > hi THEN 0 ELSE f[lo] + SumRange(f, lo + 1, hi)

MaxOver(f, D) == IF D = {} THEN 0 ELSE CHOOSE m \in {f[x] : x \in D} : \A y \in D : f[y] <= m

TotalHops(s0)    == s0.hops
MaxTraffic(k, s0) == MaxOver(s0.link, Links(k))

\* ---- invariants of the routing system (role A)
TypeOK ==
  /\ c \in Cases
  /\ \A p \in st.pk : /\ p.val \in Vals(c)
                      /\ p.dsts # {} /\ p.dsts \subseteq Dests(c)
                      /\ p.pos \in (IF c.topo = "mesh" THEN 0..(c.n * c.s - 1) ELSE {SW} \cup Dests(c))
  /\ DOMAIN st.link = Links(c)
  /\ st.hops \in Nat

\* every packet can always make progress
NoStuckPacket ==
  \A p \in st.pk : \/ \E d \in p.dsts : CanReplicate(c, p, d)
                   \/ CanDeliver(c, p) \/ CanInject(c, p) \/ CanHop(c, p)

\* a hop is a link of the line / a traversal of the switch towards a destination link
HopsAreLinkCrossings ==
  st.hops = IF c.topo = "mesh" THEN SumRange(st.link, 1, c.n * c.s - 1)
                                ELSE SumRange(st.link, 1, c.n - 1)   \* link 0 is the source's uplink

\* nobody receives a value twice, nobody is served by two packets
NoDuplicateService ==
  \A p, q \in st.pk : (p # q /\ p.val = q.val /\ c.mode = "multicast") => p.dsts \cap q.dsts = {}

\* multicast: a shared value crosses each link at most once, so link[l] <= v
SharedValueOncePerLink == c.mode = "multicast" => \A l \in Links(c) : st.link[l] <= c.v

\* everything is delivered, exactly what was asked
AllDelivered == Done => st.got = {<<d, x>> : d \in Dests(c), x \in Vals(c)}

\* THE role-A statement: whatever the interleaving of packets, the terminal
\* counters (the whole per-link vector and the hop count) are those of the
\* fixed schedule: routing order is irrelevant.
Confluent == Done => /\ st.link = DetFinal(c).link
                     /\ st.hops = DetFinal(c).hops
=============================================================================
