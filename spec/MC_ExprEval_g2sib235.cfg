CONSTANTS
  Parent <- Tree6
  Mode = "dep"
  NNames = 3
  WithSelf = TRUE
  PlaceIn = {1}
  SelfPlaces = {}
  KeyOrders = "two"
  G2Scopes <- Sib235
  G2Rev = {FALSE}
  RN = 0
INIT G2Init
NEXT ExhNext
INVARIANT Emit
