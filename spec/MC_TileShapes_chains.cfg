\* expected chain counts for every n <= nmax and every imperfection pattern of length <= lmax
CONSTANTS
  Jobs <- JobsChains
SPECIFICATION Spec
INVARIANT Emit
