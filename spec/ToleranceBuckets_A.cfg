CONSTANTS
  Vals = {4, 5, 6, 7, 9}
  On = 1
  Od = 2
  Wide = FALSE
INIT AInit
NEXT ANext
INVARIANT KeepsNearOptimum
INVARIANT NeverBelow
CHECK_DEADLOCK FALSE
