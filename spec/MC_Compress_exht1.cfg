CONSTANTS
  ESet <- OneTwo
  Shapes1 <- Shapes33
  Shapes2 <- Shapes32
  Shapes3 <- Shapes22
  RSet1 <- OneToThree
  RSet2 <- One
  RSet3 <- One
  KeyMode = "before"
  WalkMode = "reverse"
  NCases = 1000000
INIT ExhInit
NEXT ExhNext
INVARIANT Emit
INVARIANT LocateLemma
