-------------------------------- MODULE Rat --------------------------------
(* Exact rationals as <<num, den>> with den > 0, in lowest terms.  TLC has   *)
(* 32-bit integers and no reals; every quantity of the cost model that can  *)
(* be fractional (values per action, latency, usage) is carried like this,   *)
(* and the harness compares implementation floats exactly against num/den.  *)
EXTENDS Integers

RECURSIVE GCD(_, _)
GCD(a, b) == IF b = 0 THEN a ELSE GCD(b, a % b)
Abs(x) == IF x < 0 THEN -x ELSE x

Norm(n, d) == LET g == GCD(Abs(n), Abs(d))
                  s == IF d < 0 THEN -1 ELSE 1
              IN IF n = 0 THEN <<0, 1>> ELSE <<s * (n \div g), s * (d \div g)>>

R(n) == <<n, 1>>
RAdd(a, b) == Norm(a[1] * b[2] + b[1] * a[2], a[2] * b[2])
RMul(a, b) == LET g1 == GCD(Abs(a[1]), b[2])   \* cross-cancel first to keep numbers small
                  g2 == GCD(Abs(b[1]), a[2])
              IN IF a[1] = 0 \/ b[1] = 0 THEN <<0, 1>>
                 ELSE Norm((a[1] \div g1) * (b[1] \div g2), (a[2] \div g2) * (b[2] \div g1))
RInv(a) == Norm(a[2], a[1])
RDiv(a, b) == RMul(a, RInv(b))
RLeq(a, b) == a[1] * b[2] <= b[1] * a[2]
RLt(a, b) == a[1] * b[2] < b[1] * a[2]
RMax(a, b) == IF RLeq(a, b) THEN b ELSE a
RMin(a, b) == IF RLeq(a, b) THEN a ELSE b
REq(a, b) == a[1] * b[2] = b[1] * a[2]
=============================================================================
