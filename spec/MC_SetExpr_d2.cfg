CONSTANTS
  MaxDepth = 2
  Alphabet <- AlphaAll
  Pairs <- PairsAll
  N = 0
  K = 0
  RDepth = 0
INIT ExhInit
NEXT ExhNext
INVARIANT ExhEmit
