------------------------------ MODULE ExprEval ------------------------------
(***************************************************************************)
(* Property C21: expressions of a spec are evaluated in dependency order    *)
(* with lexical scoping; a dependency cycle is an error.                    *)
(*                                                                          *)
(* A CASE D is a sequence of scopes; D[s] is the sequence, IN KEY ORDER, of *)
(* the definitions written in scope s:                                      *)
(*      [n |-> name, e |-> expression, ...]                                 *)
(* An expression is an AST                                                  *)
(*      [k |-> "lit", v |-> Int]   |   [k |-> "name", n |-> STRING]         *)
(*      [k |-> "+" | "-" | "*", l |-> AST, r |-> AST]                       *)
(* Scopes form a tree: Parent[s] < s is the enclosing scope, 0 = none.      *)
(* In the binding to accelforge: 1 = Spec.variables, 2 = arch.variables,    *)
(* 3/5 = extra attributes of component A/B, 4/6 = declared attributes of    *)
(* component A/B (see checks/c21.py).                                       *)
(*                                                                          *)
(* The module gives                                                         *)
(*   - the DEFINITION of the result (Resolve = innermost enclosing scope    *)
(*     that defines the name; HasCycle; Val = value of the expression over  *)
(*     the values of the resolved names), used as the oracle, and           *)
(*   - the evaluation ALGORITHM as a transition system (action EvalField),  *)
(*     for which TLC proves confluence and "stuck iff cycle" (role A).      *)
(***************************************************************************)
EXTENDS Integers, Sequences, FiniteSets, TLC

CONSTANTS Parent,   \* sequence: Parent[s] = enclosing scope of s (0 for the outermost)
          Mode      \* role A: "dep" (the design) | "keyorder" (negative lemma)

-----------------------------------------------------------------------------
(* Structure of a case                                                      *)
Scopes(D) == 1..Len(D)
Names(D, s) == {D[s][i].n : i \in 1..Len(D[s])}
Idx(D, s, n) == CHOOSE i \in 1..Len(D[s]) : D[s][i].n = n
Expr(D, s, n) == D[s][Idx(D, s, n)].e
AllDefs(D) == UNION {{<<s, n>> : n \in Names(D, s)} : s \in Scopes(D)}
UniqueKeys(D) == \A s \in Scopes(D) : \A i, j \in 1..Len(D[s]) : D[s][i].n = D[s][j].n => i = j

\* the scope in which a name used in scope s is found: the innermost enclosing
\* scope (s itself included) that defines it; 0 = undefined
RECURSIVE Resolve(_, _, _)
Resolve(D, s, n) == IF s = 0 THEN 0
                    ELSE IF n \in Names(D, s) THEN s
                    ELSE Resolve(D, Parent[s], n)

RECURSIVE Refs(_)
Refs(e) == CASE e.k = "lit"  -> {}
             [] e.k = "name" -> {e.n}
             [] OTHER        -> Refs(e.l) \cup Refs(e.r)

\* the definitions that definition d = <<s, n>> depends on
Deps(D, d) == {<<Resolve(D, d[1], m), m>> : m \in Refs(Expr(D, d[1], d[2]))}

\* every name used is visible from where it is used
WellScoped(D) == \A d \in AllDefs(D) : \A p \in Deps(D, d) : p[1] # 0

\* x: "x + 1" written in a scope whose enclosing scopes also define x.  The property's
\* words admit two readings (x shadows itself = cycle / x is the outer x); such cases are
\* outside the decisive part and are never generated.
\* Names that the expression language itself predefines (math constants) behave as one more
\* outermost scope for this purpose.
Predefined == {"e", "pi", "tau", "inf", "nan"}
SelfRefOverOuter(D) ==
  \E d \in AllDefs(D) : /\ d[2] \in Refs(Expr(D, d[1], d[2]))
                        /\ (Resolve(D, Parent[d[1]], d[2]) # 0 \/ d[2] \in Predefined)

InQuantifier(D) == UniqueKeys(D) /\ WellScoped(D) /\ ~ SelfRefOverOuter(D)

-----------------------------------------------------------------------------
(* THE DEFINITION                                                           *)
\* definitions reachable from d by one or more dependency edges
RECURSIVE ReachFrom(_, _, _)
ReachFrom(D, frontier, seen) ==
  LET nxt == UNION {Deps(D, x) : x \in frontier} \ seen
  IN IF nxt = {} THEN seen ELSE ReachFrom(D, nxt, seen \cup nxt)
ReachPlus(D, d) == ReachFrom(D, {d}, {})

OnCycle(D, d) == d \in ReachPlus(D, d)
HasCycle(D) == \E d \in AllDefs(D) : OnCycle(D, d)

\* value of an expression written in scope s (only meaningful without cycles)
RECURSIVE EvalE(_, _, _)
EvalE(D, s, e) ==
  CASE e.k = "lit"  -> e.v
    [] e.k = "name" -> LET r == Resolve(D, s, e.n) IN EvalE(D, r, Expr(D, r, e.n))
    [] e.k = "+"    -> EvalE(D, s, e.l) + EvalE(D, s, e.r)
    [] e.k = "-"    -> EvalE(D, s, e.l) - EvalE(D, s, e.r)
    [] e.k = "*"    -> EvalE(D, s, e.l) * EvalE(D, s, e.r)
Val(D, d) == EvalE(D, d[1], Expr(D, d[1], d[2]))

\* TLC integers are 32 bit: a capped magnitude bound, itself computed without overflow
\* (Cap * Cap < 2^31).  Generators only emit cases with every magnitude below Cap.
Cap == 40000
Min2(a, b) == IF a < b THEN a ELSE b
Abs(a) == IF a < 0 THEN -a ELSE a
RECURSIVE MagE(_, _, _)
MagE(D, s, e) ==
  CASE e.k = "lit"  -> Min2(Cap, Abs(e.v))
    [] e.k = "name" -> LET r == Resolve(D, s, e.n) IN MagE(D, r, Expr(D, r, e.n))
    [] e.k = "*"    -> Min2(Cap, MagE(D, s, e.l) * MagE(D, s, e.r))
    [] OTHER        -> Min2(Cap, MagE(D, s, e.l) + MagE(D, s, e.r))
Small(D) == \A d \in AllDefs(D) : MagE(D, d[1], Expr(D, d[1], d[2])) < Cap

\* what the property expects of a case: "error", or the value of every definition in
\* key order, scope by scope
Expected(D) ==
  IF HasCycle(D) THEN [result |-> "error", val |-> <<>>]
  ELSE [result |-> "ok",
        val |-> [s \in Scopes(D) |-> [i \in 1..Len(D[s]) |-> Val(D, <<s, D[s][i].n>>)]]]

-----------------------------------------------------------------------------
(* Rendering of expressions as Python/YAML source text (fully parenthesised) *)
RECURSIVE Render(_)
Render(e) ==
  CASE e.k = "lit"  -> ToString(e.v)
    [] e.k = "name" -> e.n
    [] OTHER        -> "(" \o Render(e.l) \o " " \o e.k \o " " \o Render(e.r) \o ")"
\* top-level parentheses dropped, as a person would write it
RenderTop(e) ==
  IF e.k \in {"lit", "name"} THEN Render(e)
  ELSE Render(e.l) \o " " \o e.k \o " " \o Render(e.r)

-----------------------------------------------------------------------------
(* THE ALGORITHM (role A): fields are evaluated one at a time; a field may   *)
(* be evaluated once everything it depends on has a value; its value is the  *)
(* value of its expression over the values ALREADY COMPUTED.                 *)
VARIABLES defs,   \* the case (never changes)
          val,    \* function: evaluated definitions -> value
          pos     \* keyorder mode: per scope, how many keys have been evaluated

vars == <<defs, val, pos>>

Evaluated == DOMAIN val
Pending == AllDefs(defs) \ Evaluated

\* value of e in scope s over the current valuation ("symbol table").
\* dep mode: every name used is resolved (innermost definer) and has a value.
\* keyorder mode (what a symbol-table implementation does when it ignores
\* dependencies): the innermost scope that has ALREADY evaluated the name wins.
RECURSIVE Lookup(_, _)
Lookup(s, n) == IF s = 0 THEN 0
                ELSE IF <<s, n>> \in Evaluated THEN val[<<s, n>>]
                ELSE Lookup(Parent[s], n)
RECURSIVE EvalNow(_, _)
EvalNow(s, e) ==
  CASE e.k = "lit"  -> e.v
    [] e.k = "name" -> IF Mode = "dep" THEN val[<<Resolve(defs, s, e.n), e.n>>] ELSE Lookup(s, e.n)
    [] e.k = "+"    -> EvalNow(s, e.l) + EvalNow(s, e.r)
    [] e.k = "-"    -> EvalNow(s, e.l) - EvalNow(s, e.r)
    [] e.k = "*"    -> EvalNow(s, e.l) * EvalNow(s, e.r)

Ready(d) == IF Mode = "dep"
            THEN Deps(defs, d) \subseteq Evaluated
            ELSE /\ pos[d[1]] < Len(defs[d[1]])
                 /\ defs[d[1]][pos[d[1]] + 1].n = d[2]              \* next key of its scope
                 /\ \A s \in Scopes(defs) : s < d[1] => pos[s] = Len(defs[s])  \* outer scopes first

InitWith(D) == /\ defs = D
               /\ val = [d \in {} |-> 0]
               /\ pos = [s \in Scopes(D) |-> 0]

EvalField(d) == /\ d \in Pending
                /\ Ready(d)
                /\ val' = [x \in Evaluated \cup {d} |->
                             IF x = d THEN EvalNow(d[1], Expr(defs, d[1], d[2])) ELSE val[x]]
                /\ pos' = [pos EXCEPT ![d[1]] = @ + 1]
                /\ UNCHANGED defs

Next == \E d \in AllDefs(defs) : EvalField(d)

Terminal == \A d \in Pending : ~ Ready(d)

\* Confluence: whatever order was taken, an evaluated field holds the definition's value
\* (so all maximal behaviours of an acyclic case end in the same valuation, Expected).
Confluent == \A d \in Evaluated : ~ OnCycle(defs, d) /\ val[d] = Val(defs, d)

\* The same restricted to cases without a cycle (used for the negative lemma: evaluating in
\* key order against a symbol table, without regard to dependencies, violates it)
ConfluentAcyclic == ~ HasCycle(defs) => \A d \in Evaluated : val[d] = Val(defs, d)

\* A maximal behaviour leaves fields pending (with nothing enabled) exactly when the case
\* has a dependency cycle: that is the state in which an error must be reported.
StuckIffCycle == Terminal => ((Pending # {}) <=> HasCycle(defs))

\* and without a cycle the terminal valuation is exactly Expected
TerminalIsExpected ==
  (Terminal /\ ~ HasCycle(defs)) =>
     \A s \in Scopes(defs) : \A i \in 1..Len(defs[s]) :
        val[<<s, defs[s][i].n>>] = Expected(defs).val[s][i]
=============================================================================
