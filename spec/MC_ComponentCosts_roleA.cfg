CONSTANTS
  Mode = "once"
  MaxCalls = 3
  RN = 0
  Small = FALSE
INIT RoleAInit
NEXT RoleANext
INVARIANT Stable
