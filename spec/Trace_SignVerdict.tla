------------------------- MODULE Trace_SignVerdict -------------------------
(* Binding C for C09: the harness recorded calls of the real geq_leq_zero / *)
(* diff_geq_leq_zero (formula converted structurally to the AST, box,       *)
(* flag, verdict).  TLC evaluates SignVerdict!VerdictOK for every case.     *)
(* One record per case in CASE_FILE:                                        *)
(*   id, kind ("g" | "d"), e (the formula whose sign was judged: for "d"    *)
(*   the derivative formula the code computed), b (box), v (verdict:        *)
(*   "geq" | "leq" | "eq" | "unknown"), flag (terms_do_not_cross_zero),     *)
(*   f (for "d": the differentiated formula, or [h |-> "none"]), s (for     *)
(*   "d": index of the symbol)                                              *)
EXTENDS SignVerdict, TLC, Json, IOUtils

Cases == JsonDeserialize(IOEnv.CASE_FILE)

VARIABLE i

CodeView1 == [heav |-> "one", ceil |-> "id"]
CodeView0 == [heav |-> "zero", ceil |-> "id"]
CeilId    == [heav |-> "real", ceil |-> "id"]

MonoOK(c) ==
  IF c.kind # "d" \/ c.f.h = "none" \/ c.v = "unknown" \/ Cardinality(Box(c.b)) > 100 THEN "n/a"
  ELSE LET m == Mono(c.f, c.b, c.s) IN
       IF ~m.defined THEN "undefined"
       ELSE IF (c.v = "geq" /\ m.up) \/ (c.v = "leq" /\ m.down) \/ (c.v = "eq" /\ m.up /\ m.down)
            THEN "yes" ELSE "no"

Verdict(c) ==
  LET sg == Signs(c.e, c.b, Real)
      ok == Admissible(sg, c.v)
      pre == IF c.flag THEN PreOK(c.e, c.b) ELSE TRUE
  IN [id |-> c.id,
      defined |-> sg.defined,
      pre |-> pre,
      ok |-> ok,
      \* classification of a failure: does the verdict hold for what the implementation
      \* evaluates instead (ceilings dropped, all Heaviside terms set to 1 / to 0)?
      code_view |-> IF ok THEN TRUE
                    ELSE Admissible(Signs(c.e, c.b, CodeView1), c.v) /\ Admissible(Signs(c.e, c.b, CodeView0), c.v),
      ceil_id   |-> IF ok THEN TRUE ELSE Admissible(Signs(c.e, c.b, CeilId), c.v),
      nheav |-> IF ok THEN 0 ELSE IF HasHead(c.e, "heav") THEN 1 ELSE 0,
      nceil |-> IF ok THEN 0 ELSE IF HasHead(c.e, "ceil") THEN 1 ELSE 0,
      mono |-> MonoOK(c)]

Init == i \in 1..Len(Cases)
Next == UNCHANGED i
Emit == PrintT(ToJson(Verdict(Cases[i])))
=============================================================================
