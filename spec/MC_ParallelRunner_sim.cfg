CONSTANTS
  NSet <- BigN
  WSet <- BigW
  Modes <- AllModes
  InOrder = TRUE
  Placement = "by_tag"
INIT SimInit
NEXT SimNext
INVARIANT EmitSim
INVARIANT Correct
