---- MODULE ToleranceBuckets_TTrace_1790079282 ----
EXTENDS Sequences, TLCExt, ToleranceBuckets, Toolbox, Naturals, TLC

_expression ==
    LET ToleranceBuckets_TEExpression == INSTANCE ToleranceBuckets_TEExpression
    IN ToleranceBuckets_TEExpression!expression
----

_trace ==
    LET ToleranceBuckets_TETrace == INSTANCE ToleranceBuckets_TETrace
    IN ToleranceBuckets_TETrace!trace
----

_inv ==
    ~(
        TLCGet("level") = Len(_TETrace)
        /\
        vals = ({4, 7})
        /\
        cls = ((4 :> 1 @@ 5 :> 1 @@ 6 :> 1 @@ 7 :> 1 @@ 9 :> 1))
        /\
        kept = ({7})
        /\
        tid = (0)
    )
----

_init ==
    /\ cls = _TETrace[1].cls
    /\ kept = _TETrace[1].kept
    /\ tid = _TETrace[1].tid
    /\ vals = _TETrace[1].vals
----

_next ==
    /\ \E i,j \in DOMAIN _TETrace:
        /\ \/ /\ j = i + 1
              /\ i = TLCGet("level")
        /\ cls  = _TETrace[i].cls
        /\ cls' = _TETrace[j].cls
        /\ kept  = _TETrace[i].kept
        /\ kept' = _TETrace[j].kept
        /\ tid  = _TETrace[i].tid
        /\ tid' = _TETrace[j].tid
        /\ vals  = _TETrace[i].vals
        /\ vals' = _TETrace[j].vals

\* Uncomment the ASSUME below to write the states of the error trace
\* to the given file in Json format. Note that you can pass any tuple
\* to `JsonSerialize`. For example, a sub-sequence of _TETrace.
    \* ASSUME
    \*     LET J == INSTANCE Json
    \*         IN J!JsonSerialize("ToleranceBuckets_TTrace_1790079282.json", _TETrace)

=============================================================================

 Note that you can extract this module `ToleranceBuckets_TEExpression`
  to a dedicated file to reuse `expression` (the module in the 
  dedicated `ToleranceBuckets_TEExpression.tla` file takes precedence 
  over the module `ToleranceBuckets_TEExpression` below).

---- MODULE ToleranceBuckets_TEExpression ----
EXTENDS Sequences, TLCExt, ToleranceBuckets, Toolbox, Naturals, TLC

expression == 
    [
        \* To hide variables of the `ToleranceBuckets` spec from the error trace,
        \* remove the variables below.  The trace will be written in the order
        \* of the fields of this record.
        cls |-> cls
        ,kept |-> kept
        ,tid |-> tid
        ,vals |-> vals
        
        \* Put additional constant-, state-, and action-level expressions here:
        \* ,_stateNumber |-> _TEPosition
        \* ,_clsUnchanged |-> cls = cls'
        
        \* Format the `cls` variable as Json value.
        \* ,_clsJson |->
        \*     LET J == INSTANCE Json
        \*     IN J!ToJson(cls)
        
        \* Lastly, you may build expressions over arbitrary sets of states by
        \* leveraging the _TETrace operator.  For example, this is how to
        \* count the number of times a spec variable changed up to the current
        \* state in the trace.
        \* ,_clsModCount |->
        \*     LET F[s \in DOMAIN _TETrace] ==
        \*         IF s = 1 THEN 0
        \*         ELSE IF _TETrace[s].cls # _TETrace[s-1].cls
        \*             THEN 1 + F[s-1] ELSE F[s-1]
        \*     IN F[_TEPosition - 1]
    ]

=============================================================================



Parsing and semantic processing can take forever if the trace below is long.
 In this case, it is advised to uncomment the module below to deserialize the
 trace from a generated binary file.

\*
\*---- MODULE ToleranceBuckets_TETrace ----
\*EXTENDS IOUtils, ToleranceBuckets, TLC
\*
\*trace == IODeserialize("ToleranceBuckets_TTrace_1790079282.bin", TRUE)
\*
\*=============================================================================
\*

---- MODULE ToleranceBuckets_TETrace ----
EXTENDS ToleranceBuckets, TLC

trace == 
    <<
    ([vals |-> {4, 7},cls |-> (4 :> 1 @@ 5 :> 1 @@ 6 :> 1 @@ 7 :> 1 @@ 9 :> 1),kept |-> {},tid |-> 0]),
    ([vals |-> {4, 7},cls |-> (4 :> 1 @@ 5 :> 1 @@ 6 :> 1 @@ 7 :> 1 @@ 9 :> 1),kept |-> {7},tid |-> 0])
    >>
----


=============================================================================

---- CONFIG ToleranceBuckets_TTrace_1790079282 ----
CONSTANTS
    Vals = { 4 , 5 , 6 , 7 , 9 }
    On = 1
    Od = 2
    Wide = TRUE

INVARIANT
    _inv

CHECK_DEADLOCK
    \* CHECK_DEADLOCK off because of PROPERTY or INVARIANT above.
    FALSE

INIT
    _init

NEXT
    _next

CONSTANT
    _TETrace <- _trace

ALIAS
    _expression
=============================================================================
\* Generated on Tue Sep 22 12:14:55 UTC 2026