SPECIFICATION Spec
INVARIANT Emit
