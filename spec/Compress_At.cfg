CONSTANTS
  ESet <- OneToThree
  Shapes1 <- Shapes33
  Shapes2 <- Shapes22
  Shapes3 <- Shapes21
  RSet1 <- OneToThree
  RSet2 <- OneTwo
  RSet3 <- One
  KeyMode = "before"
  WalkMode = "reverse"
SPECIFICATION Spec
INVARIANT Lossless
INVARIANT NoError
INVARIANT CompressInv
