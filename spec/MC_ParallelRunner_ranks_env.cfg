CONSTANTS
  NSet <- BigN
  WSet <- EnvW
  Modes <- AllModes
  InOrder = TRUE
  Placement = "by_tag"
  NCases = 1000000
INIT RankInit
NEXT RankNext
INVARIANT EmitRank
