\* every 3-row table over {2,3,4} for schema 4 (objective, reservation, fused loop) x 4 tolerances
CONSTANTS
  R = 3
  Vals = {2, 3, 4}
  DVals = {1, 2}
  SchemaIds = {4}
  TolIds = {5, 6, 7, 11}
  ConstIds = {5}
  N = 0
INIT ExhInit
NEXT ExhNext
INVARIANT Emit
