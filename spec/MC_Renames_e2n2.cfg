CONSTANTS
  NEin = 2
  KindSeqs <- K2
  SrcT <- ST2
  SrcR <- SR2
  Cnts <- CntsNone
  N = 0
INIT ExhInit
NEXT ExhNext
INVARIANT Emit
