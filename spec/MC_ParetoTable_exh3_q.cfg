\* quick: every 3-row table over 3 values for three 3-column schemas, zero tolerance
CONSTANTS
  R = 3
  Vals = {1, 2, 3}
  DVals = {1, 2}
  SchemaIds = {4, 5, 7}
  TolIds = {1}
  ConstIds = {3}
  N = 0
INIT ExhInit
NEXT ExhNext
INVARIANT Emit
