------------------------------- MODULE Fronts -------------------------------
(***************************************************************************)
(* Trace validation of recorded mapper results against recorded/enumerated  *)
(* candidate sets (binding C for C01, C02, C16-C19).  A case is a record     *)
(*   [id, kind, cands, ret, ...]                                            *)
(* where cands and ret are sequences of objective vectors.  Vectors are      *)
(* integer sequences; the harness rank-transforms each column (dense ranks   *)
(* over cands \cup ret: a strictly monotone map, so <, = and > and hence     *)
(* dominance are preserved) unless the case kind needs magnitudes, in which  *)
(* case it scales rationals to a common denominator.                        *)
(* One state per case; the verdict of every case is printed (total           *)
(* verdicts: every clause is reported, with a witness index).                *)
(***************************************************************************)
EXTENDS Pareto, TLC, Json, IOUtils

Cases == JsonDeserialize(IOEnv.CASES_FILE)

VARIABLE i
Init == i = 1
Next == i < Len(Cases) /\ i' = i + 1
Spec == Init /\ [][Next]_i

AllMin(k) == [c \in 1..k |-> "min"]
Dim(c) == IF Len(c.ret) > 0 THEN Len(c.ret[1]) ELSE IF Len(c.cands) > 0 THEN Len(c.cands[1]) ELSE 0

Idx(s) == 1..Len(s)
FirstOr0(S) == IF S = {} THEN 0 ELSE CHOOSE x \in S : \A y \in S : x <= y

\* C01/C02 clause 1: every candidate is weakly dominated by some returned vector
Uncovered(c) == {k \in Idx(c.cands) : ~ \E r \in Idx(c.ret) : WeaklyDominates(AllMin(Dim(c)), c.ret[r], c.cands[k])}
\* C02 clause 2: no returned vector strictly dominated by another returned vector
DominatedRet(c) == {r \in Idx(c.ret) : \E q \in Idx(c.ret) : Dominates(AllMin(Dim(c)), c.ret[q], c.ret[r])}
\* C02 clause 3: no two returned vectors identical
DupRet(c) == {r \in Idx(c.ret) : \E q \in 1..(r-1) : c.ret[q] = c.ret[r]}
\* soundness direction: a returned vector that no candidate matches is not a violation of C01/C02
\* (the mapper may know mappings the constructive mapspace does not), it is only reported
Unmatched(c) == {r \in Idx(c.ret) : ~ \E k \in Idx(c.cands) : c.cands[k] = c.ret[r]}
\* returned vectors that are on the returned set's own front but equal no candidate
UnmatchedND(c) == {r \in Unmatched(c) : r \notin DominatedRet(c)}
\* returned vector strictly better than every candidate in some coordinate and not dominated:
BetterThanAll(c) == {r \in Idx(c.ret) : \A k \in Idx(c.cands) : ~ WeaklyDominates(AllMin(Dim(c)), c.cands[k], c.ret[r])}

\* scalar relations between two recorded optima (C16-C19): a, b are <<num, den>> pairs
RLeq2(a, b) == a[1] * b[2] <= b[1] * a[2]
REq2(a, b) == a[1] * b[2] = b[1] * a[2]

Verdict(c) ==
  [id |-> c.id, kind |-> c.kind,
   ncands |-> Len(c.cands), nret |-> Len(c.ret),
   uncovered |-> FirstOr0(Uncovered(c)),
   dominated |-> FirstOr0(DominatedRet(c)),
   duplicate |-> FirstOr0(DupRet(c)),
   unmatched |-> Cardinality(Unmatched(c)),
   unmatched_nd |-> FirstOr0(UnmatchedND(c)),
   better |-> Cardinality(BetterThanAll(c))]

Emit == i <= Len(Cases) => PrintT(ToJson(Verdict(Cases[i])))
=============================================================================
