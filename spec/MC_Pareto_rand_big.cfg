CONSTANTS
  R = 300
  C = 6
  Vals = {0, 1, 2, 3, 4, 5, 6, 7}
  N = 20
  GoalSeqs <- GoalsMMD_all
INIT RandInit
NEXT RandNext
INVARIANT Emit
