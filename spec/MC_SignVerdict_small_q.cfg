\* quick: exhaustive small one-symbol grammar x box 1..8
CONSTANTS
  NS = 1
  His = {8}
  Los = {1}
  N = 0
  Small = TRUE
INIT Init
NEXT Next
INVARIANT Emit
