\* role A: iterator as coded, cost loop counts the own fanout: still wrong (TLC must find a counterexample)
CONSTANTS
  MaxN = 4
  MaxDepth = 4
  LeafKinds = {"Memory", "Container", "Compute"}
  BranchKinds = {"Fork", "Hierarchical"}
  Fanouts = {1, 2}
  ComputeFanouts = {1, 3}
  MinEmit = 1
  AppendComputes = TRUE
  CountOwn = TRUE
SPECIFICATION Spec
INVARIANT CostsCorrect
