-------------------------- MODULE MC_ParetoTable --------------------------
(* Case generators for C12.  Every state is one pmapping table (rows of     *)
(* integers), a schema (column names from accelforge's naming convention,   *)
(* each with the class the convention gives it), one tolerance triple from  *)
(* TolGrid and one set of constant columns to add.  For zero tolerance the  *)
(* record carries ParetoTable!ExpectVec (binding B).  For every tolerance   *)
(* the harness records which rows the implementation kept and              *)
(* Trace_ParetoTable.tla evaluates ParetoTable!Covers on it (binding C).    *)
EXTENDS ParetoTable, TLC, Json, IOUtils

CONSTANTS ExhFamilies,  \* set of families enumerated exhaustively (see Fam below)
          RandFamilies, \* sequence of families sampled by the random generator
          N             \* number of random cases

VARIABLES T, sid, ti, ci, n
vars == <<T, sid, ti, ci, n>>

Col(nm, k) == [name |-> nm, cls |-> k]

E   == Col("Total<SEP>energy", "obj")
L   == Col("Total<SEP>latency", "obj")
EDP == Col("Total<SEP>energy_delay_product", "obj")
G0  == Col("reservation<SEP>GlobalBuffer<SEP>0<SEP>left", "res")
G1  == Col("reservation<SEP>GlobalBuffer<SEP>1<SEP>right", "res")
MM  == Col("reservation<SEP>MainMemory<SEP>-1<SEP>right", "res")
LB  == Col("reservation<SEP>LocalBuffer<SEP>2<SEP>left", "res")
F1  == Col("fused_loop<SEP>Matmul0<SEP>stride<SEP>n1<SEP>0", "diff")
F2  == Col("fused_loop<SEP>Matmul1<SEP>initial<SEP>m<SEP>1", "diff")
F3  == Col("fused_loop<SEP>tile_shape0", "diff")
N0  == Col("fused_loop<SEP>n_iterations<SEP>0", "niter")
N1  == Col("fused_loop<SEP>n_iterations<SEP>1", "niter")
T1  == Col("tensor<SEP>T1", "tensor")
MAP == Col("Matmul0<SEP>mapping", "other")          \* the harness stores objects here
CI  == Col("Matmul0<SEP>compressed_index", "other")
DE  == Col("Matmul0<SEP>energy<SEP>MainMemory<SEP>T0<SEP>read", "other")
DL  == Col("Matmul1<SEP>latency<SEP>MAC", "other")
DU  == Col("Matmul0<SEP>usage<SEP>memory<SEP>GlobalBuffer<SEP>T0", "other")
XT  == Col("Matmul0<SEP>Total<SEP>energy", "other")   \* "Total" is not the first part
XR  == Col("Matmul0<SEP>reservation<SEP>GlobalBuffer<SEP>0<SEP>left", "other")
XN  == Col("Matmul0<SEP>n_iterations<SEP>1", "other")
XS  == Col("Matmul1<SEP>stride2", "other")
XB  == Col("binding<SEP>Matmul0<SEP>x", "other")

Schemas == <<
  <<E, L>>,                                          \* 1
  <<E, G0>>,                                         \* 2
  <<G0, G1>>,                                        \* 3
  <<E, G0, F1>>,                                     \* 4
  <<F1, L, N0>>,                                     \* 5
  <<MAP, E, L>>,                                     \* 6
  <<E, T1, XT>>,                                     \* 7
  <<G1, F2, XR>>,                                    \* 8
  <<MAP, E, L, G0, G1, F1, F2, N0, T1, CI, DE>>,     \* 9
  <<F3, N1, MM, T1, EDP, XN, LB, E, XS, DL>>,        \* 10
  <<E, L, EDP, G0, G1, MM>>,                         \* 11
  <<XB, DU, F1, G0, E, XT>>,                         \* 12
  <<E, L, G0, F1>>                                   \* 13
>>

Tol(on, od, rn, rd, an, ad, rs) ==
  [on |-> on, od |-> od, rn |-> rn, rd |-> rd, an |-> an, ad |-> ad, rs |-> rs]

\* rs: the harness divides reservation values and the absolute tolerance by rs (a
\* power of two), so that reservations are fractions of a capacity as in real tables;
\* every inequality of ParetoTable is invariant under that common scaling.
TolGrid == <<
  Tol(0, 1,   0, 1,   0, 1,  1),     \* 1  zero tolerance
  Tol(1, 2,   0, 1,   0, 1,  1),     \* 2  objectives only
  Tol(0, 1,   1, 2,   0, 1,  16),    \* 3  relative reservation slack only
  Tol(0, 1,   0, 1,   2, 1,  1),     \* 4  absolute reservation slack only
  Tol(1, 4,   1, 2,   1, 1,  1),     \* 5  all three
  Tol(1, 1,   1, 8,   0, 1,  16),    \* 6
  Tol(1, 8,   1, 4,   3, 1,  16),    \* 7
  Tol(3, 1,   0, 1,   1, 2,  1),     \* 8  class boundaries on powers of two
  Tol(1, 10,  1, 100, 0, 1,  16),    \* 9  decimal tolerances
  Tol(1, 100, 1, 10,  1, 4,  16),    \* 10
  Tol(0, 1,   0, 1,   0, 1,  16),    \* 11 zero tolerance, fractional reservations
  Tol(1, 16,  1, 16,  1, 1,  1)      \* 12
>>

CC(nm, k, v) == [name |-> nm, cls |-> k, v |-> v]
ConstSets == <<
  [front |-> FALSE, cols |-> <<>>],
  [front |-> FALSE, cols |-> <<CC("Total<SEP>leak_energy", "obj", 0)>>],
  [front |-> TRUE,  cols |-> <<CC("reservation<SEP>Scratch<SEP>0<SEP>right", "res", 1),
                               CC("fused_loop<SEP>Matmul2<SEP>stride<SEP>k<SEP>0", "diff", 4),
                               CC("fused_loop<SEP>n_iterations<SEP>5", "niter", 2)>>],
  [front |-> TRUE,  cols |-> <<CC("Matmul2<SEP>mapping", "other", 7),
                               CC("tensor<SEP>T9", "tensor", 3),
                               CC("Total<SEP>dynamic_energy", "obj", 5)>>],
  [front |-> FALSE, cols |-> <<CC("fused_loop<SEP>Matmul2<SEP>initial<SEP>k<SEP>1", "diff", 1),
                               CC("reservation<SEP>Scratch<SEP>1<SEP>left", "res", 0)>>]
>>

Names(S) == [c \in 1..Len(S) |-> S[c].name]
Cls(S)   == [c \in 1..Len(S) |-> S[c].cls]

Rec ==
  LET S == Schemas[sid] tol == TolGrid[ti] IN
  [T |-> T, names |-> Names(S), cls |-> Cls(S), sid |-> sid, ti |-> ti, tol |-> tol,
   expect |-> IF ZeroTol(tol) THEN ExpectVec(T, Cls(S)) ELSE <<>>,
   const |-> ConstSets[ci]]

Emit == PrintT(ToJson(Rec))

---------------------------------------------------------------------------
(* A family: tables with r rows (exhaustive: exactly r; random: 2..r) for   *)
(* the schemas sids, objective/reservation/other values from vals,          *)
(* fused-loop and n_iterations values from dvals, tolerances tols (indices  *)
(* into TolGrid) and constant-column sets cis (indices into ConstSets).     *)
Fam(r, sids, vals, dvals, tols, cis) ==
  [r |-> r, sids |-> sids, vals |-> vals, dvals |-> dvals, tols |-> tols, cis |-> cis]

AllTols == 1..12
AllConst == 1..5

\* The value alphabets are chosen so that rounding classes actually merge values whose
\* ratio is inside and outside the stated bound: for base 3/2 the classes are {3,4} {5,6}
\* {7,8,9}; for base 2 {3,4,5} {6..11}; for base 5/4 {7,8} ...; 9/7 > 5/4, 5/3 > 3/2.
\* quick tier, exhaustive
ExhQuick == {
  Fam(2, {1, 2, 3}, {3, 4, 5, 7, 9}, {}, {2, 3, 4, 5, 6, 8}, {2}),  \* 2 rows, 2 columns, 6 tolerances
  Fam(3, {4}, {1, 2, 3}, {1, 2}, {1}, {3}),                    \* objective, reservation, fused loop; zero tolerance
  Fam(3, {5}, {1, 2, 3}, {1, 2}, {1, 11}, {1}),                \* fused loop, objective, n_iterations
  Fam(3, {4}, {5, 6}, {1, 2}, {3, 5, 6, 7}, {5}),              \* 4 tolerances
  Fam(2, {1}, {5, 8, 12, 13, 19}, {}, {2, 6}, {2}),            \* ratios just above 1+t (13/8, 12/5, 19/12, 19/8): never one class
  Fam(2, {2, 3}, {6, 7, 9, 10}, {}, {4}, {2}) }                \* reservations more than the absolute slack apart (9-6, 10-7, 10-6 > 2)
\* thorough tier, exhaustive
ExhThorough == {
  Fam(2, {1, 2, 3}, {3, 4, 5, 6, 7, 9}, {}, {2, 3, 4, 5, 6, 7, 8, 12}, {2}),
  Fam(3, {1, 2, 3}, {4, 5, 6}, {}, {2, 3, 5}, {4}),
  Fam(3, {4, 8}, {1, 2, 3}, {1, 2}, {1}, {3}),
  Fam(3, {5}, {1, 2, 3}, {1, 2}, {1, 11}, {1}),
  Fam(3, {4}, {4, 5, 6}, {1, 2}, {3, 6}, {5}),
  Fam(4, {4}, {5, 6}, {1, 2}, {1, 5}, {1}),
  Fam(2, {1, 2}, {5, 8, 12, 13, 19}, {}, {2, 6}, {2}),
  Fam(2, {2, 3}, {6, 7, 9, 10, 13}, {}, {4, 5}, {2}) }

RandAll == <<
  \* up to 12 rows, every schema, every tolerance; small values (wide ratios)
  Fam(12, 1..13, {1, 2, 3, 4, 5, 6, 7, 8, 9, 12, 16}, {1, 2, 4}, AllTols, AllConst),
  Fam(8, {1, 2, 3, 4, 5, 8, 13}, {3, 4, 5, 6, 7, 9}, {1, 2}, AllTols, AllConst),
  Fam(8, {1, 2, 3, 4, 5, 8, 13}, {3, 4, 5, 6, 7, 9}, {1, 2}, AllTols, AllConst),
  \* up to 40 rows, values within a few percent of each other (small tolerances bite)
  Fam(40, {4, 9, 10, 11, 12, 13}, {96, 100, 101, 102, 104, 108, 110, 112, 120, 128}, {1, 2},
      {1, 2, 5, 6, 7, 9, 10, 12}, AllConst),
  Fam(40, {4, 9, 10, 11, 12, 13}, {96, 100, 101, 102, 104, 108, 110, 112, 120, 128}, {1, 2},
      {1, 2, 5, 6, 7, 9, 10, 12}, AllConst) >>
\* up to 160 rows, wide schemas, zero among the values
RandBig == <<
  Fam(160, {9, 10, 11, 12}, {0, 1, 2, 3, 4, 5, 6, 7, 8, 10, 12, 16, 24, 32}, {1, 2, 4}, AllTols, AllConst) >>
NoFamilies == {}
NoRand == <<>>

ValsOf(f, k) == IF k \in {"diff", "niter"} /\ f.dvals # {} THEN f.dvals ELSE f.vals

(* Exhaustive: every table of every family.                                 *)
RowsOf(f, S) == {row \in [1..Len(S) -> f.vals \cup f.dvals] :
                   \A c \in 1..Len(S) : row[c] \in ValsOf(f, S[c].cls)}
ExhInit == /\ \E f \in ExhFamilies :
                /\ sid \in f.sids
                /\ T \in [1..f.r -> RowsOf(f, Schemas[sid])]
                /\ ti \in f.tols
                /\ ci \in f.cis
           /\ n = 0
ExhNext == UNCHANGED vars

---------------------------------------------------------------------------
(* Random (-simulate): N tables.  Rows are frequently copies of an earlier  *)
(* row with one or two cells changed, so that dominated neighbours,         *)
(* duplicates on the compared columns and near-ties in ratio are common.    *)
RandRow(f, S) == [c \in 1..Len(S) |-> RandomElement(ValsOf(f, S[c].cls))]

RECURSIVE RandRows(_, _, _)
RandRows(f, S, k) ==
  IF k = 0 THEN <<>>
  ELSE LET prev == RandRows(f, S, k - 1)
           mode == RandomElement(0..3)
       IN IF mode <= 1 /\ prev # <<>>
          THEN LET src == prev[RandomElement(1..Len(prev))]
                   c1  == RandomElement(1..Len(S))
                   c2  == RandomElement(1..Len(S))
                   r1  == [src EXCEPT ![c1] = RandomElement(ValsOf(f, S[c1].cls))]
               IN Append(prev, IF mode = 0 THEN r1
                               ELSE [r1 EXCEPT ![c2] = RandomElement(ValsOf(f, S[c2].cls))])
          ELSE Append(prev, RandRow(f, S))

RandCase(f, s) == [sid |-> s, T |-> RandRows(f, Schemas[s], RandomElement(2..f.r)),
                   ti |-> RandomElement(f.tols), ci |-> RandomElement(f.cis)]
RandDraw == LET f == RandFamilies[RandomElement(1..Len(RandFamilies))]
            IN RandCase(f, RandomElement(f.sids))

RandInit == /\ n = 0
            /\ \E c \in {RandDraw} : sid = c.sid /\ T = c.T /\ ti = c.ti /\ ci = c.ci
RandNext == /\ n < N
            /\ n' = n + 1
            /\ \E c \in {RandDraw} : sid' = c.sid /\ T' = c.T /\ ti' = c.ti /\ ci' = c.ci
=============================================================================
