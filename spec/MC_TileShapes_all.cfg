\* one run: lemmas (fast predicates = brute-force definitions; ChainSet = independent statements),
\* expected perfect candidate sets for every outer in 1..max_outer (+ extra_outers) and every inner dividing it,
\* expected chain counts for every n <= nmax and every imperfection pattern of length <= lmax
CONSTANTS
  Jobs <- JobsAll
SPECIFICATION Spec
INVARIANT Emit
INVARIANT LemmaHolds
