CONSTANTS
  NEin = 3
  KindSeq <- KR
  SrcT <- ST2
  SrcR <- SR2
  Cnts <- CntsNone
  N = 0
INIT ExhInit
NEXT ExhNext
INVARIANT Emit
