CONSTANTS
  R = 40
  C = 8
  Vals = {0, 1, 2, 3, 4, 5, 6, 7}
  N = 300
  GoalSeqs <- GoalsMinMax
INIT RandInit
NEXT RandNext
INVARIANT Emit
