\* role A (thorough): all interleavings; n<=4, stride<=2, volume<=2; both topologies, both modes
CONSTANTS
  Cases <- CasesSmall
  ReplicateAnywhere = FALSE
SPECIFICATION Spec
INVARIANT TypeOK
INVARIANT NoStuckPacket
INVARIANT HopsAreLinkCrossings
INVARIANT NoDuplicateService
INVARIANT SharedValueOncePerLink
INVARIANT AllDelivered
INVARIANT Confluent
