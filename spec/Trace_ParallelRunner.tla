------------------------- MODULE Trace_ParallelRunner -------------------------
(* Binding C for C32: executions of the real parallel() recorded by the       *)
(* harness are accepted or rejected by the ParallelRunner actions.            *)
(*                                                                            *)
(* TRACE_FILE is a JSON array of traces.  One trace:                          *)
(*   { "n": jobs, "mode": call variant,                                       *)
(*     "events": [["s", j] | ["e", j] ...]   job j started / finished, in the *)
(*               order of the lock-protected sequence counter the jobs write, *)
(*     "ret": what parallel() returned (list; dict as [[keyid, value], ...] in *)
(*            the order of the returned dict) }                               *)
(* A logged "s" is Dispatch, "e" is Complete, the return is ReturnList /       *)
(* ReturnDict / Exhausted with ret' = the logged value.  Collect / Yield* are  *)
(* internal to parallel() and not logged: they are taken eagerly between       *)
(* logged events.  The number of workers is not part of the property, so the   *)
(* pool is modelled with one worker per job (any concurrency is admitted).     *)
(* For generator_unordered the order in which the parent saw the results may   *)
(* differ from the job-side counter order, so only RetOK (bag) is required.    *)
(* A trace is ACCEPTED when all its events are consumed; TLC prints its id.    *)
EXTENDS ParallelRunner, TLC, Json, IOUtils

VARIABLES t, l

Traces == TLCEval(JsonDeserialize(IOEnv.TRACE_FILE))

tvars == <<n, nw, mode, pending, running, arrived, collected, store, execs, phase, ret, t, l>>

TraceInit ==
  /\ t \in 1 .. Len(Traces)
  /\ l = 1
  /\ n = Traces[t].n
  /\ nw = IF Traces[t].n = 0 THEN 1 ELSE Traces[t].n
  /\ mode = Traces[t].mode
  /\ pending = 0 .. (n - 1)
  /\ running = [w \in 1 .. nw |-> Idle]
  /\ arrived = <<>>
  /\ collected = 0
  /\ store = EmptyFn
  /\ execs = [i \in 0 .. (n - 1) |-> 0]
  /\ phase = "run"
  /\ ret = <<>>

Events == Traces[t].events

Hidden == Collect \/ YieldUnordered \/ YieldOrdered

FirstIdle == CHOOSE w \in IdleWorkers : \A v \in IdleWorkers : w <= v

Logged ==
  /\ l <= Len(Events) + 1
  /\ l' = l + 1
  /\ IF l <= Len(Events)
     THEN LET e == Events[l] IN
          \/ /\ e[1] = "s"
             /\ IdleWorkers # {}
             /\ Dispatch(FirstIdle, e[2])
          \/ /\ e[1] = "e"
             /\ \E w \in Workers : running[w] = e[2] /\ Complete(w)
     ELSE \/ ReturnList /\ ret' = Traces[t].ret
          \/ ReturnDict /\ ret' = Traces[t].ret
          \/ Exhausted /\ RetOK(mode, Traces[t].ret)
             /\ (mode = "generator" => ret = Traces[t].ret)

TraceNext ==
  \/ ENABLED Hidden /\ Hidden /\ UNCHANGED <<t, l>>
  \/ ~ ENABLED Hidden /\ Logged /\ UNCHANGED t

TraceSpec == TraceInit /\ [][TraceNext]_tvars

Accepted == (phase = "returned" /\ l = Len(Events) + 2) => PrintT(ToJson([accepted |-> t]))

\* how far each rejected trace got (diagnostics only)
Progress == PrintT(ToJson([trace |-> t, l |-> l, phase |-> phase]))
=============================================================================
