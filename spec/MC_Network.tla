----------------------------- MODULE MC_Network -----------------------------
(* Case sets and the record printed for the harness (C30).                   *)
(*  - CasesQuick / CasesSmall / CasesMid: every interleaving of the packets  *)
(*    is explored (role A, Network!Spec).                                    *)
(*  - CasesGen: the property's quantifier -- every fanout <= 32, stride <= 8,*)
(*    both topologies, both modes, volumes as listed in PARAM_FILE -- each   *)
(*    routed hop by hop with the fixed schedule Network!DetSpec; the         *)
(*    terminal state prints the counters the implementation must report.     *)
EXTENDS Network, Sequences, Json, IOUtils

Topos == {"mesh", "switch"}
Modes == {"multicast", "unicast"}

CasesSmall == [topo : Topos, mode : Modes, n : 1..4, s : 1..2, v : 1..2]
CasesQuick == [topo : Topos, mode : Modes, n : 1..4, s : 1..2, v : {1}]
              \cup [topo : Topos, mode : Modes, n : 1..3, s : 1..2, v : {2}]
CasesMid   == [topo : Topos, mode : Modes, n : {5}, s : {1, 3}, v : {1}]
CasesTiny  == [topo : {"mesh"}, mode : {"multicast"}, n : {3}, s : {1, 2}, v : {1}]

\* PARAM_FILE: {"sets": [ {"nmax": 32, "smax": 8, "volumes": [1]}, ... ]}
Params  == JsonDeserialize(IOEnv.PARAM_FILE)
SeqToSet(q) == {q[i] : i \in 1..Len(q)}
CasesGen == UNION {[topo : Topos, mode : Modes, n : 1..P.nmax, s : 1..P.smax, v : SeqToSet(P.volumes)]
                   : P \in SeqToSet(Params.sets)}

Rec == [topo |-> c.topo, mode |-> c.mode, n |-> c.n, s |-> c.s, v |-> c.v,
        total_hops  |-> TotalHops(st),
        max_traffic |-> MaxTraffic(c, st),
        delivered   |-> Cardinality(st.got)]

Emit == IF Done THEN PrintT(ToJson(Rec)) ELSE TRUE

\* cheap form for the generator: only terminal states are checked
HopsAreLinkCrossingsAtEnd == Done => HopsAreLinkCrossings
=============================================================================
