CONSTANTS
  Vars <- MCVars
  NV = 4
  MaxB = 6
  MaxCoef = 3
  MaxC = 2
  MaxRanks = 3
  MaxEins = 3
  N = 1500
  LemK = 1
  LemHi = 1
INIT RandInit
NEXT RandNext
INVARIANT Emit
INVARIANT Consistent
