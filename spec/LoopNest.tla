------------------------------ MODULE LoopNest ------------------------------
(***************************************************************************)
(* Operational semantics of a single-Einsum LoopTree (accelforge mapping): *)
(* the loop nest is EXECUTED, one node entry/exit per step.                *)
(*                                                                         *)
(*  - Entering a holder (Storage) of tensor t allocates its tile and fills  *)
(*    it from the nearest holder of t above (parent read, own write); so a *)
(*    holder refetches its tile whenever an enclosing loop advances.       *)
(*  - Leaving a holder of the output tensor writes the tile back to the    *)
(*    parent (own read, parent write).                                     *)
(*  - Compute reads every operand from, and read-modify-writes the output  *)
(*    in, the innermost holder of that tensor.                             *)
(*  - A value of the output that no compute has produced yet is "never     *)
(*    written": moving it is not charged to a component whose              *)
(*    skip_initial_output_write flag is set (fill write: the child's flag; *)
(*    serving read: both flags).                                           *)
(*  - A Toll holds nothing and only forwards (see Toll* operators).        *)
(*                                                                         *)
(* A mapping is a top-down sequence of nodes                               *)
(*    [kind |-> "S", mem, t]   holder of tensor t in component mem          *)
(*    [kind |-> "T", rv, tile] temporal loop over rank variable rv          *)
(*    [kind |-> "C"]           the compute (last node)                      *)
(* The world W (workload + architecture parameters) is a record, see       *)
(* harness/microspec.py.                                                   *)
(***************************************************************************)
EXTENDS Integers, Sequences, FiniteSets, TLC

-----------------------------------------------------------------------------
(* Pure geometry of a node sequence `nodes` under loop counters `idx`       *)

\* "T" = temporal loop, "P" = spatial loop (executed like a temporal loop: same tiles, same points;
\* the access counts of spatial loops - multicast, per-instance actions - are NOT modelled yet)
IsLoop(n) == n.kind \in {"T", "P"}
IsHolder(n) == n.kind = "S"

\* indices of loops over rank variable r strictly above position p
LoopsAbove(nodes, p, r) == {j \in 1..(p-1) : IsLoop(nodes[j]) /\ nodes[j].rv = r}

Max(S) == CHOOSE x \in S : \A y \in S : y <= x
Min(S) == CHOOSE x \in S : \A y \in S : x <= y

\* extent of rank variable r at position p
Ext(W, nodes, p, r) ==
  LET L == LoopsAbove(nodes, p, r)
  IN IF L = {} THEN W.bound[r] ELSE nodes[Max(L)].tile

\* first index of rank variable r at position p
Lo(nodes, idx, p, r) ==
  LET L == LoopsAbove(nodes, p, r)
      RECURSIVE S(_)
      S(LL) == IF LL = {} THEN 0
               ELSE LET j == CHOOSE y \in LL : TRUE
                    IN idx[j] * nodes[j].tile + S(LL \ {j})
  IN S(L)

Range(W, nodes, idx, p, r) ==
  Lo(nodes, idx, p, r) .. (Lo(nodes, idx, p, r) + Ext(W, nodes, p, r) - 1)

\* elements of tensor t (sequences of coordinates) in the tile at position p
RECURSIVE ElemsOf(_, _, _, _, _)
ElemsOf(W, nodes, idx, p, ranks) ==
  IF ranks = <<>> THEN {<<>>}
  ELSE {<<c>> \o rest : c \in Range(W, nodes, idx, p, Head(ranks)),
                         rest \in ElemsOf(W, nodes, idx, p, Tail(ranks))}

Tile(W, nodes, idx, p, t) == ElemsOf(W, nodes, idx, p, W.proj[t])

\* number of iterations of the loop at position j
Iters(W, nodes, j) == Ext(W, nodes, j, nodes[j].rv) \div nodes[j].tile

\* nearest holder of tensor t strictly above position p (0 if none)
ParentHolder(nodes, p, t) ==
  LET H == {j \in 1..(p-1) : IsHolder(nodes[j]) /\ nodes[j].t = t}
  IN IF H = {} THEN 0 ELSE Max(H)

\* innermost holder of t (the one the compute talks to)
InnermostHolder(nodes, t) == ParentHolder(nodes, Len(nodes), t)

IsOutput(W, t) == t = W.out

-----------------------------------------------------------------------------
(* Well-formedness of a complete mapping (what the property quantifies over) *)
WellFormed(W, nodes) ==
  /\ Len(nodes) >= 1 /\ nodes[Len(nodes)].kind = "C"
  /\ \A j \in 1..(Len(nodes)-1) : nodes[j].kind \in {"S", "T", "P"}
  \* every tensor has a holder; the compute sees every rank variable at tile 1
  /\ \A t \in DOMAIN W.proj : InnermostHolder(nodes, t) # 0
  /\ \A r \in DOMAIN W.bound : Ext(W, nodes, Len(nodes), r) = 1
  \* perfect factorisation
  /\ \A j \in 1..(Len(nodes)-1) : IsLoop(nodes[j]) =>
        /\ nodes[j].tile >= 1
        /\ Ext(W, nodes, j, nodes[j].rv) % nodes[j].tile = 0
  \* a tensor is held at most once per component, in hierarchy order
  /\ \A i, j \in 1..(Len(nodes)-1) :
        (i < j /\ IsHolder(nodes[i]) /\ IsHolder(nodes[j]) /\ nodes[i].t = nodes[j].t)
          => W.level[nodes[i].mem] < W.level[nodes[j].mem]


-----------------------------------------------------------------------------
(* Holders, tolls, sources                                                  *)
IsToll(W, n) == IsHolder(n) /\ W.istoll[n.mem]
IsMemHolder(W, n) == IsHolder(n) /\ ~W.istoll[n.mem]

\* nearest NON-toll holder of t strictly above p (0 if none): where fills come from
Source(W, nodes, p, t) ==
  LET H == {j \in 1..(p-1) : IsMemHolder(W, nodes[j]) /\ nodes[j].t = t}
  IN IF H = {} THEN 0 ELSE Max(H)

\* toll nodes of t strictly between positions a and b
TollsBetween(W, nodes, a, b, t) ==
  {j \in (a+1)..(b-1) : IsToll(W, nodes[j]) /\ nodes[j].t = t}

\* does a toll node charge traffic flowing down / up ?
ChargesDown(W, n) == W.dir[n.mem][n.t] # "up"
ChargesUp(W, n)   == W.dir[n.mem][n.t] # "down"

-----------------------------------------------------------------------------
(* Static tile sizes of holders (property C06, single Einsum).               *)
(*  TileAt: the LoopTree notation's tile of a holder = the tile at the        *)
(*    holder's own position (guide/spec/mapping.rst).                         *)
(*  Footprint: the same under the model's streaming assumption ("data         *)
(*    arrives exactly when it is needed"): a holder that is not the outermost *)
(*    holder of its tensor streams through the loops that IMMEDIATELY follow  *)
(*    it and are fully relevant to its tensor; an irrelevant loop, another    *)
(*    holder or the compute ends the streaming.                               *)
RelevantTo(W, t, r) == \E i \in 1..Len(W.proj[t]) : W.proj[t][i] = r

RECURSIVE StreamEnd(_, _, _, _)
StreamEnd(W, nodes, t, q) ==
  IF q < Len(nodes) /\ IsLoop(nodes[q]) /\ RelevantTo(W, t, nodes[q].rv)
  THEN StreamEnd(W, nodes, t, q + 1) ELSE q

\* position whose extents give the reserved tile of the holder at p
FootprintPos(W, nodes, p) ==
  IF ParentHolder(nodes, p, nodes[p].t) = 0 THEN p ELSE StreamEnd(W, nodes, nodes[p].t, p + 1)

RECURSIVE ProdExt(_, _, _, _)
ProdExt(W, nodes, q, ranks) ==
  IF ranks = <<>> THEN 1 ELSE Ext(W, nodes, q, Head(ranks)) * ProdExt(W, nodes, q, Tail(ranks))

TileValuesAt(W, nodes, q, t) == ProdExt(W, nodes, q, W.proj[t])

MemHolders(W, nodes, m) == {j \in 1..(Len(nodes)-1) : IsMemHolder(W, nodes[j]) /\ nodes[j].mem = m}

\* a persistent holder (field pers = TRUE) keeps one copy of its tensor per workload instance
IsPers(n) == "pers" \in DOMAIN n /\ n.pers
PersFactor(W, n) == IF IsPers(n) THEN W.ninst ELSE 1

RECURSIVE SumBits(_, _, _, _)
SumBits(W, nodes, S, lowered) ==
  IF S = {} THEN 0
  ELSE LET j == CHOOSE y \in S : TRUE
           q == IF lowered THEN FootprintPos(W, nodes, j) ELSE j
       IN TileValuesAt(W, nodes, q, nodes[j].t) * W.bits[nodes[j].mem][nodes[j].t] * PersFactor(W, nodes[j])
          + SumBits(W, nodes, S \ {j}, lowered)

\* in a single nest all holders are live together at the compute
FootprintBits(W, nodes, m) == SumBits(W, nodes, MemHolders(W, nodes, m), TRUE)
TileBits(W, nodes, m)      == SumBits(W, nodes, MemHolders(W, nodes, m), FALSE)

-----------------------------------------------------------------------------
(* The execution machine                                                    *)
VARIABLES W,      \* the world (constant along a behaviour)
          nodes,  \* the mapping (constant during execution)
          phase,  \* "build" | "exec" | "done"
          pc,     \* position of the node being entered / returned to
          dir,    \* "down" (entering pc) | "up" (child of pc finished)
          idx,    \* loop counters, function position -> Nat
          rd, wr, \* value counts: [component -> [tensor -> Nat]]
          macs,   \* number of compute invocations
          valid,  \* position of a memory holder of the output -> set of elements holding a meaningful value
          step,   \* number of computes so far (time for liveness)
          since,  \* per holder position: step at which the current residency began
          first, last, \* per holder position: element -> step of first / last use in this residency
          live,   \* [component -> [step -> bits live]] accumulated at scope exits (element liveness)
          pts     \* bag of iteration-space points computed so far: point -> count

xvars == <<pc, dir, idx, rd, wr, macs, valid, step, since, first, last, live, pts>>

N == Len(nodes)
Tensors == DOMAIN W.proj
Comps == DOMAIN W.level

Bump(f, m, t, k) == [f EXCEPT ![m][t] = @ + k]

\* charge k values flowing DOWN from position a (source) to position b through the tolls between
TollDown(f, a, b, t, k) ==
  LET TS == {j \in TollsBetween(W, nodes, a, b, t) : ChargesDown(W, nodes[j])}
      RECURSIVE Go(_, _)
      Go(g, S) == IF S = {} THEN g
                  ELSE LET j == CHOOSE y \in S : TRUE
                       IN Go(Bump(g, nodes[j].mem, t, k), S \ {j})
  IN Go(f, TS)
TollUp(f, a, b, t, k) ==
  LET TS == {j \in TollsBetween(W, nodes, a, b, t) : ChargesUp(W, nodes[j])}
      RECURSIVE Go(_, _)
      Go(g, S) == IF S = {} THEN g
                  ELSE LET j == CHOOSE y \in S : TRUE
                       IN Go(Bump(g, nodes[j].mem, t, k), S \ {j})
  IN Go(f, TS)

\* values of the execution variables when execution of a mapping with n nodes over world w starts
ExecStart(w, n) ==
  [pc |-> 1, dir |-> "down",
   idx |-> [j \in 1..n |-> 0],
   rd |-> [m \in DOMAIN w.level |-> [t \in DOMAIN w.proj |-> 0]],
   wr |-> [m \in DOMAIN w.level |-> [t \in DOMAIN w.proj |-> 0]],
   macs |-> 0,
   valid |-> [j \in 1..n |-> {}],
   step |-> 0,
   since |-> [j \in 1..n |-> 0],
   first |-> [j \in 1..n |-> <<>>],
   last |-> [j \in 1..n |-> <<>>],
   live |-> [m \in DOMAIN w.level |-> <<>>],
   pts |-> <<>>]

\* ---- entering a holder: allocate + fill
EnterHolder ==
  /\ UNCHANGED <<W, nodes, phase>>
  /\ phase = "exec" /\ dir = "down" /\ IsHolder(nodes[pc])
  /\ LET n == nodes[pc]
         t == n.t
         src == Source(W, nodes, pc, t)
         tile == Tile(W, nodes, idx, pc, t)
     IN IF IsToll(W, n) \/ src = 0
        THEN \* a toll stores nothing; a backing holder has nothing above it
             /\ UNCHANGED <<rd, wr, valid>>
        ELSE \* Never-written output values (no compute has produced them yet): the child's side
             \* of the initial transfer (its fill write) is not charged if the child's
             \* skip_initial_output_write flag is set; the parent's side (its read) is not charged
             \* if both flags are set (tests/test_model.py: clearing the flag on the parent alone
             \* makes the parent see the fill read).  A Toll on the way has its flag always set.
             LET written == IF IsOutput(W, t) THEN {e \in tile : e \in valid[src]} ELSE tile
                 kw == Cardinality(written)
                 kn == Cardinality(tile) - kw
                 kRead  == kw + (IF W.skip[n.mem] /\ W.skip[nodes[src].mem] THEN 0 ELSE kn)
                 kWrite == kw + (IF W.skip[n.mem] THEN 0 ELSE kn)
                 kToll  == kWrite   \* a Toll behaves like a component whose flag is always set
             IN /\ rd' = TollDown(Bump(rd, nodes[src].mem, t, kRead), src, pc, t, kToll)
                /\ wr' = Bump(wr, n.mem, t, kWrite)
                /\ valid' = [valid EXCEPT ![pc] = IF IsOutput(W, t) THEN written ELSE {}]
  /\ first' = [first EXCEPT ![pc] = <<>>]
  /\ last' = [last EXCEPT ![pc] = <<>>]
  /\ since' = [since EXCEPT ![pc] = step]
  /\ pc' = pc + 1
  /\ UNCHANGED <<dir, idx, macs, step, live, pts>>

\* ---- entering a loop
EnterLoop ==
  /\ UNCHANGED <<W, nodes, phase>>
  /\ phase = "exec" /\ dir = "down" /\ IsLoop(nodes[pc])
  /\ idx' = [idx EXCEPT ![pc] = 0]
  /\ pc' = pc + 1
  /\ UNCHANGED <<dir, rd, wr, macs, valid, step, since, first, last, live, pts>>

\* ---- the compute: one MAC at the current point
UseElem(fm, e, s) == IF e \in DOMAIN fm THEN fm ELSE fm @@ (e :> s)
TouchElem(fm, e, s) == IF e \in DOMAIN fm THEN [fm EXCEPT ![e] = s] ELSE fm @@ (e :> s)

DoCompute ==
  /\ UNCHANGED <<W, nodes, phase>>
  /\ phase = "exec" /\ dir = "down" /\ nodes[pc].kind = "C"
  /\ LET out == W.out
         hOut == Source(W, nodes, pc, out)
         eOut == CHOOSE e \in Tile(W, nodes, idx, pc, out) : TRUE
         readOut == eOut \in valid[hOut] \/ ~(W.cskip /\ W.skip[nodes[hOut].mem])
         RECURSIVE RdAll(_, _)
         RdAll(f, S) ==
           IF S = {} THEN f
           ELSE LET t == CHOOSE y \in S : TRUE
                    h == Source(W, nodes, pc, t)
                    k == IF t = out /\ ~readOut THEN 0 ELSE 1
                    kt == IF t = out /\ ~(eOut \in valid[hOut]) /\ W.cskip THEN 0 ELSE 1
                IN RdAll(TollDown(Bump(f, nodes[h].mem, t, k), h, pc, t, kt), S \ {t})
         \* liveness bookkeeping: every holder (memory) of every tensor sees a use of its element
         RECURSIVE Mark(_, _, _)
         Mark(fm, S, isFirst) ==
           IF S = {} THEN fm
           ELSE LET j == CHOOSE y \in S : TRUE
                    e == CHOOSE x \in Tile(W, nodes, idx, pc, nodes[j].t) : TRUE
                IN Mark([fm EXCEPT ![j] = IF isFirst THEN UseElem(@, e, step) ELSE TouchElem(@, e, step)],
                        S \ {j}, isFirst)
         HS == {j \in 1..(N-1) : IsMemHolder(W, nodes[j])}
     IN /\ rd' = TollUp(RdAll(rd, Tensors), hOut, pc, out, 1)
        /\ wr' = Bump(wr, nodes[hOut].mem, out, 1)
        /\ valid' = [valid EXCEPT ![hOut] = @ \cup {eOut}]
        /\ first' = Mark(first, HS, TRUE)
        /\ last' = Mark(last, HS, FALSE)
  /\ macs' = macs + 1
  /\ LET point == [r \in DOMAIN W.bound |-> Lo(nodes, idx, pc, r)]
     IN pts' = IF point \in DOMAIN pts THEN [pts EXCEPT ![point] = @ + 1] ELSE pts @@ (point :> 1)
  /\ step' = step + 1
  /\ dir' = "up" /\ pc' = pc - 1
  /\ UNCHANGED <<idx, live, since>>

\* ---- child of a loop finished: next iteration or leave
AdvanceLoop ==
  /\ UNCHANGED <<W, nodes, phase>>
  /\ phase = "exec" /\ dir = "up" /\ pc >= 1 /\ IsLoop(nodes[pc])
  /\ IF idx[pc] + 1 < Iters(W, nodes, pc)
     THEN /\ idx' = [idx EXCEPT ![pc] = @ + 1]
          /\ dir' = "down" /\ pc' = pc + 1
     ELSE /\ idx' = [idx EXCEPT ![pc] = 0]
          /\ dir' = "up" /\ pc' = pc - 1
  /\ UNCHANGED <<rd, wr, macs, valid, step, since, first, last, live, pts>>

\* add the element-liveness of one residency of holder position p to the timeline
AddLive(lv, p) ==
  LET n == nodes[p]
      bits == W.bits[n.mem][n.t] * PersFactor(W, n)
      F == first[p]
      L == last[p]
      outermost == ParentHolder(nodes, p, n.t) = 0
      whole == Cardinality(Tile(W, nodes, idx, p, n.t)) * bits
      \* the outermost (backing) holder of a tensor keeps its whole tile for its whole scope;
      \* every other holder keeps an element from its first to its last use in the residency
      span(s) == IF outermost THEN whole
                 ELSE Cardinality({e \in DOMAIN F : F[e] <= s /\ s <= L[e]}) * bits
      old == lv[n.mem]
      steps == {F[e] : e \in DOMAIN F} \cup {L[e] : e \in DOMAIN F}
      lo == IF outermost THEN since[p] ELSE IF steps = {} THEN 0 ELSE Min(steps)
      hi == IF outermost THEN step - 1 ELSE IF steps = {} THEN -1 ELSE Max(steps)
      new == [s \in (DOMAIN old) \cup (lo..hi) |->
                (IF s \in DOMAIN old THEN old[s] ELSE 0) + (IF s \in lo..hi THEN span(s) ELSE 0)]
  IN [lv EXCEPT ![n.mem] = new]

\* ---- child of a holder finished: write back (outputs), free
ExitHolder ==
  /\ UNCHANGED <<W, nodes, phase>>
  /\ phase = "exec" /\ dir = "up" /\ pc >= 1 /\ IsHolder(nodes[pc])
  /\ LET n == nodes[pc]
         t == n.t
         src == Source(W, nodes, pc, t)
         tile == Tile(W, nodes, idx, pc, t)
         k == Cardinality(tile)
     IN IF IsToll(W, n) \/ src = 0 \/ ~IsOutput(W, t)
        THEN UNCHANGED <<rd, wr, valid>>
        ELSE /\ rd' = TollUp(Bump(rd, n.mem, t, k), src, pc, t, k)
             /\ wr' = Bump(wr, nodes[src].mem, t, k)
             /\ valid' = [valid EXCEPT ![src] = @ \cup tile, ![pc] = {}]
  /\ live' = IF IsMemHolder(W, nodes[pc]) THEN AddLive(live, pc) ELSE live
  /\ dir' = "up" /\ pc' = pc - 1
  /\ UNCHANGED <<idx, macs, step, since, first, last, pts>>

Finish ==
  /\ phase = "exec" /\ dir = "up" /\ pc = 0
  /\ phase' = "done"
  /\ UNCHANGED <<W, nodes, xvars>>

ExecStep == EnterHolder \/ EnterLoop \/ DoCompute \/ AdvanceLoop \/ ExitHolder

=============================================================================
