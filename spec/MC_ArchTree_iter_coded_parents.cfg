\* role A: the iterator as coded (appends Compute leaves): the yielded parents are NOT the ancestors (TLC must find a counterexample)
CONSTANTS
  MaxN = 4
  MaxDepth = 4
  LeafKinds = {"Memory", "Container", "Compute"}
  BranchKinds = {"Fork", "Hierarchical"}
  Fanouts = {1, 2}
  ComputeFanouts = {1, 3}
  MinEmit = 1
  AppendComputes = TRUE
  CountOwn = FALSE
SPECIFICATION Spec
INVARIANT YieldedParentsAreAncestors
