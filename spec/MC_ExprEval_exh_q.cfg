CONSTANTS
  Parent <- Tree6
  Mode = "dep"
  NNames = 3
  WithSelf = FALSE
  PlaceIn = {1, 3, 4, 6}
  SelfPlaces = {2}
  KeyOrders = "all"
  G2Scopes <- Chain123
  G2Rev = {FALSE}
  RN = 0
INIT ExhInitAll
NEXT ExhNext
INVARIANT Emit
