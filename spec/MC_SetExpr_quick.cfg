CONSTANTS
  MaxDepth = 0
  Alphabet <- AlphaAll
  Pairs <- PairsAll
  N = 0
  K = 0
  RDepth = 0
INIT QuickInit
NEXT ExhNext
INVARIANT QuickInv
INVARIANT QuickEmit
