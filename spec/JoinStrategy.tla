---------------------------- MODULE JoinStrategy ----------------------------
(***************************************************************************)
(* The staged join of join_pmappings.py (multi_strategy_join /              *)
(* join_strategy_2) over ABSTRACT pmappings, role A for property C14.       *)
(*                                                                          *)
(* A pmapping is [k, o, r]: compatibility key, objective (additive), amount  *)
(* of a shared memory it reserves.  Two Einsums with pmapping sets P1, P2.   *)
(*   ExactJoin(cap) = {p + q : p \in P1, q \in P2, p.k = q.k, p.r+q.r <= cap}*)
(* The staged strategy:                                                     *)
(*   for each resource threshold e (excess capacity tolerated in the join):  *)
(*     bound := none                                                        *)
(*     for each objective threshold t (dirty ... 0 = clean):                 *)
(*        A_i := Filter(Prune(P_i, t), bound)     -- Prune: drop pmappings   *)
(*               that another pmapping of the same key beats by more than t  *)
(*               with no more memory; Filter: drop pmappings whose OWN       *)
(*               objective already exceeds the best TOTAL found so far       *)
(*        J := Join(A_1, A_2, Cap + e);  if dirty: bound := best total in J  *)
(*     if the best rows of the clean J exceed Cap (oversubscribed): next e   *)
(*     else Return J                                                        *)
(* Claim checked by TLC: at Return the best objective equals the best        *)
(* objective of ExactJoin(Cap) (or both are empty).  The claim needs         *)
(* (1) objectives that cannot decrease by adding a pmapping (o >= 0), and    *)
(* (2) the oversubscription test with retry; the negative configurations    *)
(* drop one of the two and TLC must find a counterexample.                   *)
(***************************************************************************)
EXTENDS Integers, Sequences, FiniteSets, TLC

CONSTANTS Keys, ObjVals, ResVals, Cap, MaxP, CheckOversub

ResThresh == <<1, 0>>
ObjThresh == <<1, 0>>
NONE == -1000

Universe == [k : Keys, o : ObjVals, r : ResVals]
Small == {S \in SUBSET Universe : Cardinality(S) >= 1 /\ Cardinality(S) <= MaxP}

VARIABLES P1, P2, ri, oi, bound, result, phase
vars == <<P1, P2, ri, oi, bound, result, phase>>

Join(A, B, cap) == {[o |-> p.o + q.o, r |-> p.r + q.r] : <<p, q>> \in {<<x, y>> \in A \X B : x.k = y.k /\ x.r + y.r <= cap}}
MinO(J) == CHOOSE x \in {j.o : j \in J} : \A y \in {j.o : j \in J} : x <= y
Best(J) == IF J = {} THEN NONE ELSE MinO(J)
BestRows(J) == {j \in J : j.o = Best(J)}
Prune(A, t) == {p \in A : \A q \in A : (q.k = p.k /\ q.r <= p.r) => p.o <= q.o + t}
Filter(A, b) == IF b = NONE THEN A ELSE {p \in A : p.o <= b}

Init == /\ P1 \in Small /\ P2 \in Small
        /\ ri = 1 /\ oi = 1 /\ bound = NONE /\ result = {} /\ phase = "run"

Excess == ResThresh[ri]

DirtyJoin ==
  /\ phase = "run" /\ oi < Len(ObjThresh)
  /\ LET t == ObjThresh[oi]
         J == Join(Filter(Prune(P1, t), bound), Filter(Prune(P2, t), bound), Cap + Excess)
     IN /\ bound' = IF J = {} THEN bound ELSE Best(J)   \* an empty dirty join raises and is skipped
        /\ oi' = oi + 1
  /\ UNCHANGED <<P1, P2, ri, result, phase>>

CleanJoin ==
  /\ phase = "run" /\ oi = Len(ObjThresh)
  /\ result' = Join(Filter(P1, bound), Filter(P2, bound), Cap + Excess)
  /\ phase' = "joined"
  /\ UNCHANGED <<P1, P2, ri, oi, bound>>

Oversubscribed == \E j \in BestRows(result) : j.r > Cap

Retry ==
  /\ phase = "joined" /\ CheckOversub /\ Oversubscribed /\ ri < Len(ResThresh)
  /\ ri' = ri + 1 /\ oi' = 1 /\ bound' = NONE /\ phase' = "run"
  /\ UNCHANGED <<P1, P2, result>>

Return ==
  /\ phase = "joined"
  /\ ~(CheckOversub /\ Oversubscribed /\ ri < Len(ResThresh))
  /\ phase' = "done"
  /\ UNCHANGED <<P1, P2, ri, oi, bound, result>>

Next == DirtyJoin \/ CleanJoin \/ Retry \/ Return
Spec == Init /\ [][Next]_vars

Exact == Join(P1, P2, Cap)
Correct ==
  phase = "done" =>
     /\ Best({j \in result : j.r <= Cap}) = Best(Exact)
     /\ \A j \in BestRows(result) : j.r <= Cap \/ Exact = {}
=============================================================================
