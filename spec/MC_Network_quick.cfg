\* role A: all interleavings; (n<=4, stride<=2, volume 1) and (n<=3, stride<=2, volume 2); both topologies, both modes
CONSTANTS
  Cases <- CasesQuick
  ReplicateAnywhere = FALSE
SPECIFICATION Spec
INVARIANT TypeOK
INVARIANT NoStuckPacket
INVARIANT HopsAreLinkCrossings
INVARIANT NoDuplicateService
INVARIANT SharedValueOncePerLink
INVARIANT AllDelivered
INVARIANT Confluent
