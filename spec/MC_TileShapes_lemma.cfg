\* the fast predicates equal the brute-force definitions on every subset C of 0..outer+1, outer <= 10;
\* ChainSet equals the filter over all choice sequences and, for perfect patterns, the ordered factorisations (n <= 14, length <= 4)
CONSTANTS
  Jobs <- JobsLemma
SPECIFICATION Spec
INVARIANT LemmaHolds
