CONSTANTS
  R = 3
  C = 3
  Vals = {0, 1, 2}
  KeyMode = "coarse_lex"
  Grain = 2
SPECIFICATION Spec
INVARIANT Correct
INVARIANT WindowAntichain
