CONSTANTS
  U = {a, b, c}
  MaxKeys = 3
  OtherLast = TRUE
INIT Init
NEXT Next
INVARIANT Correct
