SPECIFICATION Spec
INVARIANT Emit
