SPECIFICATION TTSpec
INVARIANT TTEmit
