------------------------------ MODULE FusedTree ------------------------------
(***************************************************************************)
(* Occupancy of a fused LoopTree with ARBITRARILY NESTED sequential splits   *)
(* (generalises FusedNest, which handles one split).                         *)
(*                                                                          *)
(* A tree is a list of nodes; node kinds                                     *)
(*    [kind "S", id, mem, t]   holder          [kind "T", rv, tile]  loop    *)
(*    [kind "C", einsum]       compute (leaf)                                *)
(*    [kind "Q", children]     sequential split, children = list of lists    *)
(* The SCOPE of a position is the sequence of leaf (Einsum) executions that  *)
(* happen within one entry into that position: loops repeat what is below    *)
(* them (a loop with >= 3 iterations is unrolled as first / middle / last,   *)
(* with 2 iterations as first / last: enough to tell which leaves run        *)
(* between two uses), a split runs its children one after the other.         *)
(* Einsum e sees the view of the tree along the path to its compute without  *)
(* holders of tensors it does not use; a holder reserves its tile at the     *)
(* streamed position of that view (LoopNest!FootprintPos); one residency of  *)
(* that position has the scope of that position; the tile lives from the     *)
(* first to the last execution of a leaf that uses its tensor.               *)
(*    Peak(m) = max over leaves b of the bits of the tiles live during b.    *)
(***************************************************************************)
EXTENDS LoopNest, Json, IOUtils

TCases == JsonDeserialize(IOEnv.CASES_FILE)
\* case = [id, world |-> [bound, proj, level, istoll, bits, einsums : seq of [name, tensors]], tree : list of nodes]

EinsumIdx(c, name) == CHOOSE e \in 1..Len(c.world.einsums) : c.world.einsums[e].name = name
TensorsOfE(c, e) == {c.world.einsums[e].tensors[i] : i \in 1..Len(c.world.einsums[e].tensors)}
UsersT(c, t) == {e \in 1..Len(c.world.einsums) : t \in TensorsOfE(c, e)}

RECURSIVE Contains(_, _), ConcatAll(_, _, _, _)
Contains(L, e) == \E i \in 1..Len(L) :
                     \/ (L[i].kind = "C" /\ L[i].einsum = e)
                     \/ (L[i].kind = "Q" /\ \E k \in 1..Len(L[i].children) : Contains(L[i].children[k], e))

RECURSIVE ScopeFrom(_, _, _)
\* leaf executions (Einsum names) within one entry into position i of list L; ext = current extents
ScopeFrom(L, i, ext) ==
  IF i > Len(L) THEN <<>>
  ELSE LET n == L[i]
       IN CASE n.kind = "C" -> <<n.einsum>>
            [] n.kind = "S" -> ScopeFrom(L, i + 1, ext)
            [] n.kind = "T" -> LET S == ScopeFrom(L, i + 1, [ext EXCEPT ![n.rv] = n.tile])
                                   it == ext[n.rv] \div n.tile
                               IN IF it >= 3 THEN S \o S \o S ELSE IF it = 2 THEN S \o S ELSE S
            [] n.kind = "Q" -> ConcatAll(n.children, 1, ext, <<>>)
ConcatAll(ch, k, ext, acc) == IF k > Len(ch) THEN acc ELSE ConcatAll(ch, k + 1, ext, acc \o ScopeFrom(ch[k], 1, ext))

RECURSIVE PathView(_, _, _, _)
\* the nodes Einsum `name` passes, each with the scope of its position
PathView(L, i, name, ext) ==
  IF i > Len(L) THEN <<>>
  ELSE LET n == L[i]
       IN CASE n.kind = "Q" -> LET k == CHOOSE k \in 1..Len(n.children) : Contains(n.children[k], name)
                               IN PathView(n.children[k], 1, name, ext)
            [] n.kind = "C" -> <<[n |-> [kind |-> "C"], scope |-> <<n.einsum>>]>>
            [] OTHER -> <<[n |-> n, scope |-> ScopeFrom(L, i, ext)]>>
                        \o PathView(L, i + 1, name, IF n.kind = "T" THEN [ext EXCEPT ![n.rv] = n.tile] ELSE ext)

ViewE(c, e) ==
  SelectSeq(PathView(c.tree, 1, c.world.einsums[e].name, c.world.bound),
            LAMBDA x : x.n.kind # "S" \/ x.n.t \in TensorsOfE(c, e))
NodesOfView(v) == [k \in 1..Len(v) |-> v[k].n]

\* all holders of the tree, as records [id, mem, t, owner]; owner = first Einsum whose view contains the holder
HoldersOf(c) ==
  UNION {{[id |-> ViewE(c, e)[k].n.id, mem |-> ViewE(c, e)[k].n.mem, t |-> ViewE(c, e)[k].n.t] :
            k \in {j \in 1..Len(ViewE(c, e)) : ViewE(c, e)[j].n.kind = "S"}} : e \in 1..Len(c.world.einsums)}
OwnerOf(c, h) == Min({e \in 1..Len(c.world.einsums) : \E k \in 1..Len(ViewE(c, e)) :
                         ViewE(c, e)[k].n.kind = "S" /\ ViewE(c, e)[k].n.id = h.id})

\* A persistent tensor (world.persist, optional field) is held once per workload instance (world.ninst copies);
\* every other tile exists once, whatever the instance count.
SeqRange(s) == {s[k] : k \in 1..Len(s)}
IsPersistent(c, t) == "persist" \in DOMAIN c.world /\ t \in SeqRange(c.world.persist)
Copies(c, t) == IF IsPersistent(c, t) THEN c.world.ninst ELSE 1

Reserved(c, h) ==
  LET e == OwnerOf(c, h)
      v == ViewE(c, e)
      k == CHOOSE k \in 1..Len(v) : v[k].n.kind = "S" /\ v[k].n.id = h.id
      q == FootprintPos(c.world, NodesOfView(v), k)
  IN [bits |-> TileValuesAt(c.world, NodesOfView(v), q, h.t) * c.world.bits[h.mem][h.t] * Copies(c, h.t),
      scope |-> v[q].scope]

LiveLeaves(c, h) ==
  LET r == Reserved(c, h)
      S == r.scope
      U == {c.world.einsums[e].name : e \in UsersT(c, h.t)}
      idxs == {i \in 1..Len(S) : S[i] \in U}
  IN IF Copies(c, h.t) > 1 \/ IsPersistent(c, h.t)
     THEN {S[i] : i \in 1..Len(S)}        \* a persistent tile stays resident for the whole workload
     ELSE IF idxs = {} THEN {} ELSE {S[i] : i \in Min(idxs)..Max(idxs)}

RECURSIVE SumBitsLive(_, _, _)
SumBitsLive(c, H, leaf) ==
  IF H = {} THEN 0
  ELSE LET h == CHOOSE x \in H : TRUE
       IN (IF leaf \in LiveLeaves(c, h) THEN Reserved(c, h).bits ELSE 0) + SumBitsLive(c, H \ {h}, leaf)

PeakT(c, m) ==
  LET H == {h \in HoldersOf(c) : h.mem = m /\ ~c.world.istoll[m]}
      leaves == {c.world.einsums[e].name : e \in 1..Len(c.world.einsums)}
  IN Max({SumBitsLive(c, H, b) : b \in leaves})

VARIABLE i
UnusedT == <<W, nodes, phase, pc, dir, idx, rd, wr, macs, valid, step, since, first, last, live, pts>>
TTInit == /\ i = 1
          /\ W = 0 /\ nodes = <<>> /\ phase = "static" /\ pc = 0 /\ dir = "down" /\ idx = <<>> /\ rd = <<>> /\ wr = <<>>
          /\ macs = 0 /\ valid = <<>> /\ step = 0 /\ since = <<>> /\ first = <<>> /\ last = <<>> /\ live = <<>> /\ pts = <<>>
TTNext == i < Len(TCases) /\ i' = i + 1 /\ UNCHANGED UnusedT
TTSpec == TTInit /\ [][TTNext]_<<i, UnusedT>>
TTEmit == i <= Len(TCases) =>
  LET c == TCases[i]
  IN PrintT(ToJson([id |-> c.id, peak |-> [m \in DOMAIN c.world.level |-> PeakT(c, m)]]))
=============================================================================
