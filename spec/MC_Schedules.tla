----------------------------- MODULE MC_Schedules -----------------------------
(* Schedules for the hook in accelforge/util/parallel.py (property C20, C32):  *)
(* a schedule is a sequence of (exec, arrive) priority vectors, one per         *)
(* parallel() call (recycled); jobs are executed / delivered in the order of    *)
(* their priorities (ties by job index).                                        *)
EXTENDS Integers, Sequences, FiniteSets, TLC, Json, IOUtils

CONSTANTS K,       \* priorities are drawn from 0..K-1 (K jobs get every relative order)
          Calls,   \* number of (exec, arrive) pairs per schedule
          NSched   \* number of schedules to draw (simulation)

VARIABLES n, sched
gvars == <<n, sched>>

Prio(z) == [j \in 1..K |-> RandomElement(0..(K-1))]
Pair(z) == [exec |-> Prio(z), arrive |-> Prio(z + 1000)]
GInit == n = 0 /\ sched = [c \in 1..Calls |-> Pair(c)]
GNext == n < NSched /\ n' = n + 1 /\ sched' = [c \in 1..Calls |-> Pair((n + 1) * Calls + c)]
GSpec == GInit /\ [][GNext]_gvars
GEmit == PrintT(ToJson([id |-> n, calls |-> sched]))

\* exhaustive variant for one call site: every pair of permutations of K jobs
Perms == {p \in [1..K -> 0..(K-1)] : \A a, b \in 1..K : a # b => p[a] # p[b]}
EInit == n = 0 /\ sched \in {<<[exec |-> p, arrive |-> q]>> : p \in Perms, q \in Perms}
ENext == UNCHANGED gvars
ESpec == EInit /\ [][ENext]_gvars
=============================================================================
