SPECIFICATION FSpec
INVARIANT FEmit
