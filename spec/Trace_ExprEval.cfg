CONSTANTS
  Parent <- Tree6
  Mode = "dep"
INIT TInit
NEXT TNext
INVARIANT Report
