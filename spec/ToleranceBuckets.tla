------------------------- MODULE ToleranceBuckets -------------------------
(***************************************************************************)
(* C16, the lemma every tolerance argument rests on.                       *)
(*                                                                         *)
(* Tolerant Pareto pruning (tile shapes, pmapping tables, dirty joins)     *)
(* replaces an objective value x by the representative of its class and    *)
(* keeps the first row of each class.  The optimum survives up to the      *)
(* factor 1+t exactly when the classing has three properties:              *)
(*   Monotone   x <= y  =>  class(x) <= class(y)                            *)
(*   Narrow     class(x) = class(y) /\ x <= y  =>  y <= (1+t) x             *)
(*   Total      every positive value has a class                            *)
(* Role A: on every table of values with any monotone, narrow classing,    *)
(* dropping all but an ARBITRARY member of each class keeps some value     *)
(* within (1+t) of the minimum (KeepsNearOptimum); with a classing that is *)
(* not narrow TLC finds a table where the survivor is worse (cfg _wide).   *)
(* Binding C: the table  x |-> class id  recorded from the real            *)
(* logscale_to_tolerance for x = 1..N is validated against Monotone and    *)
(* Narrow (operator TableVerdict, exact integer cross-multiplication).     *)
(***************************************************************************)
EXTENDS Integers, Sequences, FiniteSets, TLC, Json, IOUtils

\* ---------------------------------------------------------------- binding C
Tables == JsonDeserialize(IOEnv.BUCKETS_FILE)    \* seq of [id, on, od, xs: seq of x, cls: seq of class id]

MonotoneT(tb) == \A i \in 1..(Len(tb.xs) - 1) : tb.xs[i] <= tb.xs[i + 1] => tb.cls[i] <= tb.cls[i + 1]
\* xs is sorted, so members of one class are contiguous if MonotoneT holds; compare all pairs anyway
NarrowT(tb) == \A i, j \in 1..Len(tb.xs) :
                  (tb.cls[i] = tb.cls[j] /\ tb.xs[i] <= tb.xs[j]) => tb.xs[j] * tb.od <= tb.xs[i] * (tb.od + tb.on)
FirstWide(tb) == LET B == {j \in 1..Len(tb.xs) : \E i \in 1..j : tb.cls[i] = tb.cls[j]
                                                   /\ tb.xs[j] * tb.od > tb.xs[i] * (tb.od + tb.on)}
                 IN IF B = {} THEN 0 ELSE CHOOSE j \in B : \A k \in B : j <= k
TableVerdict(tb) == [id |-> tb.id, monotone |-> MonotoneT(tb), narrow |-> NarrowT(tb), witness |-> FirstWide(tb)]

VARIABLES tid, vals, cls, kept
TInit == tid \in 1..Len(Tables) /\ vals = {} /\ cls = <<>> /\ kept = {}
TNext == UNCHANGED <<tid, vals, cls, kept>>
EmitT == PrintT(ToJson(TableVerdict(Tables[tid])))

\* ---------------------------------------------------------------- role A
CONSTANTS Vals,      \* value alphabet (positive integers)
          On, Od,    \* tolerance t = On/Od
          Wide       \* FALSE: classings are narrow; TRUE: classes may span (1+t)^2 (negative control)
avars == <<vals, cls, kept, tid>>

Within(y, x, k) == IF k = 1 THEN y * Od <= x * (Od + On)
                   ELSE y * Od * Od <= x * (Od + On) * (Od + On)
Classing(c) == /\ \A x, y \in Vals : x <= y => c[x] <= c[y]
               /\ \A x, y \in Vals : (c[x] = c[y] /\ x <= y) => Within(y, x, IF Wide THEN 2 ELSE 1)
AInit == /\ vals \in (SUBSET Vals) \ {{}}
         /\ cls \in {c \in [Vals -> 1..Cardinality(Vals)] : Classing(c)}
         /\ kept = {} /\ tid = 0
\* one survivor per class, chosen arbitrarily (the code keeps the first row it meets)
Prune == /\ kept = {}
         /\ kept' \in {K \in SUBSET vals : /\ \A x \in vals : \E k \in K : cls[k] = cls[x]
                                           /\ \A a, b \in K : cls[a] = cls[b] => a = b}
         /\ UNCHANGED <<vals, cls, tid>>
ANext == Prune
ASpec == AInit /\ [][ANext]_avars
Min(S) == CHOOSE m \in S : \A x \in S : m <= x
KeepsNearOptimum == kept # {} => Within(Min(kept), Min(vals), 1)
NeverBelow == kept # {} => Min(kept) >= Min(vals)
=============================================================================
