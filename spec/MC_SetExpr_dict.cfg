CONSTANTS
  MaxDepth = 2
  Alphabet <- AlphaDict
  Pairs <- PairsAll
  N = 0
  K = 0
  RDepth = 0
INIT DictInit
NEXT ExhNext
INVARIANT DictInv
INVARIANT DictEmit
