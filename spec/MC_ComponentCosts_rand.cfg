CONSTANTS
  Mode = "once"
  MaxCalls = 3
  RN = 700
  Small = FALSE
INIT RandInit
NEXT RandNext
INVARIANT RandEmit
