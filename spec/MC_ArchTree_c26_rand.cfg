\* case generator (-simulate num=1 -depth K -seed S): K random well-formed trees with 6..12 nodes, depth <= 4
CONSTANTS
  MaxN = 12
  MaxDepth = 4
  LeafKinds = {"Memory", "Toll", "Container", "Compute"}
  BranchKinds = {"Fork", "Hierarchical"}
  Fanouts = {1, 2, 3}
  ComputeFanouts = {1, 2, 3}
  MinEmit = 6
  AppendComputes = TRUE
  CountOwn = FALSE
INIT Init
NEXT GenRandNext
INVARIANT Emit26
