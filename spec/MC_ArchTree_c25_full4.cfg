\* case generator: every well-formed tree with MinEmit..MaxN nodes over the given alphabet
\* (model checking), or random growth walks (-simulate); one JSON record per tree
CONSTANTS
  MaxN = 4
  MaxDepth = 4
  LeafKinds = {"Memory", "Toll", "Container", "Compute"}
  BranchKinds = {"Fork", "Hierarchical"}
  Fanouts = {1, 2, 3}
  ComputeFanouts = {1, 2, 3}
  BranchTags = {1}
  MinEmit = 1
  AppendComputes = TRUE
  CountOwn = FALSE
INIT Init
NEXT GenNext
INVARIANT Emit25
