CONSTANTS
  Shapes <- Shapes22
  RSet <- One
  KeyMode = "before"
  WalkMode = "reverse"
  ESet <- Three
  Shapes1 <- Shapes33
  Shapes2 <- Shapes32
  Shapes3 <- Shapes22
  RSet1 <- One
  RSet2 <- One
  RSet3 <- One
  NCases = 1000000
INIT ExhInit
NEXT ExhNext
INVARIANT Emit
