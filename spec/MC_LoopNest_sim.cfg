CONSTANTS
  MaxNodes = 11
  MaxLoopsPerRv = 3
SPECIFICATION Spec
INVARIANT Emit
INVARIANT ExecOK
INVARIANT FootprintLemma
