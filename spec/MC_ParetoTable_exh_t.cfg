CONSTANTS
  ExhFamilies <- ExhThorough
  RandFamilies <- NoRand
  N = 0
INIT ExhInit
NEXT ExhNext
INVARIANT Emit
