\* random: up to 12 rows, every schema, every tolerance; small values (wide ratios)
CONSTANTS
  R = 12
  Vals = {1, 2, 3, 4, 5, 6, 7, 8, 12, 16}
  DVals = {1, 2, 4}
  SchemaIds = {1, 2, 3, 4, 5, 6, 7, 8, 9, 10, 11, 12, 13}
  TolIds = {1, 2, 3, 4, 5, 6, 7, 8, 9, 10, 11, 12}
  ConstIds = {1, 2, 3, 4, 5}
  N = 1000
INIT RandInit
NEXT RandNext
INVARIANT Emit
