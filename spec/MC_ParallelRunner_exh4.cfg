CONSTANTS
  NSet <- Small4
  WSet <- Small4W
  Modes <- AllModes
  InOrder = TRUE
  Placement = "by_tag"
INIT SchedInit
NEXT SchedNext
INVARIANT EmitSched
INVARIANT Correct
