\* role A: repaired iterator, cost loop as coded (own fanout not counted): still wrong (TLC must find a counterexample)
CONSTANTS
  MaxN = 4
  MaxDepth = 4
  LeafKinds = {"Memory", "Container", "Compute"}
  BranchKinds = {"Fork", "Hierarchical"}
  Fanouts = {1, 2}
  ComputeFanouts = {1, 3}
  MinEmit = 1
  AppendComputes = FALSE
  CountOwn = FALSE
SPECIFICATION Spec
INVARIANT CostsCorrect
