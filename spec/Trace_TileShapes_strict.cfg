\* single-case replay: the invariant fails iff the recorded set is rejected
SPECIFICATION Spec
INVARIANT Emit
INVARIANT Accepted
