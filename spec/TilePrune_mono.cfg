CONSTANTS
  X = {1, 2, 3}
  Y = {1, 2}
  Vals = {0, 1, 2}
  Monotone = TRUE
SPECIFICATION Spec
INVARIANT NoOptimumLost
