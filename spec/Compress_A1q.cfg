CONSTANTS
  Shapes <- Shapes33
  ESet <- One
  RSet <- OneTwo
  KeyMode = "before"
  WalkMode = "reverse"
SPECIFICATION Spec
INVARIANT Lossless
INVARIANT NoError
INVARIANT CompressInv
