------------------------------- MODULE Renames -------------------------------
(***************************************************************************)
(* Resolution of renames (property C29).                                    *)
(*                                                                          *)
(* A case C is a record                                                     *)
(*   W     workload (as in SetExpr, with no renames of its own)             *)
(*   tab   tab[e] = SetExpr!Tab(W, e), the named sets of Einsum e; derived  *)
(*         from W (TabOK) and carried in the case so that TLC computes it   *)
(*         once                                                             *)
(*   RV    the rank variables of every Einsum (all Einsums of a case index  *)
(*         their tensors with the same rank variables)                      *)
(*   names << [name |-> "r1", kind |-> "t" or "r"], .. >>                   *)
(*         kind "t": the source is a set of tensors,                        *)
(*         kind "r": the source is a set of rank variables                  *)
(*   dflt  dflt[k]   : the entry for names[k] in the top-level renames      *)
(*                     under the Einsum name "default"   (at = "default")   *)
(*   own   own[e][k] : the entry for names[k] given for Einsum e, either in *)
(*                     the Einsum's own renames          (at = "local")     *)
(*                     or in the top-level renames under e's name ("top")   *)
(* An entry is [at, src, cnt]; at = "none": no entry; cnt = -1: no          *)
(* expected_count.  One cell per (Einsum, name): a name is never given for  *)
(* an Einsum both locally and at top level (the statement does not rank     *)
(* those two against each other).                                           *)
(***************************************************************************)
EXTENDS SetExpr

NoEntry == [at |-> "none", src |-> <<"n", "Nothing">>, cnt |-> -1]

NE(C) == NEinsums(C.W)
NN(C) == Len(C.names)

\* value of a source expression in Einsum e
RankTab(RV) == [v \in RV |-> {v}]
Value(C, e, k, src) ==
  IF C.names[k].kind = "t" THEN EvalT(src, C.tab[e], EinsumTensors(C.W, e))
  ELSE EvalT(src, RankTab(C.RV), C.RV)

TabOK(C) == C.tab = [e \in 1..NE(C) |-> Tab(C.W, e)]

HasOwn(C, e, k)  == C.own[e][k].at # "none"
HasDflt(C, k)    == C.dflt[k].at # "none"
Resolved(C, e, k) == HasOwn(C, e, k) \/ HasDflt(C, k)

\* THE DEFINITION (property C29): the entry given for the Einsum, else the default
Entry(C, e, k) == IF HasOwn(C, e, k) THEN C.own[e][k] ELSE C.dflt[k]
Resolve(C, e, k) == Value(C, e, k, Entry(C, e, k).src)
Via(C, e, k) == IF HasOwn(C, e, k) THEN C.own[e][k].at
                ELSE IF HasDflt(C, k) THEN "default" ELSE "none"

Mismatch(C, e, k, en) == en.cnt >= 0 /\ en.cnt # Cardinality(Value(C, e, k, en.src))

\* an expected_count that does not match the size of the resolved set is rejected
Rejected(C) == \E e \in 1..NE(C), k \in 1..NN(C) :
                  Resolved(C, e, k) /\ Mismatch(C, e, k, Entry(C, e, k))

\* Outside the statement: a default entry whose expected_count would not match in an
\* Einsum that overrides that name.  Such cases are never generated.
Ambiguous(C) == \E e \in 1..NE(C), k \in 1..NN(C) :
                   HasOwn(C, e, k) /\ HasDflt(C, k) /\ Mismatch(C, e, k, C.dflt[k])

-----------------------------------------------------------------------------
(* A second reading, used only to NAME a disagreement (never to judge it):  *)
(* what the result would be if per-Einsum entries of the top-level section  *)
(* were ignored.                                                            *)
HasOwnI(C, e, k)   == C.own[e][k].at = "local"
ResolvedI(C, e, k) == HasOwnI(C, e, k) \/ HasDflt(C, k)
EntryI(C, e, k)    == IF HasOwnI(C, e, k) THEN C.own[e][k] ELSE C.dflt[k]
ResolveI(C, e, k)  == IF ResolvedI(C, e, k) THEN Value(C, e, k, EntryI(C, e, k).src) ELSE {}
RejectedI(C) == \E e \in 1..NE(C), k \in 1..NN(C) :
                   ResolvedI(C, e, k) /\ Mismatch(C, e, k, EntryI(C, e, k))

=============================================================================
