SPECIFICATION Spec
INVARIANT Emit
