SPECIFICATION TSpec
INVARIANT TEmit
