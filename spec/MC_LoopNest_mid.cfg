CONSTANTS
  MaxNodes = 8
  MaxLoopsPerRv = 2
SPECIFICATION Spec
INVARIANT Emit
INVARIANT ExecOK
INVARIANT FootprintLemma
