\* random formulas of the full grammar over 3 symbols
CONSTANTS
  NS = 3
  His = {3, 4}
  Los = {1}
  N = 1000000
  Small = FALSE
INIT Init
NEXT Next
INVARIANT Emit
