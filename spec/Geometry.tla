------------------------------ MODULE Geometry ------------------------------
(***************************************************************************)
(* Property C24: the geometry of a workload, stated by ENUMERATION.         *)
(*                                                                          *)
(* An Einsum iterates over a box: every rank variable v of the Einsum runs  *)
(* over 0 .. bnd[v]-1.  A tensor access projects an iteration point through *)
(* one affine expression per rank,                                          *)
(*        sum over v of cx[v] * p[v]  +  c        (cx[v], c naturals).      *)
(* Everything below is a set comprehension over the enumerated iteration    *)
(* space; nothing is computed from closed formulas, so the definitions do   *)
(* not share the implementation's reasoning (ISL bounds / sympy coeff).     *)
(***************************************************************************)
EXTENDS Integers, Sequences, FiniteSets

CONSTANTS Vars,   \* names of rank variables (strings)
          MaxB    \* largest bound of a rank variable

RECURSIVE SumOver(_, _)
SumOver(S, f) == IF S = {} THEN 0
                 ELSE LET v == CHOOSE u \in S : TRUE IN f[v] + SumOver(S \ {v}, f)

RECURSIVE ProdTo(_, _)
ProdTo(f, k) == IF k = 0 THEN 1 ELSE f[k] * ProdTo(f, k - 1)

SetMax(S) == CHOOSE m \in S : \A s \in S : s <= m
SetMin(S) == CHOOSE m \in S : \A s \in S : m <= s

\* ---- projections ---------------------------------------------------------
\* aff = [cx |-> [Vars -> Nat], c |-> Nat];   proj = sequence of aff, one per rank
VarsOfAff(aff)  == {v \in Vars : aff.cx[v] # 0}
VarsOfProj(proj) == UNION {VarsOfAff(proj[i]) : i \in 1..Len(proj)}
\* an Einsum is a sequence of accesses [t |-> tensor, proj |-> proj]; the last one is
\* the output.  Its rank variables are the variables that occur in its accesses.
VarsOfEinsum(e) == UNION {VarsOfProj(e[i].proj) : i \in 1..Len(e)}

\* value of an affine expression at point p (a function from a set of variables to
\* naturals; every variable of aff is in DOMAIN p)
Eval(aff, p) == LET vs == VarsOfAff(aff) IN SumOver(vs, [v \in vs |-> aff.cx[v] * p[v]]) + aff.c

\* ---- the iteration space ------------------------------------------------
\* all points of the box: variable v runs over 0 .. bnd[v]-1
Space(bnd, U) == {p \in [U -> 0..(MaxB - 1)] : \A v \in U : p[v] < bnd[v]}

\* In the operators below P is the iteration space of the Einsum, Space(bnd, U).

\* number of operations of the Einsum = number of iteration points
Ops(P) == Cardinality(P)

\* reported bound of a rank variable = number of values it takes
Bound(P, v) == Cardinality({p[v] : p \in P})

\* ---- tensors --------------------------------------------------------------
\* the set of tensor elements touched: every iteration point pushed through the access
Image(P, proj) == {[i \in 1..Len(proj) |-> Eval(proj[i], p)] : p \in P}

Coord(S, i) == {q[i] : q \in S}
Extent(S, i) == SetMax(Coord(S, i)) - SetMin(Coord(S, i)) + 1

\* the smallest box (product of integer intervals) that contains S
BBox(S, k) == {q \in [1..k -> 0..SetMax(UNION {Coord(S, i) : i \in 1..k})] :
                 \A i \in 1..k : /\ SetMin(Coord(S, i)) <= q[i]
                                 /\ q[i] <= SetMax(Coord(S, i))}
\* DEFINITION: S is a box iff it equals its bounding box
IsBoxDef(S, k) == S = BBox(S, k)
\* the same, without building the bounding box: S is a subset of its bounding box, so
\* they are equal iff they have the same number of points  (lemma BoxLemma, checked by
\* TLC with MC_Geometry_lemma*.cfg)
BBoxVolume(S, k) == ProdTo([i \in 1..k |-> Extent(S, i)], k)
IsBox(S, k) == Cardinality(S) = BBoxVolume(S, k)

\* does the image start at index 0 of every rank?
StartsAtOrigin(S, k) == \A i \in 1..k : SetMin(Coord(S, i)) = 0

\* ---- stride and halo of a (rank, rank variable) pair ------------------------
\* step of the projected index per unit step of the variable (all else fixed)
Unit(U, v) == [u \in U |-> IF u = v THEN 1 ELSE 0]
Zero(U)    == [u \in U |-> 0]
Step(aff, U, v) == Eval(aff, Unit(U, v)) - Eval(aff, Zero(U))

\* indices of the rank that are touched while v is pinned to its first value
Pinned(P, aff, v) == {Eval(aff, p) : p \in {q \in P : q[v] = 0}}
\* reading 1 of "extra extent": how far those indices spread (max - min)
ExtraExtent(pinned) == SetMax(pinned) - SetMin(pinned)
\* reading 2 ("initial delta"): the last index touched, counted from index 0 of the rank
InitialDelta(pinned) == SetMax(pinned)
\* the two readings coincide iff the smallest touched index is 0 (no constant offset)
=============================================================================
