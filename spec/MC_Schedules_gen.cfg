CONSTANTS
  K = 6
  Calls = 12
  NSched = 40
SPECIFICATION GSpec
INVARIANT GEmit
