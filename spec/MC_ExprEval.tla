---------------------------- MODULE MC_ExprEval ----------------------------
(* Case families and generators for C21 (spec/ExprEval.tla).                 *)
(*                                                                           *)
(*   G1: ONE scope, every dependency graph on a pool of n names (self loops   *)
(*       optional), every key order, placed in each scope of PlaceIn; the     *)
(*       graphs with a self loop in two key orders in each scope of SelfPlaces*)
(*   G2: two or three nested/sibling scopes (G2Scopes), "a" and "ab" in each, *)
(*       every combination of absent / depends-on-subset-of-{a,ab}.           *)
(*   Rand: random definitions in all six scopes (up to ~14 names), random     *)
(*       expression trees over + - *, literals and visible names, random key  *)
(*       orders, cycles injected in a quarter of the cases.                   *)
(*                                                                           *)
(* Every emitted record carries the definitions in key order (source text    *)
(* and AST), and what ExprEval!Expected says about them.                     *)
EXTENDS ExprEval, Json, IOUtils, Randomization

CONSTANTS NNames,     \* G1: size of the pool
          WithSelf,   \* G1: allow self loops
          PlaceIn,    \* G1: set of scopes the single scope is placed in
          SelfPlaces, \* G1: scopes in which the graphs WITH a self loop are placed (sorted and reversed key order)
          KeyOrders,  \* G1: "all" | "two" (sorted and reversed)
          G2Scopes,   \* G2: sequence of two or three scopes
          G2Rev,      \* G2: set of BOOLEAN: also the reversed key order
          RN          \* Rand: number of cases per run

VARIABLES n,
          nb, rloose, rkmin   \* random generator only: scopes built, scope with cycles, min size

gvars == <<defs, val, pos, n, nb, rloose, rkmin>>

-----------------------------------------------------------------------------
Tree6   == <<0, 1, 2, 3, 2, 5>>   \* 1 spec.variables, 2 arch.variables, 3/4 component A, 5/6 component B
NS      == Len(Parent)
Chain123 == <<1, 2, 3>>   \* G2: spec variables > arch variables > component A
Sib235   == <<2, 3, 5>>   \* G2: arch variables > {component A, component B}
Sib135   == <<1, 3, 5>>   \* G2: spec variables > {component A, component B}
Chain12  == <<1, 2>>
Chain23  == <<2, 3>>

Lit(v) == [k |-> "lit", v |-> v]
Nm(x)  == [k |-> "name", n |-> x]
Bin(op, l, r) == [k |-> op, l |-> l, r |-> r]

\* name pools, sorted as Python sorts strings; chosen so that names are prefixes /
\* substrings of each other
FreePool  == <<"a", "a_b", "ab", "b", "ba">>
FieldPool == <<"area", "area_scale", "leak_power", "leak_power_scale", "n_parallel_instances">>
IsFieldScope(s) == s \in {4, 6}
PoolSeq(s) == IF IsFieldScope(s) THEN FieldPool ELSE FreePool

Ops == <<"+", "*", "-">>
RECURSIVE Fold(_, _, _)
Fold(c, ds, i) == IF i = 0 THEN Lit(c)
                  ELSE Bin(Ops[((i - 1) % 3) + 1], Fold(c, ds, i - 1), Nm(ds[i]))
\* the expression of a definition with constant c that uses exactly the names in depset
CanonExpr(c, depset, pool) ==
  LET ds == SelectSeq(pool, LAMBDA x : x \in depset) IN Fold(c, ds, Len(ds))

\* kb: a pure literal is written as a number (kb = 1) or as a string (otherwise)
Def(name, e, c) == [n |-> name, e |-> e, kb |-> c % 2]
Kind(d) == IF d.e.k = "lit" /\ d.kb = 1 THEN "int" ELSE "str"

Reverse(sq) == [i \in 1..Len(sq) |-> sq[Len(sq) + 1 - i]]
Perms(k) == {p \in [1..k -> 1..k] : \A i, j \in 1..k : p[i] = p[j] => i = j}

-----------------------------------------------------------------------------
(* G1 -- the sets are operators with an argument so that TLC does not build them at
   start-up when a configuration does not use them *)
G1Graphs(nn) == {g \in [1..nn -> SUBSET (1..nn)] : WithSelf \/ \A i \in 1..nn : i \notin g[i]}
G1SelfGraphs(nn) == {g \in [1..nn -> SUBSET (1..nn)] : \E i \in 1..nn : i \in g[i]}
G1TwoOrders(nn) == {[i \in 1..nn |-> i], [i \in 1..nn |-> nn + 1 - i]}
G1Orders(nn) == IF KeyOrders = "all" THEN Perms(nn)
                ELSE {[i \in 1..nn |-> i], [i \in 1..nn |-> nn + 1 - i]}
G1Case(g, p, sc) ==
  LET pool == SubSeq(PoolSeq(sc), 1, NNames) IN
  [s \in 1..NS |->
     IF s # sc THEN <<>>
     ELSE [i \in 1..NNames |->
             Def(pool[p[i]], CanonExpr(p[i] + 1, {pool[j] : j \in g[p[i]]}, pool), p[i] + 1)]]

(* G2 *)
G2Names == <<"a", "ab">>
G2Opts == <<{}, {"a"}, {"ab"}, {"a", "ab"}>>      \* option 0 = absent
G2Choices(k) == [1..k -> [1..2 -> 0..4]]
G2Case(ch, rev) ==
  [s \in 1..NS |->
     IF \A q \in 1..Len(G2Scopes) : G2Scopes[q] # s THEN <<>>
     ELSE LET q  == CHOOSE qq \in 1..Len(G2Scopes) : G2Scopes[qq] = s
              sq == SelectSeq(<<1, 2>>, LAMBDA i : ch[q][i] # 0)
              ds == [j \in 1..Len(sq) |->
                       Def(G2Names[sq[j]], CanonExpr(2 * q + sq[j], G2Opts[ch[q][sq[j]]], G2Names), q + sq[j])]
          IN IF rev THEN Reverse(ds) ELSE ds]

-----------------------------------------------------------------------------
(* what is printed *)
Flags(D) ==
  LET used == UNION {{<<d[1], m>> : m \in Refs(Expr(D, d[1], d[2]))} : d \in AllDefs(D)}
  IN [edges  |-> Cardinality(used),
      \* a used name that is defined both where it resolves and further out
      shadow |-> \E u \in used : LET r == Resolve(D, u[1], u[2]) IN
                                   r # 0 /\ Resolve(D, Parent[r], u[2]) # 0,
      ndefs  |-> Cardinality(AllDefs(D))]

Rec(D) ==
  LET x == Expected(D) IN
  [scopes |-> [s \in Scopes(D) |-> [i \in 1..Len(D[s]) |->
                 [n |-> D[s][i].n, src |-> RenderTop(D[s][i].e), kind |-> Kind(D[s][i]), e |-> D[s][i].e]]],
   result |-> x.result, val |-> x.val, flags |-> Flags(D)]

Emittable(D) == InQuantifier(D) /\ (HasCycle(D) \/ Small(D))
Emit == Emittable(defs) => PrintT(ToJson(Rec(defs)))

-----------------------------------------------------------------------------
(* role A: the algorithm of ExprEval (EvalField) over the families G1 and G2 *)
RoleAInitG1 == /\ \E g \in G1Graphs(NNames), p \in G1Orders(NNames), sc \in PlaceIn :
                    WellScoped(G1Case(g, p, sc)) /\ InitWith(G1Case(g, p, sc))
               /\ n = 0 /\ nb = 0 /\ rloose = 0 /\ rkmin = 0
RoleAInitG2 == /\ \E ch \in G2Choices(Len(G2Scopes)), rev \in G2Rev :
                    WellScoped(G2Case(ch, rev)) /\ InitWith(G2Case(ch, rev))
               /\ n = 0 /\ nb = 0 /\ rloose = 0 /\ rkmin = 0
RoleAInitAll == RoleAInitG1 \/ RoleAInitG2
RoleANext == Next /\ UNCHANGED <<n, nb, rloose, rkmin>>

(* exhaustive generators *)
ExhNext == UNCHANGED gvars
G1Init == /\ \/ \E g \in G1Graphs(NNames), p \in G1Orders(NNames), sc \in PlaceIn : defs = G1Case(g, p, sc)
             \/ \E g \in G1SelfGraphs(NNames), p \in G1TwoOrders(NNames), sc \in SelfPlaces : defs = G1Case(g, p, sc)
          /\ val = <<>> /\ pos = <<>> /\ n = 0 /\ nb = 0 /\ rloose = 0 /\ rkmin = 0
\* the acyclic graphs only, in EVERY key order (the cyclic ones are covered by G1Init)
G1InitDag == /\ \E g \in G1Graphs(NNames), p \in Perms(NNames), sc \in PlaceIn :
                  /\ ~ HasCycle(G1Case(g, [i \in 1..NNames |-> i], sc))
                  /\ defs = G1Case(g, p, sc)
             /\ val = <<>> /\ pos = <<>> /\ n = 0 /\ nb = 0 /\ rloose = 0 /\ rkmin = 0
G2Init == /\ \E ch \in G2Choices(Len(G2Scopes)), rev \in G2Rev : defs = G2Case(ch, rev)
          /\ val = <<>> /\ pos = <<>> /\ n = 0 /\ nb = 0 /\ rloose = 0 /\ rkmin = 0

ExhInitAll == G1Init \/ G2Init

-----------------------------------------------------------------------------
(* random generator (-simulate).  Whatever the draws produce is stored in    *)
(* the state variable defs; membership in the quantifier, cycles and values  *)
(* are then decided by the definitions of ExprEval, not by construction.     *)
RFree   == {"a", "ab", "abc", "a_b", "b", "ba", "b1", "a1", "x", "xa", "x_", "e"}
RFieldM == {"area", "area_scale", "leak_power", "leak_power_scale", "energy_scale",
            "throughput_scale", "n_parallel_instances", "actions_scale", "size"}
RFieldC == RFieldM \ {"size"}
RPool(s) == IF s = 4 THEN RFieldM ELSE IF s = 6 THEN RFieldC ELSE RFree
RMax    == <<4, 3, 3, 3, 2, 2>>
RLits   == <<-2, -1, 0, 1, 2, 3, 5, 7, 1, 2, 3, 4>>   \* zero is rare: it hides wrong look-ups
ROps    == {"+", "-", "*"}

\* TLC re-evaluates a LET definition (and so redraws the random numbers in it) at every
\* use.  WithVal evaluates v ONCE (as the element of a singleton set) and hands the value to F.
WithVal(v, F(_)) == CHOOSE y \in {F(x) : x \in {v}} : TRUE

RECURSIVE RandPerm(_)
RandPerm(S) == IF S = {} THEN <<>>
               ELSE WithVal(RandomElement(S), LAMBDA x : <<x>> \o RandPerm(S \ {x}))

RECURSIVE RandExpr(_, _)
RandExpr(vis, depth) ==
  IF depth = 0 \/ RandomElement(1..4) = 1
  THEN IF vis # {} /\ RandomElement(1..4) # 1 THEN Nm(RandomElement(vis)) ELSE Lit(RLits[RandomElement(1..Len(RLits))])
  ELSE Bin(RandomElement(ROps), RandExpr(vis, depth - 1), RandExpr(vis, depth - 1))

\* definitions of one scope: names in rank order rk (a concrete sequence); definition i may
\* use the outer names and the names of lower rank (acyclic), or, when loose, any name of
\* the scope
RECURSIVE RandDefs(_, _, _, _)
RandDefs(rk, outer, lo, i) ==
  IF i = 0 THEN <<>>
  ELSE LET lower == IF lo THEN {rk[j] : j \in 1..Len(rk)} \ (IF rk[i] \in outer THEN {rk[i]} ELSE {})
                    ELSE {rk[j] : j \in 1..(i - 1)}
           vis   == (outer \ {rk[i]}) \cup lower
       IN Append(RandDefs(rk, outer, lo, i - 1),
                 [n |-> rk[i], e |-> RandExpr(vis, RandomElement(0..3)), kb |-> RandomElement(1..2)])

\* the definitions ds (a concrete sequence) in a random key order
Shuffle(ds) == WithVal(RandPerm(1..Len(ds)), LAMBDA p : [i \in 1..Len(ds) |-> ds[p[i]]])

RECURSIVE Ancestors(_)
Ancestors(s) == IF Parent[s] = 0 THEN {} ELSE {Parent[s]} \cup Ancestors(Parent[s])
VisibleOuter(D, s) == UNION {Names(D, a) : a \in Ancestors(s)}

RandScope(s, outer, lo, km) ==
  WithVal(RandPerm(RandomSubset(RandomElement(km..RMax[s]), RPool(s))),
          LAMBDA rk : WithVal(RandDefs(rk, outer, lo, Len(rk)), LAMBDA ds : Shuffle(ds)))

\* a case is built scope by scope (nb = scopes built so far) so that every random draw is
\* stored in a state variable before it is used again
NoDefs == [s \in 1..NS |-> <<>>]

RandInit == /\ n = 0 /\ nb = 0 /\ rloose = 0 /\ rkmin = 0
            /\ defs = NoDefs
            /\ val = <<>> /\ pos = <<>>
RandNext == /\ n < RN
            /\ IF nb < NS
               THEN /\ defs' = [defs EXCEPT ![nb + 1] = RandScope(nb + 1, VisibleOuter(defs, nb + 1), rloose = nb + 1, rkmin)]
                    /\ nb' = nb + 1
                    /\ UNCHANGED <<n, rloose, rkmin>>
               ELSE /\ n' = n + 1
                    /\ nb' = 0
                    /\ defs' = NoDefs
                    /\ rloose' = IF RandomElement(1..4) = 1 THEN RandomElement(1..NS) ELSE 0
                    /\ rkmin' = RandomElement(0..1)
            /\ UNCHANGED <<val, pos>>
RandEmit == (nb = NS /\ Emittable(defs)) => PrintT(ToJson(Rec(defs)))
=============================================================================
