CONSTANTS
  Shapes <- Shapes33
  ESet <- One
  RSet <- OneToThree
  KeyMode = "before"
  WalkMode = "reverse"
SPECIFICATION Spec
INVARIANT Lossless
INVARIANT NoError
INVARIANT CompressInv
