-------------------------- MODULE Trace_JoinStrategy --------------------------
(***************************************************************************)
(* Code -> spec for C14: the sequence of internal steps of one staged join   *)
(* (recorded by wrappers around prune_with_tolerance and the internal        *)
(* join_pmappings) must be a behaviour of the control structure stated in    *)
(* JoinStrategy.tla:                                                        *)
(*   rounds of non-increasing resource threshold r; inside a round strictly  *)
(*   decreasing objective thresholds t ending with the clean join (t = 0);   *)
(*   a join follows every prune that was not skipped; the optimality filter  *)
(*   is in force exactly after the first successful dirty join of the round; *)
(*   a new round starts only after a clean join whose result oversubscribes  *)
(*   a memory; the trace ends with a clean join.                             *)
(* The step function is total: the first violated clause is recorded and the *)
(* verdict of every trace is printed.                                        *)
(***************************************************************************)
EXTENDS Integers, Sequences, TLC, Json, IOUtils

Traces == JsonDeserialize(IOEnv.TRACES_FILE)

VARIABLES tid, l, st
vars == <<tid, l, st>>

\* thresholds arrive as decimal numbers; compare through scaled integers supplied by the harness
\* (fields ti, ri = threshold * 10^6 rounded)
Start == [ok |-> TRUE, clause |-> "none", at |-> 0,
          round |-> -1,        \* ri of the current round (-1: none yet)
          lastT |-> -1,        \* ti of the last prune of this round (-1: none)
          expectJoin |-> FALSE, hadDirty |-> FALSE,
          lastCleanOver |-> FALSE, lastWasClean |-> FALSE]

Fail(s, c) == [s EXCEPT !.ok = FALSE, !.clause = c, !.at = l]

StepPrune(s, e) ==
  IF s.expectJoin THEN Fail(s, "join-missing-after-prune")
  ELSE IF s.round = -1 \/ e.ri = s.round
       THEN IF s.round # -1 /\ s.lastT # -1 /\ e.ti >= s.lastT
            THEN Fail(s, "objective-thresholds-not-decreasing")
            ELSE [s EXCEPT !.round = e.ri, !.lastT = e.ti, !.expectJoin = ~e.skipped, !.lastWasClean = FALSE]
       ELSE IF e.ri > s.round THEN Fail(s, "resource-threshold-increases")
       ELSE \* a new round
            IF ~(s.lastWasClean /\ s.lastCleanOver) THEN Fail(s, "retry-without-oversubscription")
            ELSE [s EXCEPT !.round = e.ri, !.lastT = e.ti, !.expectJoin = ~e.skipped,
                           !.hadDirty = FALSE, !.lastWasClean = FALSE]

StepJoin(s, e) ==
  IF ~s.expectJoin THEN Fail(s, "join-without-prune")
  ELSE IF e.filtered # s.hadDirty THEN Fail(s, "optimality-filter-not-as-specified")
  ELSE LET clean == s.lastT = 0
       IN [s EXCEPT !.expectJoin = FALSE,
                    !.hadDirty = s.hadDirty \/ (~clean /\ ~e.failed),
                    !.lastWasClean = clean,
                    !.lastCleanOver = clean /\ e.oversubscribed]

Step(s, e) == IF ~s.ok THEN s
              ELSE IF e.ev = "Prune" THEN StepPrune(s, e) ELSE StepJoin(s, e)

Final(s, tr) ==
  IF ~s.ok THEN s
  ELSE IF ~s.lastWasClean THEN Fail(s, "does-not-end-with-clean-join")
  ELSE IF s.lastCleanOver /\ s.round # 0 THEN Fail(s, "returns-oversubscribed-result-without-retry")
  ELSE IF tr.resource_metric /\ s.round # 0 THEN Fail(s, "resource-thresholds-used-although-usage-is-an-objective")
  ELSE s

Init == tid \in 1..Len(Traces) /\ l = 1 /\ st = Start
Next == /\ l <= Len(Traces[tid].events)
        /\ st' = Step(st, Traces[tid].events[l])
        /\ l' = l + 1
        /\ UNCHANGED tid
Spec == Init /\ [][Next]_vars

Emit == l = Len(Traces[tid].events) + 1 =>
          LET f == Final(st, Traces[tid])
          IN PrintT(ToJson([id |-> Traces[tid].id, ok |-> f.ok, clause |-> f.clause, at |-> f.at]))
=============================================================================
