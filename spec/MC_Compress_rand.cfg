CONSTANTS
  Shapes <- Shapes22
  RSet <- One
  KeyMode = "before"
  WalkMode = "reverse"
  ESet <- One
  Shapes1 <- Shapes22
  Shapes2 <- Shapes22
  Shapes3 <- Shapes22
  RSet1 <- One
  RSet2 <- One
  RSet3 <- One
  NCases = 1000000
INIT RandInit
NEXT RandNext
INVARIANT Emit
