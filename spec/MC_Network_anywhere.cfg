\* non-vacuity: if copies may be split off anywhere, TLC must find a shared value crossing a link twice
CONSTANTS
  Cases <- CasesTiny
  ReplicateAnywhere = TRUE
SPECIFICATION Spec
INVARIANT TypeOK
INVARIANT SharedValueOncePerLink
