--------------------------- MODULE Trace_ExprEval ---------------------------
(* Role C for C21: evaluation orders RECORDED from accelforge (every call of  *)
(* eval_field on a generated definition: scope, name, value returned) must be *)
(* behaviours of ExprEval: each recorded step is an EvalField step that is    *)
(* enabled (everything the field depends on already has a value) and yields   *)
(* the recorded value; a run that ended normally has evaluated every field, a *)
(* run that ended with EvaluationError left fields pending and the case has a *)
(* dependency cycle.                                                          *)
(*                                                                            *)
(* TRACE_FILE: JSON array of [defs |-> case, order |-> <<<<s, n, v>>, ...>>,  *)
(* outcome |-> "ok" | "error"].  All traces are consumed in ONE behaviour     *)
(* (t = index of the current trace, l = events consumed); a trace with an     *)
(* unmatched event or a wrong end state is put into bad and skipped.  The     *)
(* final state prints bad; the harness reports those traces.                  *)
EXTENDS ExprEval, Json, IOUtils

Tree6 == <<0, 1, 2, 3, 2, 5>>

Traces == JsonDeserialize(IOEnv.TRACE_FILE)
NT == Len(Traces)

VARIABLES t, l, bad
tvars == <<defs, val, pos, t, l, bad>>

Empty == [d \in {} |-> 0]

Load(i) == /\ defs' = IF i <= NT THEN Traces[i].defs ELSE <<>>
           /\ val' = Empty
           /\ pos' = IF i <= NT THEN [s \in 1..Len(Traces[i].defs) |-> 0] ELSE <<>>
           /\ t' = i
           /\ l' = 0

TInit == /\ t = 1 /\ l = 0 /\ bad = {}
         /\ defs = IF NT >= 1 THEN Traces[1].defs ELSE <<>>
         /\ val = Empty
         /\ pos = IF NT >= 1 THEN [s \in 1..Len(Traces[1].defs) |-> 0] ELSE <<>>

EndOK == IF Traces[t].outcome = "ok"
         THEN Pending = {}
         ELSE Pending # {} /\ HasCycle(defs)

Step == /\ t <= NT
        /\ l < Len(Traces[t].order)
        /\ LET ev == Traces[t].order[l + 1]
               d  == <<ev[1], ev[2]>>
           IN IF d \in Pending /\ Ready(d) /\ EvalNow(d[1], Expr(defs, d[1], d[2])) = ev[3]
              THEN EvalField(d) /\ l' = l + 1 /\ UNCHANGED <<t, bad>>
              ELSE Load(t + 1) /\ bad' = bad \cup {t}

Finish == /\ t <= NT
          /\ l = Len(Traces[t].order)
          /\ Load(t + 1)
          /\ bad' = IF EndOK /\ Confluent THEN bad ELSE bad \cup {t}

TNext == Step \/ Finish

Report == (t = NT + 1) => PrintT(ToJson([bad |-> bad, n |-> NT]))
=============================================================================
