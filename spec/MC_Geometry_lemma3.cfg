CONSTANTS
  Vars <- MCVars
  NV = 1
  MaxB = 1
  MaxCoef = 1
  MaxC = 0
  MaxRanks = 1
  MaxEins = 1
  N = 0
  LemK = 3
  LemHi = 1
INIT LemInit
NEXT ExhNext
INVARIANT BoxLemma
