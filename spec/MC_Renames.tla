----------------------------- MODULE MC_Renames -----------------------------
(* Case generators for C29.  Every printed record carries the rename tables *)
(* (where each entry is placed, its source string, its expected_count) and  *)
(* what Renames!Resolve / Renames!Rejected give.  The harness               *)
(* (checks/c29.py) builds the Spec and reads the evaluated renames.         *)
EXTENDS Renames, Json, IOUtils, Randomization

CONSTANTS NEin,     \* number of Einsums (prefix of the chain below)
          KindSeqs, \* exhaustive: set of kind sequences of the names, e.g. {<<"t">>, <<"r">>}
          SrcT,     \* exhaustive: sources of tensor renames
          SrcR,     \* exhaustive: sources of rank-variable renames
          Cnts,     \* exhaustive: expected_count values (-1 = none)
          N         \* random: number of cases

VARIABLES c, n
vars == <<c, n>>

Nm(x) == <<"n", x>>
Ein(ins, out) == [ins |-> ins, out |-> out]

\* E1: C = A,B    E2: D = C    E3: F = D,A,B
\* Inputs, Outputs, All, Nothing, ~Inputs ... differ in every Einsum, and their sizes
\* differ between Einsums, so that which entry was used is observable.
Chain == <<Ein({"A", "B"}, "C"), Ein({"C"}, "D"), Ein({"D", "A", "B"}, "F")>>
WOf(ne) == [ein |-> SubSeq(Chain, 1, ne), pers |-> {}, ren |-> <<>>]
\* constants: TLC evaluates them once
WsOf   == [ne \in 1..3 |-> WOf(ne)]
TabsOf == [ne \in 1..3 |-> [e \in 1..ne |-> Tab(WOf(ne), e)]]
RVars == {"m", "n"}
NameOf == <<"r1", "r2", "r3">>

ST3 == {Nm("Inputs"), Nm("Outputs"), Nm("All")}
ST2 == {Nm("Inputs"), Nm("All")}
SR3 == {Nm("m"), Nm("n"), <<"|", Nm("m"), Nm("n")>>}
SR2 == {Nm("m"), <<"|", Nm("m"), Nm("n")>>}
CntsNone == {-1}
Cnts12 == {-1, 1, 2}
K1 == {<<"t">>, <<"r">>}
K2 == {<<"t", "t">>, <<"t", "r">>}

Src(kind) == IF kind = "t" THEN SrcT ELSE SrcR
Entries(kind, ats) == {[at |-> a, src |-> s, cnt |-> k] : a \in ats, s \in Src(kind), k \in Cnts}
DfltOpts(kind) == {NoEntry} \cup Entries(kind, {"default"})
OwnOpts(kind)  == {NoEntry} \cup Entries(kind, {"local", "top"})

\* all sequences whose i-th element is in sets[i]
RECURSIVE SeqProd(_)
SeqProd(sets) ==
  IF Len(sets) = 0 THEN {<<>>}
  ELSE {Append(p, x) : p \in SeqProd(SubSeq(sets, 1, Len(sets) - 1)), x \in sets[Len(sets)]}

NamesOf(kinds) == [k \in 1..Len(kinds) |-> [name |-> NameOf[k], kind |-> kinds[k]]]

Case(ne, kinds, d, o) == [W |-> WsOf[ne], tab |-> TabsOf[ne], RV |-> RVars, names |-> NamesOf(kinds),
                          dflt |-> d, own |-> o]
ASSUME \A ne \in 1..3 : TabOK(Case(ne, <<>>, <<>>, [e \in 1..ne |-> <<>>]))

---------------------------------------------------------------------------
(* Exhaustive: every placement pattern (none / Einsum-local / top-level per *)
(* Einsum for every (Einsum, name); default or not for every name), every   *)
(* source and expected_count from the configured sets.                      *)
ExhInit ==
  /\ n = 0
  /\ \E kinds \in KindSeqs :
     \E d \in SeqProd([k \in 1..Len(kinds) |-> DfltOpts(kinds[k])]) :
     \E o \in SeqProd([e \in 1..NEin |-> SeqProd([k \in 1..Len(kinds) |-> OwnOpts(kinds[k])])]) :
        /\ c = Case(NEin, kinds, d, o)
        /\ ~Ambiguous(c)
ExhNext == UNCHANGED vars

EntryOut(en) == [at |-> en.at, src |-> Full(en.src), cnt |-> en.cnt]

Out(C) ==
  [k     |-> "ren",
   ein   |-> C.W.ein,
   rv    |-> C.RV,
   names |-> C.names,
   dflt  |-> [k \in 1..NN(C) |-> EntryOut(C.dflt[k])],
   own   |-> [e \in 1..NE(C) |-> [k \in 1..NN(C) |-> EntryOut(C.own[e][k])]],
   err   |-> Rejected(C),
   errI  |-> RejectedI(C),
   cells |-> [e \in 1..NE(C) |-> [k \in 1..NN(C) |->
                [via  |-> Via(C, e, k),
                 res  |-> Resolved(C, e, k),
                 val  |-> IF Resolved(C, e, k) THEN Resolve(C, e, k) ELSE {},
                 resI |-> ResolvedI(C, e, k),
                 valI |-> ResolveI(C, e, k)]]]]

Emit == PrintT(ToJson(Out(c)))

---------------------------------------------------------------------------
(* Random: 1-3 Einsums x 1-3 names, kinds, placements, sources (also        *)
(* compound ones) and counts drawn at random; reproducible under            *)
(* -simulate -seed.  The state holds the case; everything printed is        *)
(* computed from the state.                                                 *)
RST == <<Nm("Inputs"), Nm("Outputs"), Nm("All"), Nm("Nothing"), Nm("Intermediates"),
         <<"~", Nm("Inputs")>>, <<"&", Nm("Inputs"), Nm("Shared")>>, <<"-", Nm("All"), Nm("Intermediates")>>>>
RSR == <<Nm("m"), Nm("n"), <<"|", Nm("m"), Nm("n")>>, <<"~", Nm("m")>>, <<"&", Nm("m"), Nm("n")>>>>

RandSrc(kind) == IF kind = "t" THEN RST[RandomElement(1..Len(RST))] ELSE RSR[RandomElement(1..Len(RSR))]

SizeIn(ne, kind, src, e) ==
  IF kind = "t" THEN Cardinality(EvalT(src, TabsOf[ne][e], EinsumTensors(WsOf[ne], e))) ELSE Cardinality(EvalT(src, RankTab(RVars), RVars))

\* expected_count: mostly absent or right for one of the Einsums, sometimes arbitrary
RandCnt(ne, kind, src) ==
  LET r == RandomElement(1..20)
  IN IF r <= 10 THEN -1
     ELSE IF r <= 18 THEN SizeIn(ne, kind, src, RandomElement(1..ne))
     ELSE RandomElement(0..3)

RandEntry(ne, kind, at) == LET s == RandSrc(kind) IN [at |-> at, src |-> s, cnt |-> RandCnt(ne, kind, s)]

RandDflt(ne, kind) == IF RandomElement(1..10) <= 3 THEN NoEntry ELSE RandEntry(ne, kind, "default")
RandOwn(ne, kind) ==
  LET r == RandomElement(1..10)
  IN IF r <= 4 THEN NoEntry
     ELSE IF r <= 7 THEN RandEntry(ne, kind, "local") ELSE RandEntry(ne, kind, "top")

RECURSIVE RandKinds(_)
RandKinds(k) == IF k = 0 THEN <<>> ELSE Append(RandKinds(k - 1), IF RandomElement(1..3) = 1 THEN "r" ELSE "t")

RECURSIVE RandDflts(_, _, _)
RandDflts(ne, kinds, k) == IF k = 0 THEN <<>> ELSE Append(RandDflts(ne, kinds, k - 1), RandDflt(ne, kinds[k]))
RECURSIVE RandOwnRow(_, _, _)
RandOwnRow(ne, kinds, k) == IF k = 0 THEN <<>> ELSE Append(RandOwnRow(ne, kinds, k - 1), RandOwn(ne, kinds[k]))
RECURSIVE RandOwns(_, _, _)
RandOwns(ne, kinds, e) == IF e = 0 THEN <<>> ELSE Append(RandOwns(ne, kinds, e - 1), RandOwnRow(ne, kinds, Len(kinds)))

RandCaseK(ne, kinds) == Case(ne, kinds, RandDflts(ne, kinds, Len(kinds)), RandOwns(ne, kinds, ne))
RandCase(ne) == RandCaseK(ne, RandKinds(RandomElement(1..3)))

RandInit == /\ n = 0
            /\ c = Case(1, <<"t">>, <<NoEntry>>, <<<<NoEntry>>>>)
RandNext == /\ n < N
            /\ n' = n + 1
            /\ c' = RandCase(RandomElement(1..3))

\* the generator is checked, not trusted: shapes must fit and the case must be
\* inside the statement's domain, else nothing is printed
KindOK(kind, en) ==
  en.at = "none" \/ en.src \in (IF kind = "t" THEN {RST[i] : i \in 1..Len(RST)} ELSE {RSR[i] : i \in 1..Len(RSR)})
WellFormed(C) ==
  /\ C.W = WsOf[NE(C)] /\ C.tab = TabsOf[NE(C)]
  /\ Len(C.dflt) = NN(C) /\ Len(C.own) = NE(C)
  /\ \A e \in 1..NE(C) : Len(C.own[e]) = NN(C)
  /\ \A k \in 1..NN(C) : C.dflt[k].at \in {"none", "default"}
  /\ \A e \in 1..NE(C), k \in 1..NN(C) : C.own[e][k].at \in {"none", "local", "top"}
  /\ \A k \in 1..NN(C) : KindOK(C.names[k].kind, C.dflt[k])
  /\ \A e \in 1..NE(C), k \in 1..NN(C) : KindOK(C.names[k].kind, C.own[e][k])

RandEmit == IF n = 0 \/ ~WellFormed(c) \/ Ambiguous(c) THEN TRUE ELSE PrintT(ToJson(Out(c)))
=============================================================================
