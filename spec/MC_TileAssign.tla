---------------------------- MODULE MC_TileAssign ----------------------------
(***************************************************************************)
(* Every perfectly factorising tile-shape assignment of a pmapping template  *)
(* (properties C07, C08).  A template lists, per rank variable, the symbols   *)
(* of its loops from the outermost to the innermost one (the innermost loop  *)
(* of every rank variable has the fixed tile shape 1 and no symbol).         *)
(* An assignment gives every symbol a tile shape such that along each chain  *)
(*     bound % s_1 = 0,  s_1 % s_2 = 0,  ...   (every s >= 1)                *)
(* i.e. tile shapes divide the tile they sub-divide; equal neighbours (a     *)
(* loop with one iteration) are allowed.                                     *)
(* One initial state per (template, assignment); the assignment is printed.  *)
(***************************************************************************)
EXTENDS Integers, Sequences, FiniteSets, TLC, Json, IOUtils

Templates == JsonDeserialize(IOEnv.TEMPLATES_FILE)
\* template = [id, syms : sequence of symbol names, bound : [sym -> bound of its rank variable],
\*             outer : [sym -> name of the next-outer symbol of the same rank variable, or ""]]

Divisors(n) == {d \in 1..n : n % d = 0}

Assignments(t) ==
  LET S == {t.syms[i] : i \in 1..Len(t.syms)}
  IN {a \in [S -> 1..64] :
        \A s \in S : /\ a[s] \in Divisors(t.bound[s])
                     /\ (t.outer[s] # "" => a[t.outer[s]] % a[s] = 0)}

\* enumerating the function space directly is wasteful; build assignments symbol by symbol
RECURSIVE Build(_, _, _)
Build(t, k, partial) ==
  IF k > Len(t.syms) THEN {partial}
  ELSE LET s == t.syms[k]
           top == IF t.outer[s] = "" THEN t.bound[s] ELSE partial[t.outer[s]]
       IN UNION {Build(t, k + 1, partial @@ (s :> d)) : d \in Divisors(top)}

VARIABLES tid, asg
Init == /\ tid \in 1..Len(Templates)
        /\ asg \in Build(Templates[tid], 1, <<>>)
Next == UNCHANGED <<tid, asg>>
Spec == Init /\ [][Next]_<<tid, asg>>

Emit == PrintT(ToJson([id |-> Templates[tid].id,
                       asg |-> [k \in 1..Len(Templates[tid].syms) |-> asg[Templates[tid].syms[k]]]]))

\* role-A sanity: the incremental construction equals the declarative definition (small templates only)
BuildIsDefinition ==
  (Len(Templates[tid].syms) <= 3) => Build(Templates[tid], 1, <<>>) = Assignments(Templates[tid])
=============================================================================
