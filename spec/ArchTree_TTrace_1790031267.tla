---- MODULE ArchTree_TTrace_1790031267 ----
EXTENDS ArchTree, Sequences, TLCExt, Toolbox, Naturals, TLC

_expression ==
    LET ArchTree_TEExpression == INSTANCE ArchTree_TEExpression
    IN ArchTree_TEExpression!expression
----

_trace ==
    LET ArchTree_TETrace == INSTANCE ArchTree_TETrace
    IN ArchTree_TETrace!trace
----

_inv ==
    ~(
        TLCGet("level") = Len(_TETrace)
        /\
        st = ([lists |-> <<<<1>>>>, at |-> <<1, 1, 1, 1>>, ys |-> <<[n |-> 1, l |-> 1, seen |-> <<>>]>>])
        /\
        pc = (2)
        /\
        tree = (<<[f |-> 3, k |-> "Compute", d |-> 1]>>)
    )
----

_init ==
    /\ pc = _TETrace[1].pc
    /\ tree = _TETrace[1].tree
    /\ st = _TETrace[1].st
----

_next ==
    /\ \E i,j \in DOMAIN _TETrace:
        /\ \/ /\ j = i + 1
              /\ i = TLCGet("level")
        /\ pc  = _TETrace[i].pc
        /\ pc' = _TETrace[j].pc
        /\ tree  = _TETrace[i].tree
        /\ tree' = _TETrace[j].tree
        /\ st  = _TETrace[i].st
        /\ st' = _TETrace[j].st

\* Uncomment the ASSUME below to write the states of the error trace
\* to the given file in Json format. Note that you can pass any tuple
\* to `JsonSerialize`. For example, a sub-sequence of _TETrace.
    \* ASSUME
    \*     LET J == INSTANCE Json
    \*         IN J!JsonSerialize("ArchTree_TTrace_1790031267.json", _TETrace)

=============================================================================

 Note that you can extract this module `ArchTree_TEExpression`
  to a dedicated file to reuse `expression` (the module in the 
  dedicated `ArchTree_TEExpression.tla` file takes precedence 
  over the module `ArchTree_TEExpression` below).

---- MODULE ArchTree_TEExpression ----
EXTENDS ArchTree, Sequences, TLCExt, Toolbox, Naturals, TLC

expression == 
    [
        \* To hide variables of the `ArchTree` spec from the error trace,
        \* remove the variables below.  The trace will be written in the order
        \* of the fields of this record.
        pc |-> pc
        ,tree |-> tree
        ,st |-> st
        
        \* Put additional constant-, state-, and action-level expressions here:
        \* ,_stateNumber |-> _TEPosition
        \* ,_pcUnchanged |-> pc = pc'
        
        \* Format the `pc` variable as Json value.
        \* ,_pcJson |->
        \*     LET J == INSTANCE Json
        \*     IN J!ToJson(pc)
        
        \* Lastly, you may build expressions over arbitrary sets of states by
        \* leveraging the _TETrace operator.  For example, this is how to
        \* count the number of times a spec variable changed up to the current
        \* state in the trace.
        \* ,_pcModCount |->
        \*     LET F[s \in DOMAIN _TETrace] ==
        \*         IF s = 1 THEN 0
        \*         ELSE IF _TETrace[s].pc # _TETrace[s-1].pc
        \*             THEN 1 + F[s-1] ELSE F[s-1]
        \*     IN F[_TEPosition - 1]
    ]

=============================================================================



Parsing and semantic processing can take forever if the trace below is long.
 In this case, it is advised to uncomment the module below to deserialize the
 trace from a generated binary file.

\*
\*---- MODULE ArchTree_TETrace ----
\*EXTENDS ArchTree, IOUtils, TLC
\*
\*trace == IODeserialize("ArchTree_TTrace_1790031267.bin", TRUE)
\*
\*=============================================================================
\*

---- MODULE ArchTree_TETrace ----
EXTENDS ArchTree, TLC

trace == 
    <<
    ([st |-> [lists |-> <<<<>>>>, at |-> <<1, 1, 1, 1>>, ys |-> <<>>],pc |-> 0,tree |-> <<>>]),
    ([st |-> [lists |-> <<<<>>>>, at |-> <<1, 1, 1, 1>>, ys |-> <<>>],pc |-> 0,tree |-> <<[f |-> 3, k |-> "Compute", d |-> 1]>>]),
    ([st |-> [lists |-> <<<<>>>>, at |-> <<1, 1, 1, 1>>, ys |-> <<>>],pc |-> 1,tree |-> <<[f |-> 3, k |-> "Compute", d |-> 1]>>]),
    ([st |-> [lists |-> <<<<1>>>>, at |-> <<1, 1, 1, 1>>, ys |-> <<[n |-> 1, l |-> 1, seen |-> <<>>]>>],pc |-> 2,tree |-> <<[f |-> 3, k |-> "Compute", d |-> 1]>>])
    >>
----


=============================================================================

---- CONFIG ArchTree_TTrace_1790031267 ----
CONSTANTS
    MaxN = 4
    MaxDepth = 4
    LeafKinds = { "Memory" , "Container" , "Compute" }
    BranchKinds = { "Fork" , "Hierarchical" }
    Fanouts = { 1 , 2 }
    ComputeFanouts = { 1 , 3 }
    MinEmit = 1
    AppendComputes = TRUE
    CountOwn = FALSE

INVARIANT
    _inv

CHECK_DEADLOCK
    \* CHECK_DEADLOCK off because of PROPERTY or INVARIANT above.
    FALSE

INIT
    _init

NEXT
    _next

CONSTANT
    _TETrace <- _trace

ALIAS
    _expression
=============================================================================
\* Generated on Mon Sep 21 22:54:37 UTC 2026