---------------------------- MODULE Trace_Mapping ----------------------------
(***************************************************************************)
(* Code -> spec (binding C): LoopTrees RETURNED by the real mapper are       *)
(* recorded structurally (node kinds, components, tensors, rank variables,   *)
(* tile shapes -- no derived values) together with what the implementation   *)
(* REPORTED for them, and are executed here by the LoopNest machine with all *)
(* its invariants.  One behaviour per recorded case; the verdict of every    *)
(* clause is printed when the execution finishes (total verdicts).           *)
(*                                                                          *)
(* case = [id, world, nodes,                                                 *)
(*         join  |-> [energy, latency]   (<<num,den>>; joiner-reported),      *)
(*         model |-> [energy, latency]   (<<num,den>>; model-reported)]       *)
(***************************************************************************)
EXTENDS LoopNest, CostModel, Json, IOUtils

TCases == JsonDeserialize(IOEnv.CASES_FILE)

VARIABLE cid   \* index of the case this behaviour executes

tvars == <<W, nodes, phase, xvars, cid>>

SetX0(x) == /\ pc = x.pc /\ dir = x.dir /\ idx = x.idx /\ rd = x.rd /\ wr = x.wr
            /\ macs = x.macs /\ valid = x.valid /\ step = x.step /\ since = x.since /\ first = x.first
            /\ last = x.last /\ live = x.live /\ pts = x.pts

\* structural well-formedness is decided BEFORE execution; an ill-formed tree is not executed
StructOK(c) == 
  /\ \A j \in 1..Len(c.nodes) : c.nodes[j].kind \in {"S", "T", "P", "C"}
  /\ WellFormed(c.world, c.nodes)

TInit ==
  /\ cid \in 1..Len(TCases)
  /\ W = TCases[cid].world
  /\ nodes = TCases[cid].nodes
  /\ phase = IF StructOK(TCases[cid]) THEN "exec" ELSE "illformed"
  /\ SetX0(ExecStart(TCases[cid].world, Len(TCases[cid].nodes)))

TNext == (EnterHolder \/ EnterLoop \/ DoCompute \/ AdvanceLoop \/ ExitHolder \/ Finish) /\ UNCHANGED cid

TSpec == TInit /\ [][TNext]_tvars

----------------------------------------------------------------------------
AsSetT(seq) == {seq[i] : i \in 1..Len(seq)}
HeldT(m) == {nodes[j].t : j \in {i \in 1..Len(nodes) : IsHolder(nodes[i]) /\ nodes[i].mem = m}}
PeakOfT(m) == IF DOMAIN live[m] = {} THEN 0 ELSE Max({live[m][s] : s \in DOMAIN live[m]})

RECURSIVE BoundProdT(_, _)
BoundProdT(w, S) == IF S = {} THEN 1 ELSE LET r == CHOOSE y \in S : TRUE IN w.bound[r] * BoundProdT(w, S \ {r})

OnceT == /\ Cardinality(DOMAIN pts) = BoundProdT(W, DOMAIN W.bound)
         /\ \A q \in DOMAIN pts : pts[q] = 1

\* every tensor in a memory's keep set has a holder there
KeepT == \A m \in DOMAIN W.level : AsSetT(W.keep[m]) \subseteq HeldT(m)
\* nothing is held that neither keep nor may_keep allows (outermost memory backs everything)
MayT == \A m \in DOMAIN W.level :
          HeldT(m) \subseteq (AsSetT(W.keep[m]) \cup AsSetT(W.maykeep[m]) \cup (IF W.level[m] = 0 THEN AsSetT(W.tensors) ELSE {}))
\* capacity: neither the execution-time peak nor the reserved footprint exceeds a finite size
CapT == \A m \in DOMAIN W.level :
          (W.size[m] > 0 /\ ~W.istoll[m]) => (PeakOfT(m) <= W.size[m] /\ FootprintBits(W, nodes, m) <= W.size[m])
\* a Toll is never the outermost holder of a tensor
TollT == \A j \in 1..(Len(nodes)-1) : IsToll(W, nodes[j]) => ParentHolder(nodes, j, nodes[j].t) # 0

\* ---- spatial fanout and loop-bound constraints (world fields fanout, lbs; absent = none)
SpatialLoops(comp, dim) == {j \in 1..(Len(nodes)-1) : nodes[j].kind = "P" /\ nodes[j].mem = comp /\ nodes[j].dim = dim}
RECURSIVE ProdIters(_)
ProdIters(S) == IF S = {} THEN 1 ELSE LET j == CHOOSE y \in S : TRUE IN Iters(W, nodes, j) * ProdIters(S \ {j})
HasSpatial == "fanout" \in DOMAIN W
FanoutT == HasSpatial =>
  \A f \in {W.fanout[k] : k \in 1..Len(W.fanout)} : ProdIters(SpatialLoops(f.comp, f.dim)) <= f.n
Cmp(op, a, b) == CASE op = "==" -> a = b [] op = "<=" -> a <= b [] op = ">=" -> a >= b
                   [] op = "<" -> a < b [] op = ">" -> a > b
\* a constraint speaks about the spatial loops of its dimension over the rank variables it names.  The mapper's
\* templates carry one spatial loop per rank variable and dimension and the returned tree omits loops with one
\* iteration, so a rank variable without such a loop has bound 1 (ProdIters({}) = 1) and is judged as such.
LbOK(c) ==
  LET Lv(v) == {j \in SpatialLoops(c.comp, c.dim) : nodes[j].rv = v}
      L == UNION {Lv(c.vars[k]) : k \in 1..Len(c.vars)}
  IN IF c.product
     THEN Cmp(c.op, ProdIters(L), c.value)
     ELSE \A k \in 1..Len(c.vars) : Cmp(c.op, ProdIters(Lv(c.vars[k])), c.value)
BoundsT == ("lbs" \in DOMAIN W) => \A k \in 1..Len(W.lbs) : LbOK(W.lbs[k])

ReqEq(a, b) == a[1] * b[2] = b[1] * a[2]

Verdict ==
  LET c == TCases[cid]
      tab == ActionTable(W, rd, wr)
      e == TotalEnergy(W, tab, macs)
      l == TotalLatency(W, tab, macs)
  IN [id |-> c.id, wellformed |-> TRUE, once |-> OnceT, keep |-> KeepT, may |-> MayT, cap |-> CapT, toll |-> TollT,
      fanout |-> FanoutT, bounds |-> BoundsT,
      energy |-> e, latency |-> l,
      join_energy_ok |-> ReqEq(c.join.energy, e), join_latency_ok |-> ReqEq(c.join.latency, l),
      model_energy_ok |-> ReqEq(c.model.energy, e), model_latency_ok |-> ReqEq(c.model.latency, l),
      join_model_energy_eq |-> ReqEq(c.join.energy, c.model.energy),
      join_model_latency_eq |-> ReqEq(c.join.latency, c.model.latency),
      footprint |-> [m \in DOMAIN W.level |-> FootprintBits(W, nodes, m)],
      peak |-> [m \in DOMAIN W.level |-> PeakOfT(m)]]

TEmit ==
  /\ (phase = "done" => PrintT(ToJson(Verdict)))
  /\ (phase = "illformed" => PrintT(ToJson([id |-> TCases[cid].id, wellformed |-> FALSE])))
=============================================================================
