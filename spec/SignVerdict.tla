---------------------------- MODULE SignVerdict ----------------------------
(***************************************************************************)
(* Property C09: sign verdicts of symbolic formulas over an integer box.    *)
(*                                                                          *)
(* A formula is an AST (records, as deserialised from JSON):                *)
(*   [h |-> "int",  v |-> 3]            integer constant                    *)
(*   [h |-> "rat",  n |-> 1, d |-> 2]   rational constant n/d, d > 0        *)
(*   [h |-> "sym",  v |-> 2]            the 2nd symbol of the box           *)
(*   [h |-> "add",  a |-> <<e1, ...>>]  sum                                 *)
(*   [h |-> "mul",  a |-> <<e1, ...>>]  product                             *)
(*   [h |-> "pow",  a |-> <<e>>, k |-> -2]   integer power (k < 0: quotient)*)
(*   [h |-> "ceil" / "floor", a |-> <<e>>]                                  *)
(*   [h |-> "min" / "max",    a |-> <<e1, ...>>]                            *)
(*   [h |-> "heav", a |-> <<e>>]        Heaviside step, H(0) = 1/2          *)
(*                                                                          *)
(* Values are exact rationals <<num, den>> with den > 0.                    *)
(* TLC integers are 32 bit: every product is guarded, and a value that      *)
(* cannot be represented -- or a division by zero -- is Bad = <<0, 0>>,     *)
(* which propagates; a case with a Bad value is reported "undefined" and    *)
(* decides nothing.                                                         *)
(***************************************************************************)
EXTENDS Integers, Sequences, FiniteSets

Lim == 1073741823                     \* 2^30 - 1
Bad == <<0, 0>>
IsBad(x) == x[2] = 0
Abs(x) == IF x < 0 THEN -x ELSE x
Fits(a, b) == a = 0 \/ b = 0 \/ Abs(a) <= Lim \div Abs(b)

RECURSIVE GCD(_, _)
GCD(a, b) == IF b = 0 THEN a ELSE GCD(b, a % b)

\* n/d in lowest terms, d # 0
Norm(n, d) ==
  LET g == GCD(Abs(n), Abs(d))
      s == IF d < 0 THEN -1 ELSE 1
  IN <<s * (n \div g), s * (d \div g)>>      \* \div is exact here

RInt(k) == <<k, 1>>

(* Values are kept with |num| <= Lim and 0 < den <= Lim, not necessarily in    *)
(* lowest terms (only signs and cross-multiplied comparisons are ever used);  *)
(* they are reduced only when a product would not fit.                        *)
Clip(x) ==
  IF Abs(x[1]) <= Lim /\ x[2] <= Lim THEN x
  ELSE LET r == Norm(x[1], x[2]) IN IF Abs(r[1]) <= Lim /\ r[2] <= Lim THEN r ELSE Bad

RMul(x, y) ==
  IF IsBad(x) \/ IsBad(y) THEN Bad
  ELSE IF Fits(x[1], y[1]) /\ Fits(x[2], y[2]) THEN <<x[1] * y[1], x[2] * y[2]>>
  ELSE LET g1 == GCD(Abs(x[1]), y[2])
           g2 == GCD(Abs(y[1]), x[2])
           a == x[1] \div g1  b == y[1] \div g2
           c == x[2] \div g2  d == y[2] \div g1
       IN IF Fits(a, b) /\ Fits(c, d) THEN <<a * b, c * d>> ELSE Bad

RAdd(x, y) ==
  IF IsBad(x) \/ IsBad(y) THEN Bad
  ELSE IF x[2] = y[2] THEN Clip(<<x[1] + y[1], x[2]>>)
  ELSE IF Fits(x[1], y[2]) /\ Fits(y[1], x[2]) /\ Fits(x[2], y[2])
       THEN Clip(<<x[1] * y[2] + y[1] * x[2], x[2] * y[2]>>)
  ELSE LET g  == GCD(x[2], y[2])
           mx == y[2] \div g
           my == x[2] \div g
       IN IF Fits(x[1], mx) /\ Fits(y[1], my) /\ Fits(x[2], mx)
          THEN Clip(Norm(x[1] * mx + y[1] * my, x[2] * mx))
          ELSE Bad

RInv(x) == IF IsBad(x) \/ x[1] = 0 THEN Bad
           ELSE IF x[1] > 0 THEN <<x[2], x[1]>> ELSE <<-x[2], -x[1]>>

RECURSIVE RPowN(_, _)
RPowN(x, k) == IF k = 0 THEN RInt(1) ELSE RMul(x, RPowN(x, k - 1))
RPow(x, k) == IF k >= 0 THEN RPowN(x, k) ELSE RPowN(RInv(x), -k)

\* floor division: a \div b is the floor of a/b for b > 0
RFloor(x) == IF IsBad(x) THEN Bad ELSE RInt(x[1] \div x[2])
RCeil(x)  == IF IsBad(x) THEN Bad ELSE RInt(-((-x[1]) \div x[2]))

Comparable(x, y) == ~IsBad(x) /\ ~IsBad(y) /\ Fits(x[1], y[2]) /\ Fits(y[1], x[2])
RLeq(x, y) == x[1] * y[2] <= y[1] * x[2]       \* only for Comparable(x, y)
RMin(x, y) == IF ~Comparable(x, y) THEN Bad ELSE IF RLeq(x, y) THEN x ELSE y
RMax(x, y) == IF ~Comparable(x, y) THEN Bad ELSE IF RLeq(x, y) THEN y ELSE x

-----------------------------------------------------------------------------
(* Evaluation.  m is the MODE [heav, ceil]:                                  *)
(*   heav = "real": the Heaviside step;  "one" / "zero": every Heaviside     *)
(*          term replaced by 1 / by 0 (what the implementation evaluates)    *)
(*   ceil = "real": ceiling and floor;   "id": ceiling(x) replaced by x      *)
(* Only the "real" mode decides; the other modes classify a violation.       *)
Real == [heav |-> "real", ceil |-> "real"]

RHeav(x, m) ==
  CASE m.heav = "one"  -> RInt(1)
    [] m.heav = "zero" -> RInt(0)
    [] OTHER -> IF IsBad(x) THEN Bad
                ELSE IF x[1] > 0 THEN RInt(1) ELSE IF x[1] < 0 THEN RInt(0) ELSE <<1, 2>>

RECURSIVE Eval(_, _, _), Sum(_, _, _, _), Prod(_, _, _, _), MinOf(_, _, _, _), MaxOf(_, _, _, _)
Eval(e, p, m) ==
  CASE e.h = "int"   -> RInt(e.v)
    [] e.h = "rat"   -> <<e.n, e.d>>
    [] e.h = "sym"   -> RInt(p[e.v])
    [] e.h = "add"   -> Sum(e.a, p, m, Len(e.a))
    [] e.h = "mul"   -> Prod(e.a, p, m, Len(e.a))
    [] e.h = "pow"   -> RPow(Eval(e.a[1], p, m), e.k)
    [] e.h = "ceil"  -> IF m.ceil = "id" THEN Eval(e.a[1], p, m) ELSE RCeil(Eval(e.a[1], p, m))
    [] e.h = "floor" -> RFloor(Eval(e.a[1], p, m))
    [] e.h = "min"   -> MinOf(e.a, p, m, Len(e.a))
    [] e.h = "max"   -> MaxOf(e.a, p, m, Len(e.a))
    [] e.h = "heav"  -> RHeav(Eval(e.a[1], p, m), m)
Sum(a, p, m, k)   == IF k = 0 THEN RInt(0) ELSE RAdd(Sum(a, p, m, k - 1), Eval(a[k], p, m))
Prod(a, p, m, k)  == IF k = 0 THEN RInt(1) ELSE RMul(Prod(a, p, m, k - 1), Eval(a[k], p, m))
MinOf(a, p, m, k) == IF k = 1 THEN Eval(a[1], p, m) ELSE RMin(MinOf(a, p, m, k - 1), Eval(a[k], p, m))
MaxOf(a, p, m, k) == IF k = 1 THEN Eval(a[1], p, m) ELSE RMax(MaxOf(a, p, m, k - 1), Eval(a[k], p, m))

-----------------------------------------------------------------------------
(* The box: b is a sequence of [lo, hi], one per symbol; a point is a        *)
(* sequence of integers.                                                     *)
RECURSIVE BoxTo(_, _)
BoxTo(b, k) == IF k = 0 THEN {<<>>}
               ELSE {Append(q, v) : q \in BoxTo(b, k - 1), v \in b[k].lo .. b[k].hi}
Box(b) == BoxTo(b, Len(b))

\* what can be said about the sign of e over the whole box
Signs(e, b, m) ==
  LET vals == {Eval(e, p, m) : p \in Box(b)} IN
  [defined |-> \A x \in vals : ~IsBad(x),
   geq |-> \A x \in vals : ~IsBad(x) /\ x[1] >= 0,
   leq |-> \A x \in vals : ~IsBad(x) /\ x[1] <= 0,
   eq  |-> \A x \in vals : ~IsBad(x) /\ x[1] = 0]

(* THE PROPERTY: a verdict is admissible iff it is "unknown" or the          *)
(* statement it makes holds at EVERY integer point of the box.               *)
Admissible(s, v) ==
  CASE v = "unknown" -> TRUE
    [] v = "geq" -> s.geq
    [] v = "leq" -> s.leq
    [] v = "eq"  -> s.eq

VerdictOK(e, b, v) == Admissible(Signs(e, b, Real), v)

(* Caller-side precondition of terms_do_not_cross_zero=True: every additive   *)
(* term of the formula keeps one sign over the box, and it is the same sign   *)
(* for all of them.                                                           *)
Terms(e) == IF e.h = "add" THEN e.a ELSE <<e>>
PreOK(e, b) ==
  LET S == [i \in 1..Len(Terms(e)) |-> Signs(Terms(e)[i], b, Real)] IN
  \/ \A i \in 1..Len(Terms(e)) : S[i].geq
  \/ \A i \in 1..Len(Terms(e)) : S[i].leq

(* Finite-difference monotonicity in the s-th symbol (reported, not decisive) *)
Step(p, s) == [p EXCEPT ![s] = p[s] + 1]
Mono(e, b, s) ==
  LET P  == {p \in Box(b) : p[s] < b[s].hi}
      ok == \A p \in P : Comparable(Eval(e, p, Real), Eval(e, Step(p, s), Real))
  IN [defined |-> ok,
      up   |-> ok /\ \A p \in P : RLeq(Eval(e, p, Real), Eval(e, Step(p, s), Real)),
      down |-> ok /\ \A p \in P : RLeq(Eval(e, Step(p, s), Real), Eval(e, p, Real))]

HasHead(e, h) == LET RECURSIVE Has(_)
                     Has(x) == x.h = h \/ (x.h \notin {"int", "rat", "sym"} /\ \E i \in 1..Len(x.a) : Has(x.a[i]))
                 IN Has(e)
=============================================================================
