CONSTANTS
  Vars <- MCVars
  NV = 2
  MaxB = 3
  MaxCoef = 2
  MaxC = 1
  MaxRanks = 2
  MaxEins = 1
  N = 0
  LemK = 1
  LemHi = 1
INIT ExhInit
NEXT ExhNext
INVARIANT Emit
INVARIANT Consistent
