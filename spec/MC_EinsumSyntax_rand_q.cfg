CONSTANTS
  MaxIn = 1
  OutK = 1
  InK = 1
  NEnt = 5
  MaxWS = 400
  MalWS = 400
  WS <- WS3
  N = 500
INIT RandInit
NEXT RandNext
INVARIANT EmitResult
INVARIANT RoundTrip
INVARIANT MalformedIsMalformed
INVARIANT TypeOK
