\* thorough: every 4-row table over 3 values for 2-column schemas x all tolerances
CONSTANTS
  R = 4
  Vals = {4, 5, 8}
  DVals = {1, 2}
  SchemaIds = {1, 2, 3}
  TolIds = {1, 2, 3, 4, 5, 6, 7, 8, 9, 10, 11, 12}
  ConstIds = {4}
  N = 0
INIT ExhInit
NEXT ExhNext
INVARIANT Emit
