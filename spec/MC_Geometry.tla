---------------------------- MODULE MC_Geometry ----------------------------
(* Case generators for C24.  Every state is one workload (1-3 Einsums over   *)
(* box iteration spaces, affine projections a*x + b*y + c) together with the *)
(* geometry that module Geometry assigns to it BY ENUMERATION.  The harness  *)
(* (checks/c24.py) builds the same Workload in accelforge and compares.      *)
EXTENDS Geometry, TLC, Json

CONSTANTS NV,        \* number of rank variables in play (Vars <- MCVars)
          MaxCoef,   \* coefficients are 1..MaxCoef (0 = variable absent)
          MaxC,      \* constant offsets are 0..MaxC
          MaxRanks,  \* ranks per tensor 1..MaxRanks
          MaxEins,   \* Einsums per workload 1..MaxEins (random generator)
          N          \* number of random cases

VARIABLES W,   \* the case: [bnd, eins, style]
          rv,  \* the random numbers W was built from (random generator only)
          n

vars == <<W, rv, n>>

AllVars == <<"x", "y", "z", "w">>
MCVars  == {AllVars[i] : i \in 1..NV}

Pure(v) == [cx |-> [u \in Vars |-> IF u = v THEN 1 ELSE 0], c |-> 0]

-----------------------------------------------------------------------------
(* What the spec says about a case                                           *)
Triples(e) == {t \in (1..Len(e)) \X (1..MaxRanks) \X Vars :
                 /\ t[2] <= Len(e[t[1]].proj)
                 /\ t[3] \in VarsOfAff(e[t[1]].proj[t[2]])}

EinsumView(bnd, e) ==
  LET U == VarsOfEinsum(e)
      P == Space(bnd, U)
  IN
  [acc    |-> e,
   vars   |-> U,
   bounds |-> [v \in U |-> Bound(P, v)],
   ops    |-> Ops(P),
   sh     |-> {LET aff == e[t[1]].proj[t[2]]
                   pin == Pinned(P, aff, t[3])
               IN [a |-> t[1], i |-> t[2], v |-> t[3],
                   stride |-> Step(aff, U, t[3]),
                   halo   |-> ExtraExtent(pin),
                   delta  |-> InitialDelta(pin)] : t \in Triples(e)},
   img    |-> [a \in 1..Len(e) |->
                 LET S == Image(P, e[a].proj)
                     k == Len(e[a].proj)
                 IN [card |-> Cardinality(S), box |-> IsBox(S, k),
                     origin |-> StartsAtOrigin(S, k)]]]

View(w) ==
  LET E == [k \in 1..Len(w.eins) |-> EinsumView(w.bnd, w.eins[k])] IN
  [bnd |-> w.bnd, style |-> w.style, eins |-> E,
   total_ops |-> SumOver(1..Len(E), [k \in 1..Len(E) |-> E[k].ops])]

Emit == PrintT(ToJson(View(W)))

\* a generated workload is well formed: a tensor that occurs in several Einsums has the
\* same set of elements through each of its accesses, so "the size of the tensor" is
\* unambiguous whichever access is taken as the defining one.
Consistent ==
  \A k1, k2 \in 1..Len(W.eins) :
    \A a1 \in 1..Len(W.eins[k1]), a2 \in 1..Len(W.eins[k2]) :
      (k1 < k2 /\ W.eins[k1][a1].t = W.eins[k2][a2].t) =>
        Image(Space(W.bnd, VarsOfEinsum(W.eins[k1])), W.eins[k1][a1].proj)
          = Image(Space(W.bnd, VarsOfEinsum(W.eins[k2])), W.eins[k2][a2].proj)

-----------------------------------------------------------------------------
(* Exhaustive: one Einsum  O[x, y, ..] = T[...]; every bound vector, every     *)
(* projection of T with 1..MaxRanks ranks, each a*u + b*v + c with at most two *)
(* variables.                                                                *)
\* (operators with a parameter, so that TLC does not pre-compute them for the big random configs)
Affs(V) == {a \in [cx : [V -> 0..MaxCoef], c : 0..MaxC] :
           /\ VarsOfAff(a) # {}
           /\ Cardinality(VarsOfAff(a)) <= 2}
Projs(V) == UNION {[1..k -> Affs(V)] : k \in 1..MaxRanks}
OutAll(V) == [i \in 1..Cardinality(V) |-> Pure(AllVars[i])]

\* (how the box is declared to the implementation -- style 0/1 -- alternates with the case)
ExhInit == /\ \E bnd \in [Vars -> 1..MaxB], pr \in Projs(Vars) :
                W = [bnd |-> bnd,
                     style |-> (SumOver(Vars, bnd) + Len(pr) + SumOver(1..Len(pr), [i \in 1..Len(pr) |-> pr[i].c])) % 2,
                     eins |-> << << [t |-> "T", proj |-> pr],
                                    [t |-> "O", proj |-> OutAll(Vars)] >> >>]
           /\ rv = <<>>
           /\ n = 0
ExhNext == UNCHANGED vars

-----------------------------------------------------------------------------
(* Random: the case is a deterministic function of a vector of random          *)
(* naturals drawn in the step (so every random draw is used exactly once and   *)
(* -seed reproduces the run).                                                  *)
NR == 220
Big == 720

Nth(U, k) == SelectSeq(AllVars, LAMBDA v : v \in U)[k + 1]      \* k = 0..|U|-1

\* the variable pool of an Einsum: a non-empty subset of Vars with at most 3 elements,
\* read off the bits of m
Pool(m) == LET bits == 1 + (m % (2^NV - 1))
               U == {AllVars[i] : i \in {j \in 1..NV : (bits \div 2^(j-1)) % 2 = 1}}
           IN IF Cardinality(U) > 3 THEN U \ {AllVars[1 + (m % NV)]} ELSE U

Coef(r) == IF r % 2 = 0 THEN 1 ELSE 1 + ((r \div 2) % MaxCoef)
Offs(r) == IF r % 3 # 0 THEN 0 ELSE (r \div 3) % (MaxC + 1)

MkAff(r, b, U) ==
  LET m   == Cardinality(U)
      v1  == Nth(U, r[b] % m)
      two == m >= 2 /\ r[b + 1] % 2 = 1
      v2  == IF two THEN Nth(U \ {v1}, r[b + 2] % (m - 1)) ELSE v1
  IN [cx |-> [u \in Vars |-> IF u = v1 THEN Coef(r[b + 3])
                              ELSE IF two /\ u = v2 THEN Coef(r[b + 4]) ELSE 0],
      c  |-> Offs(r[b + 5])]

\* slot of (einsum e, access a, rank i): 6 numbers each; accesses 1,2 inputs, 3 output
Slot(e, a, i) == 20 + (((e - 1) * 3 + (a - 1)) * 3 + (i - 1)) * 6
Ctl(e, a)     == 200 + ((e - 1) * 3 + (a - 1)) * 2     \* 2 control numbers per access

MkProj(r, e, a, U) ==
  LET k == 1 + (r[Ctl(e, a)] % MaxRanks)
  IN [i \in 1..k |-> MkAff(r, Slot(e, a, i), U)]

InNames  == << <<"A1", "B1">>, <<"A2", "B2">>, <<"A3", "B3">> >>
OutNames == <<"T1", "T2", "T3">>

RECURSIVE MkEinsums(_, _, _)
\* prev = Einsums built so far
MkEinsums(r, e, prev) ==
  IF e > 1 + (r[1] % MaxEins) THEN prev
  ELSE
    LET U    == Pool(r[10 + e])
        nin  == 1 + (r[14 + e] % 2)
        \* first input: the previous Einsum's output, read exactly as it was written
        chain == e > 1 /\ r[Ctl(e, 1) + 1] % 2 = 0
        in1  == IF chain THEN prev[e - 1][Len(prev[e - 1])]
                ELSE [t |-> InNames[e][1], proj |-> MkProj(r, e, 1, U)]
        \* second input: sometimes the first Einsum's first input again (shared input)
        share == e > 1 /\ r[Ctl(e, 2) + 1] % 4 = 0 /\ prev[1][1].t # in1.t
        in2  == IF share THEN prev[1][1]
                ELSE [t |-> InNames[e][2], proj |-> MkProj(r, e, 2, U)]
        out  == [t |-> OutNames[e], proj |-> MkProj(r, e, 3, U)]
        ein  == IF nin = 1 THEN <<in1, out>> ELSE <<in1, in2, out>>
    IN MkEinsums(r, e + 1, Append(prev, ein))

Build(r) == [bnd   |-> [v \in Vars |-> 1 + (r[2 + (CHOOSE i \in 1..NV : AllVars[i] = v)] % MaxB)],
             style |-> r[2] % 2,
             eins  |-> MkEinsums(r, 1, <<>>)]

RECURSIVE DrawTo(_)
\* a tuple (built eagerly with Append, so every number is drawn exactly once)
DrawTo(k) == IF k = 0 THEN <<>> ELSE Append(DrawTo(k - 1), RandomElement(0..(Big - 1)))
\* (the parameter keeps TLC from evaluating this once and for all as a constant)
Draw(k) == DrawTo(NR + 0 * k)

RandInit == /\ rv = Draw(0)
            /\ W = Build(rv)
            /\ n = 0
RandNext == /\ n < N
            /\ n' = n + 1
            /\ rv' = Draw(n)
            /\ W' = Build(rv')

-----------------------------------------------------------------------------
(* Lemma (role A for the definitions): "equals its bounding box" and "has as   *)
(* many points as its bounding box" are the same predicate; checked for every  *)
(* non-empty subset of a small grid.                                           *)
CONSTANTS LemK, LemHi
LemInit == /\ W \in (SUBSET [1..LemK -> 0..LemHi]) \ {{}}
           /\ rv = <<>>
           /\ n = 0
BoxLemma == IsBoxDef(W, LemK) = IsBox(W, LemK)
=============================================================================
