\* exhaustive: the small one-symbol grammar (12 terms; t, -t, t+t', t-t', Max, Min) x boxes 1..4, 1..8
CONSTANTS
  NS = 1
  His = {4, 8}
  Los = {1}
  N = 0
  Small = TRUE
INIT Init
NEXT Next
INVARIANT Emit
