------------------------------- MODULE Pareto -------------------------------
(***************************************************************************)
(* Dominance, Pareto fronts and the sort-filter-scan (SFS) algorithm that   *)
(* accelforge's fast_pareto.py implements.                                  *)
(*                                                                          *)
(* A matrix is a sequence of rows, a row a sequence of abstract values.     *)
(* Abstract values are integers; the harness maps them to floats with a     *)
(* strictly increasing injective map (so <, =, > are preserved), which is   *)
(* all that dominance depends on.  Prime-factor goals look at the integer   *)
(* itself.                                                                  *)
(***************************************************************************)
EXTENDS Integers, Sequences, FiniteSets

GoalNames == {"min", "max", "diff", "min_per_prime_factor", "max_per_prime_factor"}

Primes == {2, 3, 5, 7, 11, 13}

RECURSIVE Exp(_, _)
\* exponent of prime p in v (v >= 1)
Exp(v, p) == IF v % p = 0 /\ v > 0 THEN 1 + Exp(v \div p, p) ELSE 0

\* a is at least as good as b under goal g
Leq(g, a, b) ==
  CASE g = "min"  -> a <= b
    [] g = "max"  -> a >= b
    [] g = "diff" -> a = b
    [] g = "min_per_prime_factor" -> \A p \in Primes : Exp(a, p) <= Exp(b, p)
    [] g = "max_per_prime_factor" -> \A p \in Primes : Exp(a, p) >= Exp(b, p)

\* a is strictly better than b under goal g
Lt(g, a, b) ==
  CASE g = "min"  -> a < b
    [] g = "max"  -> a > b
    [] g = "diff" -> FALSE
    [] g = "min_per_prime_factor" -> \E p \in Primes : Exp(a, p) < Exp(b, p)
    [] g = "max_per_prime_factor" -> \E p \in Primes : Exp(a, p) > Exp(b, p)

Cols(G) == 1..Len(G)

\* row a strictly dominates row b: equal on diff columns, no worse anywhere,
\* strictly better somewhere.
Dominates(G, a, b) ==
  /\ \A c \in Cols(G) : Leq(G[c], a[c], b[c])
  /\ \E c \in Cols(G) : Lt(G[c], a[c], b[c])

WeaklyDominates(G, a, b) == \A c \in Cols(G) : Leq(G[c], a[c], b[c])

\* THE DEFINITION (property C11): row i is kept iff no row strictly dominates it
\* and it is the first of its exact duplicates.
Kept(M, G, i) ==
  /\ ~ \E j \in 1..Len(M) : Dominates(G, M[j], M[i])
  /\ ~ \E j \in 1..(i-1) : M[j] = M[i]

Mask(M, G) == [i \in 1..Len(M) |-> Kept(M, G, i)]

FrontRows(M, G) == {M[i] : i \in {k \in 1..Len(M) : Kept(M, G, k)}}

-----------------------------------------------------------------------------
(* Tolerance covering (property C12).  Values are compared as rationals      *)
(* num/den with positive denominators: k <= (1+t) d  with t = tn/td.         *)
LeqScaled(k, d, tn, td) == k * td <= (td + tn) * d

=============================================================================
