\* expected perfect candidate sets for every outer in 1..max_outer (+ extra_outers) and every inner dividing it
CONSTANTS
  Jobs <- JobsPerfect
SPECIFICATION Spec
INVARIANT Emit
