SPECIFICATION Spec
INVARIANT Emit
