CONSTANTS
  ExhFamilies <- NoFamilies
  RandFamilies <- RandBig
  N = 100000
INIT RandInit
NEXT RandNext
INVARIANT Emit
