\* random: up to 160 rows, wide schemas
CONSTANTS
  R = 160
  Vals = {0, 1, 2, 3, 4, 5, 6, 7, 8, 10, 12, 16, 24, 32}
  DVals = {1, 2, 4}
  SchemaIds = {9, 10, 11, 12}
  TolIds = {1, 2, 3, 4, 5, 6, 7, 8, 9, 10, 11, 12}
  ConstIds = {1, 2, 3, 4, 5}
  N = 40
INIT RandInit
NEXT RandNext
INVARIANT Emit
