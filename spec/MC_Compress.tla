----------------------------- MODULE MC_Compress -----------------------------
(* Case generators for C15 (binding B).  A case = table shapes, the payload   *)
(* columns each sub-table has, payload values, a selection (one source row    *)
(* per Einsum for every result row) and -- from the DEFINITION Compress!RowOf *)
(* -- the payload every result row must carry after decompression.            *)
(*   pick[r][e] = <<s, k>> : result row r was built from row k of sub-table s  *)
(*   exp[r][e][c]          : value of payload column c (Missing if the source  *)
(*                           sub-table does not have that column)             *)
EXTENDS Compress, TLC, Json, Randomization

CONSTANTS NCases

VARIABLES cols,     \* cols[e][s] = set of payload column ids of the sub-table
          c

NC == 5            \* payload columns 1..NC; column 1 (mapping id) is in every sub-table
Missing == -1
Val(e, s, k, col) == 1000 * e + 100 * s + 10 * k + col

\* deterministic variety for the exhaustive runs
ColsOf(e, s) == LET m == (e + 2 * s) % 4 IN
                CASE m = 0 -> 1 .. NC
                  [] m = 1 -> {1, 2}
                  [] m = 2 -> {1, 3, 4}
                  [] m = 3 -> {1, 2, 5}

RowVals(e, s, k) == [col \in 1 .. NC |-> IF col \in cols[e][s] THEN Val(e, s, k, col) ELSE Missing]

Rec == [shape |-> shape,
        cols  |-> [e \in 1 .. E |-> [s \in 1 .. Len(shape[e]) |->
                     [col \in 1 .. NC |-> IF col \in cols[e][s] THEN 1 ELSE 0]]],
        tab   |-> [e \in 1 .. E |-> [s \in 1 .. Len(shape[e]) |->
                     [k \in 1 .. shape[e][s] |-> RowVals(e, s, k)]]],
        sel   |-> sel,
        pick  |-> [r \in 1 .. R |-> [e \in 1 .. E |->
                     LET id == RowOf(e, sel[r][e]) IN <<id[2], id[3]>>]],
        exp   |-> [r \in 1 .. R |-> [e \in 1 .. E |->
                     LET id == RowOf(e, sel[r][e]) IN RowVals(e, id[2], id[3])]]]

Emit == (c >= 0) => PrintT(ToJson(Rec))

Rest ==
  /\ phase = "compress"
  /\ ce = 1 /\ cs = 1 /\ start = 0
  /\ comp = <<>> /\ ddKeys = <<>> /\ ddVal = <<>>
  /\ de = 1 /\ dstage = "start" /\ todo = <<>> /\ itpos = 0 /\ curKey = Inf
  /\ found = EmptyFn /\ out = <<>>

---------------------------------------------------------------------------
\* exhaustive: every shape list and every selection within the bounds of the cfg (Shapes1 for
\* one Einsum, Shapes2 for two, Shapes3 for three; same for the number of result rows)
ExhInit ==
  /\ \E ne \in ESet : shape \in [1 .. ne -> ShapesE(ne)]
  /\ ShapeOK(shape)
  /\ \E nr \in RSetE(Len(shape)) :
        sel \in [1 .. nr -> {f \in [1 .. Len(shape) -> 0 .. 8] :
                                \A e \in 1 .. Len(shape) : f[e] < SumSeq(shape[e])}]
  /\ cols = [e \in 1 .. Len(shape) |-> [s \in 1 .. Len(shape[e]) |-> ColsOf(e, s)]]
  /\ c = 0
  /\ Rest
ExhNext == UNCHANGED <<vars, cols, c>>

---------------------------------------------------------------------------
\* random (-simulate): bigger shapes, random column sets, random selections
\* odd cases stay within <= 3 Einsums x <= 3 sub-tables x 0..3 rows x <= 4 result rows,
\* even cases go up to 4 x 5 x 0..8 x 6
MaxE(x) == IF x % 2 = 1 THEN 3 ELSE 4
MaxK(x) == IF x % 2 = 1 THEN 3 ELSE 5
MaxRows(x) == IF x % 2 = 1 THEN 3 ELSE 8
MaxR(x) == IF x % 2 = 1 THEN 4 ELSE 6
FixZero(sh) == IF SumSeq(sh) = 0 THEN [sh EXCEPT ![1] = 1] ELSE sh
RandShapeK(k, x) == FixZero([s \in 1 .. k |-> IF RandomElement(1 .. 3) = 1 THEN 0
                                              ELSE RandomElement(0 .. MaxRows(x))])
\* (the parameter also keeps TLC from evaluating this once as a constant)
RandShape(x) == [e \in 1 .. RandomElement(1 .. MaxE(x)) |-> RandShapeK(RandomElement(1 .. MaxK(x)), x)]

RandSel(sh, x) == [r \in 1 .. RandomElement(1 .. MaxR(x)) |->
                     [e \in 1 .. Len(sh) |-> RandomElement(0 .. (SumSeq(sh[e]) - 1))]]
RandCols(sh) == [e \in 1 .. Len(sh) |-> [s \in 1 .. Len(sh[e]) |->
                  {1} \cup RandomSubset(RandomElement(0 .. (NC - 1)), 2 .. NC)]]

---------------------------------------------------------------------------
\* BIG tables (tens of thousands of rows per Einsum): the concatenation Flat(e) is never
\* built; RowOfA finds (sub-table, row) of the g-th row by walking the cumulative sizes.
\* LocateLemma (checked as an invariant in the exhaustive configs) ties it to THE DEFINITION.
RECURSIVE Locate(_, _, _)
Locate(sh, s, g) == IF g < sh[s] THEN <<s, g + 1>> ELSE Locate(sh, s + 1, g - sh[s])
RowOfA(e, g) == LET p == Locate(shape[e], 1, g) IN <<e, p[1], p[2]>>
LocateLemma == \A e \in 1 .. E : \A g \in 0 .. (Total(e) - 1) : RowOfA(e, g) = RowOf(e, g)

BigShapes == <<
  << <<40000, 30000, 5>> >>,
  << <<65535, 1, 2>>, <<3, 0, 65536, 4>> >>,
  << <<256, 65280, 0, 7>>, <<2>> >>,
  << <<20000, 20000, 20000, 20000>>, <<70000>>, <<1, 65535, 1>> >>,
  << <<7, 65529, 65536, 9>> >> >>
BigColsOf(e, s) == LET m == (e + s) % 3 IN
                   CASE m = 0 -> 1 .. 4 [] m = 1 -> {1, 2} [] m = 2 -> {1, 3, 4}
\* result rows 1..6 sit on the 16-bit boundaries where they exist; the others are drawn
BigSel(sh, x) == [r \in 1 .. 10 |-> [e \in 1 .. Len(sh) |->
                   LET n == SumSeq(sh[e])
                       cand == <<0, n - 1, 65534, 65535, 65536, 65537>>
                   IN IF r <= 6 /\ cand[r] < n THEN cand[r] ELSE RandomElement(0 .. (n - 1))]]
BigRec == [big   |-> TRUE,
           shape |-> shape,
           cols  |-> [e \in 1 .. E |-> [s \in 1 .. Len(shape[e]) |->
                        [col \in 1 .. NC |-> IF col \in cols[e][s] THEN 1 ELSE 0]]],
           sel   |-> sel,
           pick  |-> [r \in 1 .. R |-> [e \in 1 .. E |->
                        LET id == RowOfA(e, sel[r][e]) IN <<id[2], id[3]>>]]]
EmitBig == (c >= 0) => PrintT(ToJson(BigRec))
BigInit ==
  /\ shape = <<<<1>>>> /\ sel = <<<<0>>>> /\ cols = <<<<{1}>>>> /\ c = -1
  /\ Rest
BigNext ==
  /\ c < NCases
  /\ c' = c + 1
  /\ shape' = BigShapes[(c' % Len(BigShapes)) + 1]
  /\ sel' = BigSel(shape', c')
  /\ cols' = [e \in 1 .. Len(shape') |-> [s \in 1 .. Len(shape'[e]) |-> BigColsOf(e, s)]]
  /\ UNCHANGED <<phase, ce, cs, start, comp, ddKeys, ddVal, de, dstage, todo, itpos, curKey, found, out>>

RandInit ==
  /\ shape = <<<<1>>>> /\ sel = <<<<0>>>> /\ cols = <<<<{1}>>>> /\ c = -1
  /\ Rest
RandNext ==
  /\ c < NCases
  /\ c' = c + 1
  /\ shape' = RandShape(c')
  /\ sel' = RandSel(shape', c')
  /\ cols' = RandCols(shape')
  /\ UNCHANGED <<phase, ce, cs, start, comp, ddKeys, ddVal, de, dstage, todo, itpos, curKey, found, out>>
=============================================================================
