--------------------------- MODULE EinsumSyntax ---------------------------
(***************************************************************************)
(* Property C23: the concise Einsum notation                                *)
(*        Out[e, ...] = In1[e, ...] * In2[e, ...]                           *)
(* with entries  e ::= v  |  Rank : expression   denotes the same Einsum as *)
(* the verbose form (tensor names, projections, output flags).              *)
(*                                                                          *)
(* Three things are stated here:                                            *)
(*  1. the verbose Einsum record and its rendering as a TOKEN sequence      *)
(*     (EinsumToks); a simple entry may be rendered `v` or `V : v`;         *)
(*  2. the documented grammar as a recogniser/parser of token sequences     *)
(*     (Parse) -- it returns the verbose record or "not well formed";       *)
(*  3. an emitter (actions Emit / Space / Malform / Finish) that turns the  *)
(*     tokens into a string, inserting optional white space at every gap,   *)
(*     after optionally applying ONE corruption from a fixed list.          *)
(* TLC checks on every explored state that rendering and grammar agree      *)
(* (RoundTrip) and that every corruption leaves the grammar                 *)
(* (MalformedIsMalformed), so "expected = error" is never claimed for a     *)
(* string the documented grammar accepts.                                   *)
(***************************************************************************)
EXTENDS Integers, Sequences, FiniteSets, TLC

\* ---- alphabets (TLA+ has no character operations, so upper/lower case are tables)
VarTab   == << <<"a", "A">>, <<"b", "B">>, <<"m", "M">>, <<"n0", "N0">>, <<"pq", "PQ">>, <<"k_1", "K_1">> >>
RankTab  == << <<"M", "m">>, <<"H", "h">>, <<"N0", "n0">>, <<"W2", "w2">>, <<"Kv", "kv">>, <<"R_x", "r_x">> >>
TNameTab == <<"Out", "I", "W", "T0", "x_in", "WV", "Q_k", "acc">>
NumSet   == {"1", "2", "3", "7", "16"}
OpSet    == {"+", "-", "*"}

VarSet   == {VarTab[i][1] : i \in 1..Len(VarTab)}
Upper(v) == VarTab[CHOOSE i \in 1..Len(VarTab) : VarTab[i][1] = v][2]
RankSet  == {RankTab[i][1] : i \in 1..Len(RankTab)} \cup {VarTab[i][2] : i \in 1..Len(VarTab)}
Lower(R) == IF \E i \in 1..Len(RankTab) : RankTab[i][1] = R
            THEN RankTab[CHOOSE i \in 1..Len(RankTab) : RankTab[i][1] = R][2]
            ELSE VarTab[CHOOSE i \in 1..Len(VarTab) : VarTab[i][2] = R][1]
TNameSet == {TNameTab[i] : i \in 1..Len(TNameTab)}

RECURSIVE Cat(_)
Cat(s) == IF s = <<>> THEN "" ELSE Head(s) \o Cat(Tail(s))

\* ---- the verbose form ---------------------------------------------------------
\* entry  = [rank, x, simple]   x = the projection expression as a token sequence
\* access = [name, proj]        proj = sequence of entries with distinct ranks
\* einsum = [out, ins]          out = access, ins = non-empty sequence of accesses
Simple(v)  == [rank |-> Upper(v), x |-> <<v>>, simple |-> TRUE]
Expl(R, x) == [rank |-> R, x |-> x, simple |-> FALSE]

Template(k, u, v) ==
  CASE k = 1 -> <<u>>
    [] k = 2 -> <<u, "+", v>>
    [] k = 3 -> <<"2", "*", u, "+", v>>
    [] k = 4 -> <<u, "*", "16", "+", v>>
    [] k = 5 -> <<u, "+", v, "+", "1">>
    [] k = 6 -> <<u, "-", v>>
    [] k = 7 -> <<"3", "*", u>>

DistinctRanks(proj) == \A i, j \in 1..Len(proj) : i # j => proj[i].rank # proj[j].rank

\* what the verbose form says, in the shape the harness compares:
\* inputs in order, then the output; each projection an ordered list of (rank, expression)
AccView(acc, isOut) ==
  [name |-> acc.name, output |-> isOut,
   proj |-> [i \in 1..Len(acc.proj) |-> [rank |-> acc.proj[i].rank, x |-> Cat(acc.proj[i].x)]]]
RecView(rec) ==
  [name |-> rec.out.name,
   acc  |-> [i \in 1..(Len(rec.ins) + 1) |->
               IF i <= Len(rec.ins) THEN AccView(rec.ins[i], FALSE) ELSE AccView(rec.out, TRUE)]]

\* ---- rendering as tokens ------------------------------------------------------
\* token = [k |-> kind, s |-> text, a |-> access it belongs to (0 = output, i = i-th input)]
Tok(k, s, a) == [k |-> k, s |-> s, a |-> a]

\* positions <<a, i>> of simple entries: these may be rendered long (`V : v`)
SimplePos(rec) ==
  {<<0, i>> : i \in {j \in 1..Len(rec.out.proj) : rec.out.proj[j].simple}}
    \cup UNION {{<<a, i>> : i \in {j \in 1..Len(rec.ins[a].proj) : rec.ins[a].proj[j].simple}}
                : a \in 1..Len(rec.ins)}

EntryToks(e, a, isLong) ==
  IF e.simple /\ ~isLong THEN <<Tok("var", e.x[1], a)>>
  ELSE <<Tok("rank", e.rank, a), Tok("colon", ":", a)>> \o [i \in 1..Len(e.x) |-> Tok("x", e.x[i], a)]

RECURSIVE ProjToks(_, _, _, _)
ProjToks(proj, a, long, i) ==
  IF i > Len(proj) THEN <<>>
  ELSE (IF i > 1 THEN <<Tok("comma", ",", a)>> ELSE <<>>)
       \o EntryToks(proj[i], a, <<a, i>> \in long) \o ProjToks(proj, a, long, i + 1)

RefToks(acc, a, long) ==
  <<Tok("name", acc.name, a), Tok("lb", "[", a)>> \o ProjToks(acc.proj, a, long, 1) \o <<Tok("rb", "]", a)>>

RECURSIVE InsToks(_, _, _)
InsToks(ins, long, a) ==
  IF a > Len(ins) THEN <<>>
  ELSE (IF a > 1 THEN <<Tok("op", "*", a)>> ELSE <<>>) \o RefToks(ins[a], a, long) \o InsToks(ins, long, a + 1)

EinsumToks(rec, long) == RefToks(rec.out, 0, long) \o <<Tok("eq", "=", 0)>> \o InsToks(rec.ins, long, 1)

Strs(t) == [i \in 1..Len(t) |-> t[i].s]

\* ---- the documented grammar ---------------------------------------------------
\*   einsum ::= ref "=" ref ( "*" ref )*
\*   ref    ::= tensor-name "[" [ entry ( "," entry )* ] "]"         ranks distinct
\*   entry  ::= rank-variable  |  Rank-name ":" expr
\*   expr   ::= operand ( ("+"|"-"|"*") operand )*    with at least one rank variable
\* (rank variables start lower case, rank names upper case).  Results are records with
\* a field ok; a failed parse is [ok |-> FALSE].
Err == [ok |-> FALSE]

FirstIdx(s, x) == CHOOSE j \in 1..Len(s) : s[j] = x /\ \A k \in 1..(j - 1) : s[k] # x
Has(s, x) == \E j \in 1..Len(s) : s[j] = x

RECURSIVE SplitOn(_, _)
SplitOn(s, sep) ==
  IF ~Has(s, sep) THEN <<s>>
  ELSE LET i == FirstIdx(s, sep)
       IN <<SubSeq(s, 1, i - 1)>> \o SplitOn(SubSeq(s, i + 1, Len(s)), sep)

IsExpr(x) ==
  /\ Len(x) % 2 = 1
  /\ \A i \in 1..Len(x) : IF i % 2 = 1 THEN x[i] \in VarSet \cup NumSet ELSE x[i] \in OpSet
  /\ \E i \in 1..Len(x) : x[i] \in VarSet

ParseEntry(s) ==
  IF Len(s) = 1 /\ s[1] \in VarSet
    THEN [ok |-> TRUE, rank |-> Upper(s[1]), x |-> Cat(s)]
  ELSE IF Len(s) >= 3 /\ s[1] \in RankSet /\ s[2] = ":" /\ IsExpr(SubSeq(s, 3, Len(s)))
    THEN [ok |-> TRUE, rank |-> s[1], x |-> Cat(SubSeq(s, 3, Len(s)))]
  ELSE Err

ParseRef(s, isOut) ==
  IF Len(s) < 3 \/ s[1] \notin TNameSet \/ s[2] # "[" \/ s[Len(s)] # "]" THEN Err
  ELSE LET inner == SubSeq(s, 3, Len(s) - 1) IN
       IF inner = <<>> THEN [ok |-> TRUE, name |-> s[1], output |-> isOut, proj |-> <<>>]
       ELSE LET parts == SplitOn(inner, ",")
                ents  == [i \in 1..Len(parts) |-> ParseEntry(parts[i])]
            IN IF \E i \in 1..Len(ents) : ~ents[i].ok THEN Err
               ELSE IF \E i, j \in 1..Len(ents) : i # j /\ ents[i].rank = ents[j].rank THEN Err
               ELSE [ok |-> TRUE, name |-> s[1], output |-> isOut,
                     proj |-> [i \in 1..Len(ents) |-> [rank |-> ents[i].rank, x |-> ents[i].x]]]

RECURSIVE ParseRefs(_)
\* ref ( "*" ref )*  -> [ok, refs]
ParseRefs(s) ==
  IF ~Has(s, "]") THEN Err
  ELSE LET j == FirstIdx(s, "]")
           r == ParseRef(SubSeq(s, 1, j), FALSE)
       IN IF ~r.ok THEN Err
          ELSE IF j = Len(s) THEN [ok |-> TRUE, refs |-> <<r>>]
          ELSE IF s[j + 1] # "*" \/ j + 1 = Len(s) THEN Err
          ELSE LET rest == ParseRefs(SubSeq(s, j + 2, Len(s)))
               IN IF ~rest.ok THEN Err ELSE [ok |-> TRUE, refs |-> <<r>> \o rest.refs]

Strip(r) == [name |-> r.name, output |-> r.output, proj |-> r.proj]

Parse(s) ==
  IF Cardinality({i \in 1..Len(s) : s[i] = "="}) # 1 THEN Err
  ELSE LET e   == FirstIdx(s, "=")
           lhs == ParseRef(SubSeq(s, 1, e - 1), TRUE)
           rhs == ParseRefs(SubSeq(s, e + 1, Len(s)))
       IN IF e = 1 \/ e = Len(s) THEN Err
          ELSE IF ~lhs.ok \/ ~rhs.ok THEN Err
          ELSE [ok |-> TRUE, name |-> lhs.name,
                acc |-> [i \in 1..(Len(rhs.refs) + 1) |->
                           IF i <= Len(rhs.refs) THEN Strip(rhs.refs[i]) ELSE Strip(lhs)]]

\* ---- corruptions ---------------------------------------------------------------
KindIdx(t, k, a) == CHOOSE j \in 1..Len(t) : t[j].k = k /\ t[j].a = a
                                              /\ \A i \in 1..(j - 1) : ~(t[i].k = k /\ t[i].a = a)
HasKind(t, k, a) == \E j \in 1..Len(t) : t[j].k = k /\ t[j].a = a
Drop(t, i)       == SubSeq(t, 1, i - 1) \o SubSeq(t, i + 1, Len(t))
Ins(t, i, new)   == SubSeq(t, 1, i - 1) \o new \o SubSeq(t, i, Len(t))       \* before position i
Repl(t, i, new)  == SubSeq(t, 1, i - 1) \o new \o SubSeq(t, i + 1, Len(t))
NIn(t)           == Cardinality({t[j].a : j \in 1..Len(t)}) - 1
HasEntry(t, a)   == HasKind(t, "var", a) \/ HasKind(t, "rank", a)
\* rank of the first entry of access a
FirstRank(t, a)  == LET f == t[KindIdx(t, "lb", a) + 1] IN IF f.k = "var" THEN Upper(f.s) ELSE f.s

Kinds == {"NoEq", "TwoEq", "OpToEq", "DropRb", "DropLb", "DropName", "NestedLb", "Braces",
          "NoInputs", "NoOutput", "Empty",
          "DoubleComma", "TrailingComma", "LeadingComma",
          "UpperVar", "LowerRank", "NumberEntry", "BareExpr",
          "DupRankAfter", "DupRankBefore", "DoubleColon", "EmptyExpr", "EmptyRank"}
\* kinds that act on the Einsum as a whole (a = 0)
GlobalKinds == {"NoEq", "TwoEq", "NoInputs", "NoOutput", "Empty"}

Applicable(k, a, t) ==
  /\ a \in 0..NIn(t)
  /\ CASE k \in GlobalKinds -> a = 0
       [] k = "OpToEq" -> a >= 2
       [] k \in {"DropRb", "DropLb", "DropName", "NestedLb", "Braces"} -> TRUE
       [] k = "DoubleComma" -> HasKind(t, "comma", a)
       [] k \in {"TrailingComma", "LeadingComma", "DupRankAfter", "DupRankBefore"} -> HasEntry(t, a)
       [] k \in {"UpperVar", "NumberEntry", "BareExpr"} -> HasKind(t, "var", a)
       [] k \in {"LowerRank", "DoubleColon", "EmptyExpr", "EmptyRank"} -> HasKind(t, "rank", a)

Corrupt(k, a, t) ==
  LET eq == KindIdx(t, "eq", 0) IN
  CASE k = "NoEq"     -> Drop(t, eq)
    [] k = "TwoEq"    -> Ins(t, eq, <<Tok("eq", "=", 0)>>)
    [] k = "OpToEq"   -> Repl(t, KindIdx(t, "op", a), <<Tok("eq", "=", a)>>)
    [] k = "DropRb"   -> Drop(t, KindIdx(t, "rb", a))
    [] k = "DropLb"   -> Drop(t, KindIdx(t, "lb", a))
    [] k = "DropName" -> Drop(t, KindIdx(t, "name", a))
    [] k = "NestedLb" -> Ins(t, KindIdx(t, "lb", a), <<Tok("lb", "[", a)>>)
    [] k = "Braces"   -> LET t1 == Repl(t, KindIdx(t, "lb", a), <<Tok("lb", "{", a)>>)
                         IN Repl(t1, KindIdx(t1, "rb", a), <<Tok("rb", "}", a)>>)
    [] k = "NoInputs" -> SubSeq(t, 1, eq)
    [] k = "NoOutput" -> SubSeq(t, eq, Len(t))
    [] k = "Empty"    -> <<>>
    [] k = "DoubleComma"   -> Ins(t, KindIdx(t, "comma", a), <<Tok("comma", ",", a)>>)
    [] k = "TrailingComma" -> Ins(t, KindIdx(t, "rb", a), <<Tok("comma", ",", a)>>)
    [] k = "LeadingComma"  -> Ins(t, KindIdx(t, "lb", a) + 1, <<Tok("comma", ",", a)>>)
    [] k = "UpperVar"      -> LET i == KindIdx(t, "var", a) IN Repl(t, i, <<Tok("var", Upper(t[i].s), a)>>)
    [] k = "LowerRank"     -> LET i == KindIdx(t, "rank", a) IN Repl(t, i, <<Tok("rank", Lower(t[i].s), a)>>)
    [] k = "NumberEntry"   -> Repl(t, KindIdx(t, "var", a), <<Tok("var", "7", a)>>)
    [] k = "BareExpr"      -> Ins(t, KindIdx(t, "var", a) + 1, <<Tok("x", "+", a), Tok("x", "b", a)>>)
    [] k = "DupRankAfter"  -> Ins(t, KindIdx(t, "rb", a),
                                  <<Tok("comma", ",", a), Tok("rank", FirstRank(t, a), a),
                                    Tok("colon", ":", a), Tok("x", "pq", a)>>)
    [] k = "DupRankBefore" -> Ins(t, KindIdx(t, "lb", a) + 1,
                                  <<Tok("rank", FirstRank(t, a), a), Tok("colon", ":", a),
                                    Tok("x", "pq", a), Tok("comma", ",", a)>>)
    [] k = "DoubleColon"   -> Ins(t, KindIdx(t, "colon", a), <<Tok("colon", ":", a)>>)
    [] k = "EmptyExpr"     -> \* drop the expression tokens of the first `Rank : expr` entry
                              LET c == KindIdx(t, "colon", a)
                                  n == CHOOSE m \in 0..Len(t) : /\ \A i \in (c + 1)..(c + m) : t[i].k = "x"
                                                                /\ t[c + m + 1].k # "x"
                              IN SubSeq(t, 1, c) \o SubSeq(t, c + n + 1, Len(t))
    [] k = "EmptyRank"     -> Drop(t, KindIdx(t, "rank", a))

\* is the shorthand entry of access a that follows DupRankBefore's insertion a bare variable?
\* (distinguishes  [R: pq, r, ...]  from  [R: pq, R: r, ...]; reported for case signatures)
FirstEntryShort(t, a) == t[KindIdx(t, "lb", a) + 1].k = "var"
=============================================================================
