CONSTANTS
  Parent <- Tree6
  Mode = "keyorder"
  NNames = 3
  WithSelf = TRUE
  PlaceIn = {1}
  SelfPlaces = {}
  KeyOrders = "two"
  G2Scopes <- Chain12
  G2Rev = {FALSE, TRUE}
  RN = 0
INIT RoleAInitG2
NEXT RoleANext
INVARIANT ConfluentAcyclic
