\* random formulas of the full grammar over 2 symbols
CONSTANTS
  NS = 2
  His = {3, 4, 6, 8}
  Los = {1, 2}
  N = 1000000
  Small = FALSE
INIT Init
NEXT Next
INVARIANT Emit
