CONSTANTS
  Mode = "once"
  MaxCalls = 3
  RN = 8000
  Small = FALSE
INIT RandInit
NEXT RandNext
INVARIANT RandEmit
