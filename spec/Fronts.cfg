SPECIFICATION Spec
INVARIANT Emit
