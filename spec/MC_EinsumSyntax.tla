-------------------------- MODULE MC_EinsumSyntax --------------------------
(* The emitter of EinsumSyntax as a transition system + case generators for    *)
(* C23.  One behaviour = one verbose Einsum record, optionally one corruption  *)
(* (Malform), then Emit(token) / Space(white space) steps until the string is  *)
(* complete (Finish).  At the finished state the spec prints the string and    *)
(* what the documented grammar (Parse) says it denotes.                        *)
EXTENDS EinsumSyntax, Json

CONSTANTS MaxIn,     \* exhaustive: 1..MaxIn inputs
          OutK,      \* exhaustive: 0..OutK entries in the output projection
          InK,       \* exhaustive: 0..InK entries per input projection
          NEnt,      \* exhaustive: the first NEnt of the small entries are used (3..5)
          MaxWS,     \* at most MaxWS white-space insertions per string
          MalWS,     \* the same for corrupted strings
          WS,        \* the white-space strings
          N          \* number of random cases

VARIABLES rec,    \* the verbose Einsum
          long,   \* positions of simple entries rendered as `V : v`
          mode,   \* "ok" | "mal"
          mal,    \* <<kind, access>> of the corruption applied, or <<>>
          toks,   \* typed tokens still to be understood as the whole string
          pos,    \* number of tokens emitted
          out,    \* the string so far
          gap,    \* TRUE iff white space may still be inserted at the current gap
          nws,    \* white-space insertions so far
          done,
          xt,     \* extra attributes to merge: [e |-> bundle, a |-> bundle per access, bad |-> 0..2]
          rv, n

WS1 == {" "}
WS3 == {" ", "  ", "\t"}

vars == <<rec, long, mode, mal, toks, pos, out, gap, nws, done, xt, rv, n>>

-----------------------------------------------------------------------------
Ready == mode = "ok" \/ mal # <<>>

Malform(k, a) ==
  /\ mode = "mal" /\ mal = <<>> /\ ~done
  /\ Applicable(k, a, toks)
  /\ toks' = Corrupt(k, a, toks)
  /\ mal' = <<k, a>>
  /\ UNCHANGED <<rec, long, mode, pos, out, gap, nws, done, xt, rv, n>>

Limit == IF mode = "ok" THEN MaxWS ELSE MalWS

Emit ==
  /\ Ready /\ ~done /\ pos < Len(toks)
  /\ nws < Limit
  /\ out' = out \o toks[pos + 1].s
  /\ pos' = pos + 1
  /\ gap' = TRUE
  /\ UNCHANGED <<rec, long, mode, mal, toks, nws, done, xt, rv, n>>

\* once the white-space budget is used up nothing is left to choose: the remaining tokens
\* are emitted in one step (a macro step of Emit; it only saves intermediate states)
EmitRest ==
  /\ Ready /\ ~done /\ pos < Len(toks)
  /\ nws >= Limit
  /\ out' = out \o Cat(Strs(SubSeq(toks, pos + 1, Len(toks))))
  /\ pos' = Len(toks)
  /\ gap' = FALSE
  /\ UNCHANGED <<rec, long, mode, mal, toks, nws, done, xt, rv, n>>

Space(w) ==
  /\ Ready /\ ~done /\ gap
  /\ nws < Limit
  /\ out' = out \o w
  /\ gap' = FALSE
  /\ nws' = nws + 1
  /\ UNCHANGED <<rec, long, mode, mal, toks, pos, done, xt, rv, n>>

Finish ==
  /\ Ready /\ ~done /\ pos = Len(toks)
  /\ done' = TRUE
  /\ UNCHANGED <<rec, long, mode, mal, toks, pos, out, gap, nws, xt, rv, n>>

Steps == \/ \E k \in Kinds, a \in 0..4 : Malform(k, a)
         \/ Emit
         \/ EmitRest
         \/ \E w \in WS : Space(w)
         \/ Finish

-----------------------------------------------------------------------------
(* What the spec says about the finished string                              *)
Scalar == \E j \in 1..(Len(toks) - 1) : toks[j].k = "lb" /\ toks[j + 1].k = "rb"

Where == IF mal = <<>> THEN "none"
         ELSE IF mal[1] \in GlobalKinds THEN "einsum"
         ELSE IF mal[2] = 0 THEN "output"
         ELSE IF NIn(EinsumToks(rec, long)) = 1 THEN "sole-input"
         ELSE IF mal[2] = NIn(EinsumToks(rec, long)) THEN "last-of-several-inputs"
         ELSE "earlier-of-several-inputs"

Result ==
  LET p == Parse(Strs(toks)) IN
  [s      |-> out,
   expect |-> IF p.ok THEN "ok" ELSE "error",
   mal    |-> IF mal = <<>> THEN "" ELSE mal[1],
   where  |-> Where,
   short  |-> IF mal # <<>> /\ mal[1] = "DupRankBefore"
              THEN FirstEntryShort(EinsumToks(rec, long), mal[2]) ELSE FALSE,
   \* does the access hit by the corruption end in a `Rank : expr` entry?
   lastx  |-> IF mal # <<>> /\ mal[1] \notin GlobalKinds
              THEN LET t == EinsumToks(rec, long) IN t[KindIdx(t, "rb", mal[2]) - 1].k = "x"
              ELSE FALSE,
   scalar |-> Scalar,
   nlong  |-> Cardinality(long),
   nws    |-> nws,
   \* accesses (inputs.., output) whose verbose form may be written as a list of rank variables
   aslist |-> IF p.ok /\ mal = <<>>
              THEN [i \in 1..(Len(rec.ins) + 1) |->
                      LET pr == IF i <= Len(rec.ins) THEN rec.ins[i].proj ELSE rec.out.proj
                      IN \A j \in 1..Len(pr) : pr[j].simple]
              ELSE <<>>,
   name   |-> IF p.ok THEN p.name ELSE "",
   acc    |-> IF p.ok THEN p.acc ELSE <<>>,
   xt     |-> xt]

EmitResult == done => PrintT(ToJson(Result))

\* rendering and grammar agree: the tokens of an uncorrupted record parse back to the record
\* (evaluated once per case, on the state from which emission starts)
RoundTrip ==
  (mal = <<>> /\ pos = 0 /\ out = "") =>
    LET p == Parse(Strs(EinsumToks(rec, long)))
        v == RecView(rec)
    IN p.ok /\ p.name = v.name /\ p.acc = v.acc

\* every corruption leaves the documented grammar
MalformedIsMalformed == (mal # <<>> /\ pos = 0 /\ out = "") => ~Parse(Strs(toks)).ok

\* the emitter never reorders or loses a token (white space aside)
TypeOK == /\ pos \in 0..Len(toks)
          /\ done => pos = Len(toks)
          /\ mode = "ok" => mal = <<>>

-----------------------------------------------------------------------------
(* Exhaustive generator: small alphabets, every record / long choice / corruption / *)
(* white-space placement within the bounds.                                          *)
SmallEntrySeq == <<Simple("a"), Expl("H", <<"a", "+", "n0">>), Simple("n0"), Expl("M", <<"n0">>),
                   Expl("H", <<"2", "*", "a", "+", "n0">>)>>
SmallEntries == {SmallEntrySeq[i] : i \in 1..NEnt}
SmallProjs(k) == {p \in UNION {[1..j -> SmallEntries] : j \in 0..k} : DistinctRanks(p)}
InNames == <<"I", "W", "T0", "x_in">>
ExhRecs(mi, ok, ik) ==
  {[out |-> [name |-> "Out", proj |-> po],
    ins |-> [i \in 1..Len(ps) |-> [name |-> InNames[i], proj |-> ps[i]]]] :
     po \in SmallProjs(ok), ps \in UNION {[1..j -> SmallProjs(ik)] : j \in 1..mi}}

\* extras are a function of the record in the exhaustive runs (they do not interact with
\* the string), so that they vary without multiplying the state space
RECURSIVE SumLen(_, _)
SumLen(ins, i) == IF i = 0 THEN 0 ELSE Len(ins[i].proj) + SumLen(ins, i - 1)
ExhXt(r) == LET h == Len(r.out.proj) + 3 * Len(r.ins) + 2 * SumLen(r.ins, Len(r.ins)) IN
            [e |-> h % 8, a |-> [i \in 1..(Len(r.ins) + 1) |-> (h + i) % 4],
             bad |-> IF h % 7 = 0 THEN 1 + (h % 2) ELSE 0]

ExhInit ==
  /\ rec \in ExhRecs(MaxIn, OutK, InK)
  /\ long \in {{}} \cup {{p} : p \in SimplePos(rec)}
  /\ mode \in {"ok", "mal"}
  /\ mal = <<>>
  /\ toks = EinsumToks(rec, long)
  /\ pos = 0 /\ out = "" /\ gap = TRUE /\ nws = 0 /\ done = FALSE
  /\ xt = ExhXt(rec)
  /\ rv = <<>> /\ n = 0
ExhNext == Steps

-----------------------------------------------------------------------------
(* Random generator (for -simulate): the record, the long positions, the mode and   *)
(* the extras are a function of a tuple of random naturals drawn when the previous  *)
(* case is finished; the white space and the corruption are chosen by the simulator *)
(* among the enabled Space / Emit / Malform steps.                                  *)
NR == 170
Big == 5040

RECURSIVE DrawTo(_)
DrawTo(k) == IF k = 0 THEN <<>> ELSE Append(DrawTo(k - 1), RandomElement(0..(Big - 1)))
Draw(k) == DrawTo(NR + 0 * k)

NVar == Len(VarTab)
VarAt(i) == VarTab[1 + (i % NVar)][1]

\* entry i (1..4) of access a (0..4): 6 numbers from slot b
MkEntry(r, b) ==
  IF r[b] % 3 # 2 THEN Simple(VarAt(r[b + 1]))
  ELSE Expl(RankTab[1 + (r[b + 2] % Len(RankTab))][1],
            Template(1 + (r[b + 3] % 7), VarAt(r[b + 4]), VarAt(r[b + 4] + 1 + (r[b + 5] % (NVar - 1)))))

RECURSIVE Dedup(_, _)
\* keep the first entry of every rank
Dedup(p, i) == IF i > Len(p) THEN <<>>
               ELSE IF \E j \in 1..(i - 1) : p[j].rank = p[i].rank THEN Dedup(p, i + 1)
               ELSE <<p[i]>> \o Dedup(p, i + 1)

ASlot(a) == 20 + a * 26
MkProj(r, a) ==
  LET c == r[ASlot(a)]
      k == IF c % 12 = 0 THEN 0 ELSE 1 + ((c \div 12) % 4)
  IN Dedup([i \in 1..k |-> MkEntry(r, ASlot(a) + 1 + (i - 1) * 6)], 1)

NT == Len(TNameTab)
\* distinct tensor names: an arithmetic progression with a stride coprime to NT (= 8)
NameAt(r, a) == TNameTab[1 + ((r[2] + a * (1 + 2 * (r[3] % 4))) % NT)]

MkRec(r) ==
  LET nin == 1 + (r[1] % 4) IN
  [out |-> [name |-> NameAt(r, 0), proj |-> MkProj(r, 0)],
   ins |-> [a \in 1..nin |-> [name |-> NameAt(r, a), proj |-> MkProj(r, a)]]]

MkLong(r, rc) == {p \in SimplePos(rc) : r[150 + p[1] * 4 + p[2]] % 4 = 0}

MkXt(r, rc) == [e |-> r[5] % 8, a |-> [i \in 1..(Len(rc.ins) + 1) |-> r[5 + i] % 4],
                bad |-> IF r[4] % 16 < 2 THEN 1 + (r[4] % 2) ELSE 0]

RandInit ==
  /\ rv = Draw(0)
  /\ rec = MkRec(rv)
  /\ long = MkLong(rv, rec)
  /\ mode = IF rv[4] % 16 >= 10 THEN "mal" ELSE "ok"
  /\ mal = <<>>
  /\ toks = EinsumToks(rec, long)
  /\ pos = 0 /\ out = "" /\ gap = TRUE /\ nws = 0 /\ done = FALSE
  /\ xt = MkXt(rv, rec)
  /\ n = 0

NewCase ==
  /\ done /\ n < N
  /\ n' = n + 1
  /\ rv' = Draw(n)
  /\ rec' = MkRec(rv')
  /\ long' = MkLong(rv', rec')
  /\ mode' = IF rv'[4] % 16 >= 10 THEN "mal" ELSE "ok"
  /\ mal' = <<>>
  /\ toks' = EinsumToks(rec', long')
  /\ pos' = 0 /\ out' = "" /\ gap' = TRUE /\ nws' = 0 /\ done' = FALSE
  /\ xt' = MkXt(rv', rec')

RandNext == Steps \/ NewCase
=============================================================================
