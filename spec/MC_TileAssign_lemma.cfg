SPECIFICATION Spec
INVARIANT BuildIsDefinition
