CONSTANTS
  MaxDepth = 0
  Alphabet <- AlphaAll
  Pairs <- PairsAll
  N = 1000000
  K = 10
  RDepth = 5
INIT RandInit
NEXT RandNext
INVARIANT RandEmit
