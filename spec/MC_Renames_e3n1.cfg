CONSTANTS
  NEin = 3
  KindSeqs <- K1
  SrcT <- ST3
  SrcR <- SR2
  Cnts <- Cnts12
  N = 0
INIT ExhInit
NEXT ExhNext
INVARIANT Emit
