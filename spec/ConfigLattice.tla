---------------------------- MODULE ConfigLattice ----------------------------
(***************************************************************************)
(* Configurations of one micro-spec and the actions that move between them  *)
(* (properties C16-C19).  The abstract state is the configuration together   *)
(* with what the mapper OBSERVABLY returns for it:                           *)
(*    optE, optL, optEDP : best objective returned when optimising energy,   *)
(*                         latency, energy-delay product (rationals <<n,d>>, *)
(*                         <<0,0>> = the mapper returned nothing)            *)
(*    valid              : every returned mapping passed Trace_Mapping       *)
(* Actions (each one is enabled exactly when the property it stands for      *)
(* holds between the two observations; so a recorded step that no action     *)
(* matches is a violation, and the failing clause is reported):              *)
(*    Relax(kind)            C18   opt' <= opt for energy, latency, EDP       *)
(*    ScaleEnergy(k)         C19   optE' = k * optE                          *)
(*    ScaleThroughput(k)     C19   optL' = optL / k                          *)
(*    ScaleInstances(k)      C19   optE' = k*optE, optL' = k*optL, validity  *)
(*                                 unchanged                                *)
(*    SetTolerance(t, r)     C16   opt <= opt' <= (1+t) opt ; r > 0 => valid' *)
(*    SetMetrics             C17   minima over the energy-latency front      *)
(*                                 equal the single-metric optima; EDP       *)
(*                                 column = energy * latency                 *)
(* Traces are star-shaped: every step starts from the trace's base           *)
(* observation ("every small spec paired with each single relaxation").      *)
(***************************************************************************)
EXTENDS Integers, Sequences, TLC, Json, IOUtils

Traces == JsonDeserialize(IOEnv.TRACES_FILE)

VARIABLES tid, k    \* trace index, step index within the trace (0 = at base)
vars == <<tid, k>>

None(x) == x[2] = 0
Leq(a, b) == a[1] * b[2] <= b[1] * a[2]
Eq(a, b) == a[1] * b[2] = b[1] * a[2]
Mul(a, b) == <<a[1] * b[1], a[2] * b[2]>>
Div(a, b) == <<a[1] * b[2], a[2] * b[1]>>

\* opt' <= opt where both exist; if the base has a result the successor must have one
NotWorse(a, b) == IF None(a) THEN TRUE ELSE (~None(b) /\ Leq(b, a))

RelaxOK(o, p) == [energy |-> NotWorse(o.optE, p.optE), latency |-> NotWorse(o.optL, p.optL),
                  edp |-> NotWorse(o.optEDP, p.optEDP)]

ScaleEnergyOK(o, p, f) == [energy |-> (None(o.optE) /\ None(p.optE)) \/ (~None(o.optE) /\ ~None(p.optE) /\ Eq(p.optE, Mul(f, o.optE)))]

ScaleThroughputOK(o, p, f) == [latency |-> (None(o.optL) /\ None(p.optL)) \/ (~None(o.optL) /\ ~None(p.optL) /\ Eq(p.optL, Div(o.optL, f)))]

ScaleInstancesOK(o, p, f) ==
  [energy |-> (None(o.optE) /\ None(p.optE)) \/ (~None(o.optE) /\ ~None(p.optE) /\ Eq(p.optE, Mul(f, o.optE))),
   latency |-> (None(o.optL) /\ None(p.optL)) \/ (~None(o.optL) /\ ~None(p.optL) /\ Eq(p.optL, Mul(f, o.optL))),
   validity |-> (None(o.optE) <=> None(p.optE)) /\ (o.valid <=> p.valid)]

Within(a, b, t) == IF None(a) THEN TRUE
                   ELSE ~None(b) /\ Leq(a, b) /\ Leq(b, Mul(<<t[2] + t[1], t[2]>>, a))
ToleranceOK(o, p, t, r) ==
  [energy |-> Within(o.optE, p.optE, t), latency |-> Within(o.optL, p.optL, t),
   edp |-> Within(o.optEDP, p.optEDP, t),
   valid |-> (r[1] > 0) => p.valid]

\* C17: p carries the minima over the energy-latency front and the EDP-column check
MetricsOK(o, p) ==
  [energy |-> None(o.optE) \/ (~None(p.minE) /\ Eq(p.minE, o.optE)),
   latency |-> None(o.optL) \/ (~None(p.minL) /\ Eq(p.minL, o.optL)),
   edp |-> None(o.optEDP) \/ (~None(p.minEDP) /\ Eq(p.minEDP, o.optEDP)),
   edpcol |-> p.edpcol]

StepVerdict(tr, s) ==
  LET o == tr.base
      p == s.obs
  IN CASE s.act = "Relax"           -> RelaxOK(o, p)
       [] s.act = "ScaleEnergy"     -> ScaleEnergyOK(o, p, s.f)
       [] s.act = "ScaleThroughput" -> ScaleThroughputOK(o, p, s.f)
       [] s.act = "ScaleInstances"  -> ScaleInstancesOK(o, p, s.f)
       [] s.act = "SetTolerance"    -> ToleranceOK(o, p, s.t, s.r)
       [] s.act = "SetMetrics"      -> MetricsOK(o, p)

\* the trace machine: one state per (trace, step)
Init == tid \in 1..Len(Traces) /\ k = 0
Next == /\ k < Len(Traces[tid].steps)
        /\ k' = k + 1
        /\ UNCHANGED tid
Spec == Init /\ [][Next]_vars

Emit == k >= 1 =>
  PrintT(ToJson([id |-> Traces[tid].id, step |-> k, act |-> Traces[tid].steps[k].act,
                 arg |-> Traces[tid].steps[k].arg,
                 verdict |-> StepVerdict(Traces[tid], Traces[tid].steps[k])]))
=============================================================================
