-------------------------- MODULE MC_SignVerdict --------------------------
(* Formula generator for C09 (binding B).  Every state is one formula AST    *)
(* over NS positive integer symbols and one box; the record printed carries  *)
(* what SignVerdict says about the sign of the formula over the box          *)
(* (Signs) and whether the caller-side precondition of                       *)
(* terms_do_not_cross_zero holds (PreOK).  The harness builds the sympy      *)
(* expression, asks geq_leq_zero for its verdict and checks that it is       *)
(* Admissible.                                                               *)
(*                                                                           *)
(* The grammar follows what accelforge's model emits for action counts,      *)
(* occupancies and latencies, and what differentiating those gives:          *)
(*   atom    ::= s | c | 1/s | s^2 | s/s' | ceil(N/s) | ceil(s/s') | (8 - s)  *)
(*             | Max(s, c) | Max(s, 2 s') | Min(s, c) | Min(s, 2 s')         *)
(*   term    ::= q * atom [* atom [* atom]]          q in {1, 1/2, 3, 1/8}   *)
(*   formula ::= term | -term | term + term | term - term | term + term + c  *)
(*             | Max(term, term) | Min(term, term + term)                    *)
(*             | term * Max(term, term) - term | Max(term, term) - Max(..)   *)
(*             | -1/s^2 * term  ...                                          *)
EXTENDS SignVerdict, TLC, Json, IOUtils

CONSTANTS NS,      \* number of symbols (1..3)
          His,     \* set of upper bounds (<= 8)
          Los,     \* set of lower bounds
          N,       \* number of random cases
          Small    \* TRUE: exhaustive enumeration of the small grammar

VARIABLES e, b, n
vars == <<e, b, n>>

I(v)     == [h |-> "int", v |-> v]
Q(nn, d) == IF d = 1 THEN I(nn) ELSE [h |-> "rat", n |-> nn, d |-> d]
S(i)     == [h |-> "sym", v |-> i]
Add(a)   == [h |-> "add", a |-> a]
Mul(a)   == [h |-> "mul", a |-> a]
Pw(x, k) == [h |-> "pow", a |-> <<x>>, k |-> k]
Ce(x)    == [h |-> "ceil", a |-> <<x>>]
Mx(a)    == [h |-> "max", a |-> a]
Mn(a)    == [h |-> "min", a |-> a]
Neg(x)   == Mul(<<I(-1), x>>)

Rec == [e |-> e, b |-> b, signs |-> Signs(e, b, Real), pre |-> PreOK(e, b)]
Emit == PrintT(ToJson(Rec))

Coefs == {<<1, 1>>, <<1, 2>>, <<3, 1>>, <<1, 8>>}
Consts == {1, 2, 3, 8}

---------------------------------------------------------------------------
(* Random generator (-simulate).  Every random operator takes the state      *)
(* variable n as a (otherwise unused) argument: TLC evaluates constant-level  *)
(* definitions once, which would freeze the draw.                             *)
RSym(x) == S(RandomElement(1..NS))
\* plain atoms (no Min/Max); mm = TRUE also allows a Min/Max atom
RAtom(x, mm) ==
  LET k == RandomElement(IF mm THEN 0..12 ELSE 0..8) s == RSym(x) s2 == RSym(x) c == RandomElement(Consts) IN
  CASE k \in {0, 1} -> s
    [] k = 2  -> I(c)
    [] k = 3  -> Pw(s, -1)
    [] k = 4  -> Ce(Mul(<<I(RandomElement({5, 6, 8})), Pw(s, -1)>>))
    [] k = 5  -> IF s = s2 THEN Pw(s, 2) ELSE Ce(Mul(<<s, Pw(s2, -1)>>))
    [] k = 6  -> Add(<<I(8), Neg(s)>>)
    [] k = 7  -> Pw(s, 2)
    [] k = 8  -> IF s = s2 THEN Pw(s, -1) ELSE Mul(<<s, Pw(s2, -1)>>)
    [] k = 9  -> Mx(<<s, I(c)>>)
    [] k = 10 -> IF s = s2 THEN Mx(<<s, I(c)>>) ELSE Mx(<<s, Mul(<<I(2), s2>>)>>)
    [] k = 11 -> Mn(<<s, I(c)>>)
    [] k = 12 -> IF s = s2 THEN Mn(<<s, I(c)>>) ELSE Mn(<<s, Mul(<<I(2), s2>>)>>)

RECURSIVE RAtoms(_, _, _)
RAtoms(x, mm, k) == IF k = 0 THEN <<>> ELSE Append(RAtoms(x, mm, k - 1), RAtom(x, mm))
RTermG(x, mm) ==
  LET q == RandomElement(Coefs) k == RandomElement(1..3) IN
  IF q = <<1, 1>> /\ k = 1 THEN RAtom(x, mm)
  ELSE Mul(IF q = <<1, 1>> THEN RAtoms(x, mm, k) ELSE <<Q(q[1], q[2])>> \o RAtoms(x, mm, k))
RTerm(x)  == RTermG(x, TRUE)      \* may contain one level of Min/Max atoms
RPlain(x) == RTermG(x, FALSE)     \* used inside Max(...)/Min(...) so that they do not nest

RFormula(x) ==
  LET k == RandomElement(0..13) IN
  CASE k = 0  -> RTerm(x)
    [] k = 1  -> Add(<<RTerm(x), RTerm(x)>>)
    [] k = 2  -> Add(<<RTerm(x), Neg(RTerm(x))>>)
    [] k = 3  -> Mx(<<RPlain(x), RPlain(x)>>)
    [] k = 4  -> Mn(<<RPlain(x), Add(<<RPlain(x), RPlain(x)>>)>>)
    [] k = 5  -> Add(<<Mul(<<RPlain(x), Mx(<<RPlain(x), RPlain(x)>>)>>), Neg(RPlain(x))>>)
    [] k = 6  -> Neg(RTerm(x))
    [] k = 7  -> Add(<<RTerm(x), RPlain(x), I(RandomElement(Consts))>>)
    [] k = 8  -> Add(<<Mx(<<RPlain(x), RPlain(x)>>), Neg(Mx(<<RPlain(x), RPlain(x)>>))>>)
    [] k = 9  -> Mul(<<I(-1), Pw(RSym(x), -2), RPlain(x)>>)
    [] k = 10 -> Mx(<<RPlain(x), RPlain(x), I(RandomElement(Consts))>>)
    [] k = 11 -> Add(<<RTerm(x), Neg(I(RandomElement(Consts)))>>)
    [] k = 12 -> Add(<<RPlain(x), RPlain(x)>>)
    [] k = 13 -> Add(<<I(RandomElement(Consts)), Neg(RPlain(x))>>)

RBox(x) == [i \in 1..NS |-> [lo |-> RandomElement(Los), hi |-> RandomElement(His)]]

RandInit == n = 0 /\ e = RFormula(0) /\ b = RBox(0)
RandNext == n < N /\ n' = n + 1 /\ e' = RFormula(n) /\ b' = RBox(n)

---------------------------------------------------------------------------
(* Exhaustive small grammar: every formula  t1, -t1, t1 + t2, t1 - t2,       *)
(* Max(t1, t2), Min(t1, t2)  over a small set of terms in one symbol, and    *)
(* every box lo..hi with lo in Los, hi in His.                               *)
SmallTerms ==
  LET s == S(1) IN
  {s, I(2), Pw(s, -1), Mul(<<I(8), Pw(s, -1)>>), Ce(Mul(<<I(5), Pw(s, -1)>>)), Pw(s, 2),
   Add(<<I(8), Neg(s)>>), Mul(<<I(3), s>>), Mul(<<Q(1, 2), s>>), Mul(<<s, Ce(Mul(<<I(8), Pw(s, -1)>>))>>),
   Mx(<<s, I(3)>>), Mn(<<s, I(3)>>)}
SmallFormulas ==
  SmallTerms \cup {Neg(t) : t \in SmallTerms}
  \cup {Add(<<t1, t2>>) : t1, t2 \in SmallTerms}
  \cup {Add(<<t1, Neg(t2)>>) : t1, t2 \in SmallTerms}
  \cup {Mx(<<t1, t2>>) : t1, t2 \in SmallTerms}
  \cup {Mn(<<t1, t2>>) : t1, t2 \in SmallTerms}

ExhInit == /\ n = 0
           /\ e \in SmallFormulas
           /\ b \in {<<[lo |-> l, hi |-> hh]>> : l \in Los, hh \in His}
ExhNext == UNCHANGED vars

Init == IF Small THEN ExhInit ELSE RandInit
Next == IF Small THEN ExhNext ELSE RandNext
=============================================================================
