SPECIFICATION MSpec
INVARIANT MEmit
INVARIANT MWellFormed
