SPECIFICATION JSpec
INVARIANT JEmit
