\* random formulas of the full grammar over 1 symbol
CONSTANTS
  NS = 1
  His = {3, 5, 8}
  Los = {1, 2}
  N = 1000000
  Small = FALSE
INIT Init
NEXT Next
INVARIANT Emit
