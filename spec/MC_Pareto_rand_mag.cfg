CONSTANTS
  R = 12
  C = 4
  Vals = {0, 1, 2, 3, 4, 5, 6, 7}
  N = 4000
  GoalSeqs <- GoalsMMD_all
INIT RandInit
NEXT RandNext
INVARIANT Emit
