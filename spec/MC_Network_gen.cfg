\* generator: the fixed schedule on every case listed in PARAM_FILE; terminal states print the expected counters
CONSTANTS
  Cases <- CasesGen
  ReplicateAnywhere = FALSE
SPECIFICATION DetSpec
INVARIANT Emit
INVARIANT AllDelivered
INVARIANT HopsAreLinkCrossingsAtEnd
