-------------------------- MODULE MC_ParallelRunner --------------------------
(* Case generators for C32 (binding B).                                      *)
(*  (1) Schedules: every behaviour of ParallelRunner (in-order dispatch, as  *)
(*      joblib does) that reaches "returned" is printed: job count, worker   *)
(*      count, call variant, the completion order TLC chose, the inputs and  *)
(*      the value the SPEC returns.  Model checking enumerates all of them   *)
(*      for small n; -simulate draws random ones for n <= 64, nw <= 16.      *)
(*  (2) Sleep ranks: a random permutation `rank` (job i sleeps rank[i]*delta,  *)
(*      or: priority vector for the schedule hook) drawn with every simulated  *)
(*      run (Restart).                                                        *)
EXTENDS ParallelRunner, TLC, Json, IOUtils

VARIABLES c, rank

Small   == 0 .. 5
SmallW  == 1 .. 5
BigN    == 0 .. 64
BigW    == 1 .. 16
Order == [k \in 1 .. Len(arrived) |-> arrived[k][1]]

SchedRec == [gen |-> "schedule", n |-> n, w |-> nw, mode |-> mode, order |-> Order, rank |-> rank,
             args |-> [k \in 1 .. n |-> Arg(k - 1)], keys |-> [k \in 1 .. n |-> Key(k - 1)],
             expected |-> ret]

EmitSched == (phase = "returned") => PrintT(ToJson(SchedRec))

SchedInit == Init /\ c = 0 /\ rank = <<>>
SchedNext == Next /\ UNCHANGED <<c, rank>>

---------------------------------------------------------------------------
RECURSIVE RandPerm(_)
\* a uniformly random sequence of the elements of S
RandPerm(S) == IF S = {} THEN <<>>
               ELSE LET x == RandomElement(S) IN <<x>> \o RandPerm(S \ {x})

\* -simulate: ONE long behaviour = many runs of the spec back to back; after a run has returned,
\* Restart draws a fresh (n, nw, mode) and a fresh sleep-rank vector.  So every record gives the
\* harness a feasible schedule (order) AND arbitrary sleep times (rank).
SimInit == /\ n = 0 /\ nw = 1 /\ mode = "list" /\ c = 0 /\ rank = <<>>
           /\ pending = {} /\ running = [w \in 1 .. 1 |-> Idle] /\ arrived = <<>> /\ collected = 0
           /\ store = EmptyFn /\ execs = [i \in {} |-> 0] /\ phase = "run" /\ ret = <<>>
Restart == /\ phase = "returned"
           /\ c' = c + 1
           /\ n' = RandomElement(NSet)
           /\ nw' = RandomElement(WSet)
           /\ mode' = RandomElement(Modes)
           /\ rank' = RandPerm(0 .. (n' - 1))
           /\ pending' = 0 .. (n' - 1)
           /\ running' = [w \in 1 .. nw' |-> Idle]
           /\ arrived' = <<>> /\ collected' = 0 /\ store' = EmptyFn
           /\ execs' = [i \in 0 .. (n' - 1) |-> 0]
           /\ phase' = "run" /\ ret' = <<>>
SimNext == (Next /\ UNCHANGED <<c, rank>>) \/ Restart
EmitSim == (phase = "returned" /\ c > 0) => PrintT(ToJson(SchedRec))
=============================================================================
