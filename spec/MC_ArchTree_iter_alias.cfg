\* role A: even the repaired iterator yields a shared list object: read after the iteration it is not the ancestor list (TLC must find a counterexample)
CONSTANTS
  MaxN = 4
  MaxDepth = 4
  LeafKinds = {"Memory", "Container", "Compute"}
  BranchKinds = {"Fork", "Hierarchical"}
  Fanouts = {1, 2}
  ComputeFanouts = {1, 3}
  MinEmit = 1
  AppendComputes = FALSE
  CountOwn = TRUE
SPECIFICATION Spec
INVARIANT RetainedParentsAreAncestors
