---------------------------- MODULE MC_TileShapes ----------------------------
(* Generators and lemmas for C10.  Every behaviour is one job: the initial   *)
(* state names the job, the single step computes its answer from the         *)
(* definitions of TileShapes (so that TLC's workers share the work), and the *)
(* invariant Emit prints job and answer for the harness.                     *)
(*                                                                           *)
(* PARAM_FILE: {"max_outer": 512, "extra_outers": [..], "nmax": 64,          *)
(*              "lmax": 4, "lemma_outer": 7, "lemma_n": 8}                   *)
EXTENDS TileShapes, TLC, Json, IOUtils

CONSTANT Jobs

VARIABLES job, out
vars == <<job, out>>

\* out = <<>> while pending, <<answer>> afterwards

Params == JsonDeserialize(IOEnv.PARAM_FILE)
SeqToSet(q) == {q[i] : i \in 1..Len(q)}

Outers == (1..Params.max_outer) \cup SeqToSet(Params.extra_outers)

\* ---- job sets.  A job is [kind, a, b, pat]:
\*   "perfect":          a = outer size                      -> {<<inner, PerfectCands(inner, a)>> : inner | a}
\*   "chains":           a = n, pat = imperfection pattern   -> Chains(a, pat)
\*   "lemma_imperfect":  a = outer, b = inner                -> TRUE iff the fast predicates equal the definitions
\*   "lemma_chains":     a = n, pat                          -> TRUE iff ChainSet agrees with its independent statements
Job(k, x, y, p) == [kind |-> k, a |-> x, b |-> y, pat |-> p]

JobsPerfect == {Job("perfect", o, 0, <<>>) : o \in Outers}

Patterns(lmax) == UNION {[1..k -> BOOLEAN] : k \in 0..lmax}
JobsChains == {Job("chains", n, 0, p) : n \in 1..Params.nmax, p \in Patterns(Params.lmax)}

JobsLemma ==
  {Job("lemma_imperfect", o, i, <<>>) : o \in 1..Params.lemma_outer, i \in 1..Params.lemma_outer}
  \cup {Job("lemma_chains", n, 0, p) : n \in 1..Params.lemma_n, p \in Patterns(4)}

JobsAll == JobsLemma \cup JobsPerfect \cup JobsChains

AllPerfect(p) == \A i \in 1..Len(p) : ~p[i]

LemmaImperfect(o, i) ==
  o % i # 0 \/
  \A C \in SUBSET (0..(o + 1)) :
     /\ ImperfectOK(C, i, o) = ImperfectOK_Def(C, i, o)
     /\ CoversIntFast(C, i, o)  = CoversInt(C, i, o)
     /\ CoversMultFast(C, i, o) = CoversMult(C, i, o)
     /\ (i = 1 => CoversInt(C, i, o) = CoversMult(C, i, o))

LemmaChains(n, p) ==
  /\ ChainSet(n, p) = ChainSetByFilter(n, p)
  /\ (AllPerfect(p) /\ Len(p) >= 1) => Chains(n, p) = Cardinality(OrderedFactorisations(n, Len(p)))

IsLemma(j) == j.kind \in {"lemma_imperfect", "lemma_chains"}

Answer(j) ==
  CASE j.kind = "perfect" -> {<<i, PerfectCands(i, j.a)>> : i \in Divisors(j.a)}
    [] j.kind = "chains" -> Chains(j.a, j.pat)
    [] j.kind = "lemma_imperfect" -> LemmaImperfect(j.a, j.b)
    [] j.kind = "lemma_chains" -> LemmaChains(j.a, j.pat)

Init == job \in Jobs /\ out = <<>>
Compute == Len(out) = 0 /\ out' = <<Answer(job)>> /\ UNCHANGED job
Spec == Init /\ [][Compute]_vars

Emit == IF Len(out) = 0 \/ IsLemma(job) THEN TRUE ELSE PrintT(ToJson([job |-> job, out |-> out[1]]))

LemmaHolds == (Len(out) = 1 /\ IsLemma(job)) => out[1] = TRUE
=============================================================================
