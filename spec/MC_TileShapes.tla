---------------------------- MODULE MC_TileShapes ----------------------------
(* Generators and lemmas for C10.  Every behaviour is one job: the initial   *)
(* state names the job, the single step computes its answer from the         *)
(* definitions of TileShapes (so that TLC's workers share the work), and the *)
(* invariant Emit prints job and answer for the harness.                     *)
(*                                                                           *)
(* PARAM_FILE: {"max_outer": 512, "extra_outers": [..], "nmax": 64,          *)
(*              "lmax": 4, "lemma_outer": 8, "lemma_n": 10}                  *)
EXTENDS TileShapes, TLC, Json, IOUtils

CONSTANT Jobs

VARIABLES job, out
vars == <<job, out>>

\* out = <<>> while pending, <<answer>> afterwards

Params == JsonDeserialize(IOEnv.PARAM_FILE)
SeqToSet(q) == {q[i] : i \in 1..Len(q)}

Outers == (1..Params.max_outer) \cup SeqToSet(Params.extra_outers)

\* ---- job sets
JobsPerfect == {[kind |-> "perfect", outer |-> o] : o \in Outers}

Patterns(lmax) == UNION {[1..k -> BOOLEAN] : k \in 0..lmax}
JobsChains == {[kind |-> "chains", n |-> n, pat |-> p] : n \in 1..Params.nmax, p \in Patterns(Params.lmax)}

\* lemma jobs (small, fixed bounds)
JobsLemmaImperfect ==
  {[kind |-> "lemma_imperfect", outer |-> o, inner |-> i] : o \in 1..Params.lemma_outer, i \in 1..Params.lemma_outer}
JobsLemmaChains ==
  {[kind |-> "lemma_chains", n |-> n, pat |-> p] : n \in 1..Params.lemma_n, p \in Patterns(4)}
JobsLemma == JobsLemmaImperfect \cup JobsLemmaChains

AllPerfect(p) == \A i \in 1..Len(p) : ~p[i]

LemmaImperfect(o, i) ==
  o % i # 0 \/
  \A C \in SUBSET (0..(o + 1)) :
     /\ ImperfectOK(C, i, o) = ImperfectOK_Def(C, i, o)
     /\ CoversIntFast(C, i, o)  = CoversInt(C, i, o)
     /\ CoversMultFast(C, i, o) = CoversMult(C, i, o)
     /\ (i = 1 => CoversInt(C, i, o) = CoversMult(C, i, o))

LemmaChains(n, p) ==
  /\ ChainSet(n, p) = ChainSetByFilter(n, p)
  /\ (AllPerfect(p) /\ Len(p) >= 1) => Chains(n, p) = Cardinality(OrderedFactorisations(n, Len(p)))

Answer(j) ==
  CASE j.kind = "perfect" ->
         \* one pair <<inner, candidate set>> per inner size dividing the outer size
         {<<i, PerfectCands(i, j.outer)>> : i \in Divisors(j.outer)}
    [] j.kind = "chains" -> Chains(j.n, j.pat)
    [] j.kind = "lemma_imperfect" -> LemmaImperfect(j.outer, j.inner)
    [] j.kind = "lemma_chains" -> LemmaChains(j.n, j.pat)

Init == job \in Jobs /\ out = <<>>
Compute == Len(out) = 0 /\ out' = <<Answer(job)>> /\ UNCHANGED job
Spec == Init /\ [][Compute]_vars

Emit == IF Len(out) = 0 THEN TRUE ELSE PrintT(ToJson([job |-> job, out |-> out[1]]))

LemmaHolds == Len(out) = 1 => out[1] = TRUE
=============================================================================
