CONSTANTS
  Vars <- MCVars
  NV = 1
  MaxB = 1
  MaxCoef = 1
  MaxC = 0
  MaxRanks = 1
  MaxEins = 1
  N = 0
  LemK = 2
  LemHi = 2
INIT LemInit
NEXT ExhNext
INVARIANT BoxLemma
