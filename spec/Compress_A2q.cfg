CONSTANTS
  Shapes <- Shapes22
  ESet <- Two
  RSet <- One
  KeyMode = "before"
  WalkMode = "reverse"
SPECIFICATION Spec
INVARIANT Lossless
INVARIANT NoError
INVARIANT CompressInv
