\* role A (thorough): all interleavings; n=5, stride in {1,3}, volume 1
CONSTANTS
  Cases <- CasesMid
  ReplicateAnywhere = FALSE
SPECIFICATION Spec
INVARIANT TypeOK
INVARIANT NoStuckPacket
INVARIANT HopsAreLinkCrossings
INVARIANT NoDuplicateService
INVARIANT SharedValueOncePerLink
INVARIANT AllDelivered
INVARIANT Confluent
