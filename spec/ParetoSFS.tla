----------------------------- MODULE ParetoSFS -----------------------------
(* The algorithm of fast_pareto.py:_sfs_bnl_core as a transition system      *)
(* (role A): sort the rows by a KEY (stable), scan them in that order, admit *)
(* a row iff no row already in the window dominates it.                      *)
(*                                                                           *)
(* The implementation's key is the float32 sum of the row.  A floating sum   *)
(* is monotone but not strictly monotone in each coordinate (absorption:     *)
(* 1e8 + 1 = 1e8 in float32).  KeyMode selects                               *)
(*    "exact"  : Key = exact sum                   (what the design intends) *)
(*    "coarse" : Key = sum \div Grain              (a rounding sum)          *)
(*    "coarse_lex" : coarse key, ties broken lexicographically by the row    *)
(* TLC shows: exact and coarse_lex satisfy Correct, coarse does not -- the   *)
(* scan is only correct when the order is a linear extension of dominance.   *)
EXTENDS Pareto, TLC

CONSTANTS R, C, Vals, KeyMode, Grain

VARIABLES M, order, pos, window, mask

vars == <<M, order, pos, window, mask>>

G == [c \in 1..C |-> "min"]

RECURSIVE SumTo(_, _)
SumTo(row, k) == IF k = 0 THEN 0 ELSE row[k] + SumTo(row, k - 1)
Sum(row) == SumTo(row, C)

Key(row) == IF KeyMode = "exact" THEN Sum(row) ELSE Sum(row) \div Grain

RECURSIVE LexLess(_, _, _)
LexLess(a, b, k) == IF k > C THEN FALSE
                    ELSE IF a[k] # b[k] THEN a[k] < b[k] ELSE LexLess(a, b, k + 1)

\* i sorts strictly before j (stable: ties by original index)
Before(i, j) ==
  \/ Key(M[i]) < Key(M[j])
  \/ /\ Key(M[i]) = Key(M[j])
     /\ IF KeyMode = "coarse_lex" /\ M[i] # M[j]
        THEN LexLess(M[i], M[j], 1)
        ELSE i < j

SortedOrder ==
  CHOOSE s \in [1..R -> 1..R] :
    /\ \A i, j \in 1..R : i # j => s[i] # s[j]
    /\ \A i, j \in 1..R : i < j => Before(s[i], s[j])

Init == /\ M \in [1..R -> [1..C -> Vals]]
        /\ order = SortedOrder
        /\ pos = 1
        /\ window = {}
        /\ mask = [i \in 1..R |-> FALSE]

\* Probe + Admit / Reject of the row at position pos
Admit == /\ pos <= R
         /\ ~ \E w \in window : Dominates(G, M[w], M[order[pos]])
         /\ window' = window \cup {order[pos]}
         /\ mask' = [mask EXCEPT ![order[pos]] = TRUE]
         /\ pos' = pos + 1
         /\ UNCHANGED <<M, order>>

Reject == /\ pos <= R
          /\ \E w \in window : Dominates(G, M[w], M[order[pos]])
          /\ pos' = pos + 1
          /\ UNCHANGED <<M, order, window, mask>>

Next == Admit \/ Reject

Spec == Init /\ [][Next]_vars

\* At termination the admitted rows are exactly the non-dominated ones
\* (deduplication is a separate, later step in the implementation).
NonDominated(i) == ~ \E j \in 1..R : Dominates(G, M[j], M[i])
Correct == pos = R + 1 => \A i \in 1..R : mask[i] = NonDominated(i)

\* Window rows never dominate each other -- only true for a good key
WindowAntichain == \A a, b \in window : ~ Dominates(G, M[a], M[b])
=============================================================================
