------------------------------ MODULE ArchTree ------------------------------
(***************************************************************************)
(* Architecture trees of accelforge (frontend/arch/structure.py), what      *)
(* flattening must return (C25), how many instances a component has (C26),  *)
(* and the hierarchical iterator ArchNode.iterate_hierarchically with its   *)
(* shared parent list written as actions (role A).                          *)
(*                                                                          *)
(* A tree is the preorder listing of the nodes below the root Arch: a       *)
(* sequence of records [k |-> kind, f |-> spatial fanout, d |-> depth].     *)
(* Children of the root have depth 1; node i+1 is a child of node i iff its *)
(* depth is one larger.  The root Arch is itself a Hierarchical.            *)
(*                                                                          *)
(* Meaning of the kinds (docs/source/guide/spec/architecture.rst):          *)
(*   Hierarchical  every node is a parent of the nodes that follow it; a    *)
(*                 nested Hierarchical just continues the chain;            *)
(*   Fork          a Hierarchical that branches off: the nodes inside are a *)
(*                 side branch, the main chain continues after the Fork;    *)
(*   Compute       a leaf that ends one compute path; it branches off to    *)
(*                 the side, the chain continues after it;                  *)
(*   Memory, Toll, Container   the leaves a path is made of.                *)
(* A spatial fanout N on a leaf means there are N instances of that leaf,   *)
(* and the fanout also applies to everything below it (spatialable.py).     *)
(***************************************************************************)
EXTENDS Integers, Sequences, FiniteSets, TLC, Json

CONSTANTS
  MaxN,           \* max number of nodes below the root
  MaxDepth,       \* max depth of a leaf (a branch node has depth < MaxDepth)
  LeafKinds,      \* subset of {"Memory", "Toll", "Container", "Compute"}
  BranchKinds,    \* subset of {"Fork", "Hierarchical"}
  Fanouts,        \* spatial fanouts a Memory / Toll / Container may carry
  ComputeFanouts, \* spatial fanouts a Compute may carry
  BranchTags,     \* {1}; larger sets only make branch nodes more likely in -simulate
  MinEmit,        \* the generator prints only trees with at least this many nodes
  AppendComputes, \* iterator variant: Compute leaves are appended to the shared list
  CountOwn        \* cost variant: the component's own fanout is multiplied in

VARIABLES tree,   \* the tree (grown node by node, then fixed)
          pc,     \* 0 while growing; i >= 1: the iterator visits node i next
          st      \* state of the iterator (see InitSt)

vars == <<tree, pc, st>>

SetMin(S) == CHOOSE x \in S : \A y \in S : x <= y
SetMax(S) == CHOOSE x \in S : \A y \in S : x >= y

\* the elements of S \subseteq 1..n in ascending order
RECURSIVE AscFrom(_, _, _)
AscFrom(S, k, n) == IF k > n THEN <<>>
                    ELSE IF k \in S THEN <<k>> \o AscFrom(S, k + 1, n)
                    ELSE AscFrom(S, k + 1, n)
Asc(S, n) == AscFrom(S, 1, n)

-----------------------------------------------------------------------------
(* Structure                                                                *)
IsBranch(t, i)    == t[i].k \in {"Fork", "Hierarchical"}
IsLeaf(t, i)      == ~ IsBranch(t, i)
IsCompute(t, i)   == t[i].k = "Compute"
IsPathLeaf(t, i)  == IsLeaf(t, i) /\ ~ IsCompute(t, i)
IsComponent(t, i) == t[i].k \in {"Memory", "Toll", "Compute"}   \* has area / leak power

\* last node of the subtree rooted at a
RECURSIVE SubEndFrom(_, _, _)
SubEndFrom(t, a, j) == IF j > Len(t) \/ t[j].d <= t[a].d THEN j - 1
                       ELSE SubEndFrom(t, a, j + 1)
SubEnd(t, a) == SubEndFrom(t, a, a + 1)
InSub(t, a, i) == a <= i /\ i <= SubEnd(t, a)

Forks(t)          == {a \in 1..Len(t) : t[a].k = "Fork"}
ForksAround(t, i) == {a \in Forks(t) : a < i /\ InSub(t, a, i)}
Computes(t)       == {c \in 1..Len(t) : IsCompute(t, c)}

-----------------------------------------------------------------------------
(* THE DEFINITIONS.                                                         *)
(* Leaf j is above node i: j comes before i, j is a non-compute leaf, and   *)
(* every Fork that contains j also contains i (j is not in a side branch    *)
(* that i is not part of).                                                  *)
Above(t, j, i) ==
  /\ j < i
  /\ IsPathLeaf(t, j)
  /\ \A a \in ForksAround(t, j) : InSub(t, a, i)

Ancestors(t, i) == {j \in 1..Len(t) : Above(t, j, i)}
AncSeq(t, i)    == Asc(Ancestors(t, i), Len(t))

\* C25: the flattened architecture of compute c, top-down
Path(t, c) == Append(AncSeq(t, c), c)

\* product of the fanouts of the nodes listed in s
RECURSIVE ProdSeq(_, _)
ProdSeq(t, s) == IF s = <<>> THEN 1 ELSE t[Head(s)].f * ProdSeq(t, Tail(s))

\* C26: number of instances of leaf i
Instances(t, i) == t[i].f * ProdSeq(t, AncSeq(t, i))

\* per-instance values (any positive integers; different per node and per quantity)
ValA(i) == 2 * i + 3
ValL(i) == 100 + 7 * i

ComponentsOf(t) == {i \in 1..Len(t) : IsComponent(t, i)}

RECURSIVE SumSeq(_)
SumSeq(s) == IF s = <<>> THEN 0 ELSE Head(s) + SumSeq(Tail(s))

-----------------------------------------------------------------------------
(* Well-formed trees (the inputs the properties speak of)                   *)
ShapeOK(t) ==
  \A i \in 1..Len(t) :
    /\ t[i].d >= 1
    /\ t[i].d <= (IF IsBranch(t, i) THEN MaxDepth - 1 ELSE MaxDepth)
    /\ IF i = 1 THEN t[i].d = 1
       ELSE /\ t[i].d <= t[i - 1].d + 1
            /\ (t[i].d = t[i - 1].d + 1) => IsBranch(t, i - 1)
    /\ (IsBranch(t, i) /\ i < Len(t)) => t[i + 1].d = t[i].d + 1  \* no empty branch

HasCompute(t, a) == \E c \in Computes(t) : InSub(t, a, c)
OnSomePath(t, j) == \E c \in Computes(t) : Above(t, j, c)
Closed(t, a)     == SubEnd(t, a) < Len(t)

\* a prefix that can still be completed: nothing that is already closed is wrong
PrefixOK(t) ==
  /\ ShapeOK(t)
  /\ \A a \in Forks(t) : Closed(t, a) => HasCompute(t, a)
  /\ \A j \in 1..Len(t) :
       (IsPathLeaf(t, j) /\ \E a \in ForksAround(t, j) : Closed(t, a)) => OnSomePath(t, j)

\* a complete tree: every Fork holds a compute, every other leaf lies on the path of
\* some compute, no branch is empty
WF(t) ==
  /\ Len(t) >= 1
  /\ ShapeOK(t)
  /\ IsLeaf(t, Len(t))
  /\ Computes(t) # {}
  /\ \A a \in Forks(t) : HasCompute(t, a)
  /\ \A j \in 1..Len(t) : IsPathLeaf(t, j) => OnSomePath(t, j)

NodeRecs ==
  [k : LeafKinds \ {"Compute"}, f : Fanouts, d : 1..MaxDepth]
    \cup [k : LeafKinds \cap {"Compute"}, f : ComputeFanouts, d : 1..MaxDepth]
    \cup [k : BranchKinds, f : BranchTags, d : 1..(MaxDepth - 1)]

-----------------------------------------------------------------------------
(* The iterator ArchNode.iterate_hierarchically as a machine.               *)
(* lists : the list objects that exist (list 1 is the `[]` of the root);    *)
(* at[d] : which list object the children at depth d are handed;            *)
(* ys    : what was yielded: node, the list object, and what that object    *)
(*         contained at the moment of the yield.                            *)
InitSt == [lists |-> << <<>> >>, at |-> [d \in 1..MaxDepth |-> 1], ys |-> <<>>]

StepSt(t, s, i, ac) ==
  LET d == t[i].d
      L == s.at[d]
  IN CASE t[i].k = "Hierarchical" ->          \* no name: hands its own list on
            [s EXCEPT !.at[d + 1] = L]
       [] t[i].k = "Fork" ->                  \* no name: _parents = list(_parents)
            [s EXCEPT !.lists = Append(@, s.lists[L]),
                      !.at[d + 1] = Len(s.lists) + 1]
       [] OTHER ->                            \* named leaf: yield, then append itself
            [s EXCEPT !.ys = Append(@, [n |-> i, l |-> L, seen |-> s.lists[L]]),
                      !.lists[L] = IF IsCompute(t, i) /\ ~ ac THEN @ ELSE Append(@, i)]

RECURSIVE RunSt(_, _, _)
RunSt(t, i, ac) == IF i = 0 THEN InitSt ELSE StepSt(t, RunSt(t, i - 1, ac), i, ac)

\* Spec.calculate_component_costs: global_fanout from the yielded parent list
AlgInst(t, y, own) == (IF own THEN t[y.n].f ELSE 1) * ProdSeq(t, y.seen)

-----------------------------------------------------------------------------
(* Behaviours: grow a tree node by node; from any complete tree the         *)
(* iterator may be started and then visits the nodes in preorder.           *)
Init == tree = <<>> /\ pc = 0 /\ st = InitSt

\* Appending nd to the prefix t (which is PrefixOK) keeps it PrefixOK: only what nd
\* closes has to be looked at.  (GrowIsPrefixOK below lets TLC confirm the equivalence.)
ExtendOK(t, nd) ==
  LET n  == Len(t)
      t2 == Append(t, nd)
  IN IF n = 0 THEN nd.d = 1
     ELSE /\ nd.d <= t[n].d + 1
          /\ (nd.d = t[n].d + 1) <=> IsBranch(t, n)       \* child iff the last node is a branch
          /\ \A a \in Forks(t) :
               (SubEnd(t, a) = n /\ nd.d <= t[a].d) =>     \* nd closes Fork a
                 /\ HasCompute(t, a)
                 /\ \A j \in a..n : (IsPathLeaf(t, j) /\ SetMax(ForksAround(t, j)) = a)
                                       => OnSomePath(t2, j)

Grow == /\ pc = 0
        /\ Len(tree) < MaxN
        /\ \E nd \in NodeRecs :
             /\ ExtendOK(tree, nd)
             /\ tree' = Append(tree, nd)
             /\ (Len(tree') = MaxN => WF(tree'))
        /\ UNCHANGED <<pc, st>>

Start == /\ pc = 0
         /\ WF(tree)
         /\ pc' = 1
         /\ UNCHANGED <<tree, st>>

Visit(kinds) == /\ pc >= 1
                /\ pc <= Len(tree)
                /\ tree[pc].k \in kinds
                /\ st' = StepSt(tree, st, pc, AppendComputes)
                /\ pc' = pc + 1
                /\ UNCHANGED tree

VisitLeaf == Visit({"Memory", "Toll", "Container", "Compute"})
VisitHier == Visit({"Hierarchical"})
VisitFork == Visit({"Fork"})

Next    == Grow \/ Start \/ VisitLeaf \/ VisitHier \/ VisitFork
Spec    == Init /\ [][Next]_vars
GenNext == Grow                       \* the case generator only grows trees

\* for -simulate: one long walk that starts a new tree whenever the current one is full
Restart     == pc = 0 /\ Len(tree) = MaxN /\ tree' = <<>> /\ UNCHANGED <<pc, st>>
GenRandNext == Grow \/ Restart

Done == pc = Len(tree) + 1

\* every leaf is yielded exactly once, in preorder
AllLeavesYielded ==
  Done => [k \in 1..Len(st.ys) |-> st.ys[k].n] = Asc({i \in 1..Len(tree) : IsLeaf(tree, i)}, Len(tree))

\* the parent list, read at the moment of the yield, is the list of ancestors
YieldedParentsAreAncestors ==
  pc >= 1 => \A k \in 1..Len(st.ys) : st.ys[k].seen = AncSeq(tree, st.ys[k].n)

\* the yielded list *object*, read after the iteration, is still the list of ancestors
\* (false for every variant: the object is shared and keeps growing -- aliasing)
RetainedParentsAreAncestors ==
  Done => \A k \in 1..Len(st.ys) : st.lists[st.ys[k].l] = AncSeq(tree, st.ys[k].n)

\* calculate_component_costs on top of the iterator counts the instances
CostsCorrect ==
  Done => \A k \in 1..Len(st.ys) :
            IsComponent(tree, st.ys[k].n) =>
              AlgInst(tree, st.ys[k], CountOwn) = Instances(tree, st.ys[k].n)

\* Hierarchical._flatten as coded (a Fork that does not contain c is skipped, other
\* computes are passed over, finding c ends every enclosing loop) returns the definition
RECURSIVE FlatFrom(_, _, _, _)
FlatFrom(t, c, i, acc) ==
  IF i > Len(t) THEN acc
  ELSE IF t[i].k = "Fork" /\ ~ InSub(t, i, c) THEN FlatFrom(t, c, SubEnd(t, i) + 1, acc)
  ELSE IF IsBranch(t, i) THEN FlatFrom(t, c, i + 1, acc)
  ELSE IF IsCompute(t, i) THEN (IF i = c THEN Append(acc, i) ELSE FlatFrom(t, c, i + 1, acc))
  ELSE FlatFrom(t, c, i + 1, Append(acc, i))

FlattenIsPath == WF(tree) => \A c \in Computes(tree) : FlatFrom(tree, c, 1, <<>>) = Path(tree, c)

-----------------------------------------------------------------------------
(* Case records for the harness (binding B).  Names are given here so that  *)
(* the expected paths are lists of names.                                   *)
Name(i) == "n" \o ToString(i)
Names(s) == [k \in 1..Len(s) |-> Name(s[k])]

RECURSIVE Conc(_, _)    \* the function f over 1..n as an explicit tuple (each f[k] evaluated once)
Conc(f, n) == IF n = 0 THEN <<>> ELSE Append(Conc(f, n - 1), f[n])

\* outcome of a variant of the algorithm (s = final iterator state), per component and in total
VariantRec(t, s, own) ==
  LET comp == SelectSeq(s.ys, LAMBDA y : IsComponent(t, y.n))
      m    == Len(comp)
      inst == Conc([k \in 1..m |-> AlgInst(t, comp[k], own)], m)
  IN [inst |-> [k \in 1..m |-> [name |-> Name(comp[k].n), inst |-> inst[k]]],
      total_area |-> SumSeq([k \in 1..m |-> ValA(comp[k].n) * inst[k]]),
      total_leak |-> SumSeq([k \in 1..m |-> ValL(comp[k].n) * inst[k]])]

NodesRec(t) ==
  [i \in 1..Len(t) |->
     [name |-> Name(i), k |-> t[i].k, f |-> t[i].f, d |-> t[i].d,
      area |-> IF IsComponent(t, i) THEN ValA(i) ELSE 0,
      leak |-> IF IsComponent(t, i) THEN ValL(i) ELSE 0]]

\* C25: the tree and, per compute, the expected flattened architecture
Rec25(t) ==
  LET cs == Asc(Computes(t), Len(t))
  IN [nodes |-> NodesRec(t),
      paths |-> [k \in 1..Len(cs) |-> [c |-> Name(cs[k]), path |-> Names(Path(t, cs[k]))]]]

\* C26: the tree and, per component, the expected number of instances and totals
Rec26(t) ==
  LET n     == Len(t)
      comps == Asc(ComponentsOf(t), n)
      m     == Len(comps)
      inst  == Conc([k \in 1..m |-> Instances(t, comps[k])], m)   \* from the definition
      sT    == RunSt(t, n, TRUE)
      sF    == RunSt(t, n, FALSE)
  IN [nodes |-> NodesRec(t),
      comps |-> [k \in 1..m |->
                   [name |-> Name(comps[k]), inst |-> inst[k],
                    total_area |-> ValA(comps[k]) * inst[k],
                    total_leak |-> ValL(comps[k]) * inst[k]]],
      total_area |-> SumSeq([k \in 1..m |-> ValA(comps[k]) * inst[k]]),
      total_leak |-> SumSeq([k \in 1..m |-> ValL(comps[k]) * inst[k]]),
      \* what the deviating variants of the algorithm compute (role A shows that they are
      \* wrong); used only to name a known defect precisely
      variants |-> [coded |-> VariantRec(t, sT, FALSE),
                    noown |-> VariantRec(t, sF, FALSE),
                    sib   |-> VariantRec(t, sT, TRUE)],
      \* what the iterator as coded yields (node, parents at the moment of the yield)
      iter |-> [k \in 1..Len(sT.ys) |-> [n |-> Name(sT.ys[k].n), seen |-> Names(sT.ys[k].seen)]]]

Emit25 == (WF(tree) /\ Len(tree) >= MinEmit) => PrintT(ToJson(Rec25(tree)))
Emit26 == (WF(tree) /\ Len(tree) >= MinEmit) => PrintT(ToJson(Rec26(tree)))

\* Grow builds exactly the viable prefixes
GrowIsPrefixOK == pc = 0 => PrefixOK(tree)
=============================================================================
