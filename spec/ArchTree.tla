------------------------------ MODULE ArchTree ------------------------------
(***************************************************************************)
(* Architecture trees of accelforge (frontend/arch/structure.py), what      *)
(* flattening must return (C25), how many instances a component has (C26),  *)
(* and the hierarchical iterator ArchNode.iterate_hierarchically with its   *)
(* shared parent list written as actions (role A).                          *)
(*                                                                          *)
(* A tree is the preorder listing of the nodes below the root Arch: a       *)
(* sequence of records [k |-> kind, f |-> spatial fanout, d |-> depth].     *)
(* Children of the root have depth 1; node i+1 is a child of node i iff its *)
(* depth is one larger.  The root Arch is itself a Hierarchical.            *)
(*                                                                          *)
(* Meaning of the kinds (docs/source/guide/spec/architecture.rst):          *)
(*   Hierarchical  every node is a parent of the nodes that follow it; a    *)
(*                 nested Hierarchical just continues the chain;            *)
(*   Fork          a Hierarchical that branches off: the nodes inside are a *)
(*                 side branch, the main chain continues after the Fork;    *)
(*   Compute       a leaf that ends one compute path; it branches off to    *)
(*                 the side, the chain continues after it;                  *)
(*   Memory, Toll, Container   the leaves a path is made of.                *)
(* A spatial fanout N on a leaf means there are N instances of that leaf,   *)
(* and the fanout also applies to everything below it (spatialable.py).     *)
(***************************************************************************)
EXTENDS Integers, Sequences, FiniteSets, TLC, Json

CONSTANTS
  MaxN,           \* max number of nodes below the root
  MaxDepth,       \* max depth of a leaf (a branch node has depth < MaxDepth)
  LeafKinds,      \* subset of {"Memory", "Toll", "Container", "Compute"}
  BranchKinds,    \* subset of {"Fork", "Hierarchical"}
  Fanouts,        \* spatial fanouts a Memory / Toll / Container may carry
  ComputeFanouts, \* spatial fanouts a Compute may carry
  MinEmit,        \* the generator prints only trees with at least this many nodes
  AppendComputes, \* iterator variant: Compute leaves are appended to the shared list
  CountOwn        \* cost variant: the component's own fanout is multiplied in

VARIABLES tree,   \* the tree (grown node by node, then fixed)
          pc,     \* 0 while growing; i >= 1: the iterator visits node i next
          st      \* state of the iterator (see InitSt)

vars == <<tree, pc, st>>

\* the function f over 1..n as an explicit tuple (every f[k] is evaluated exactly once)
RECURSIVE Conc(_, _)
Conc(f, n) == IF n = 0 THEN <<>> ELSE Append(Conc(f, n - 1), f[n])

\* the elements of S \subseteq 1..n in ascending order
RECURSIVE AscFrom(_, _, _)
AscFrom(S, k, n) == IF k > n THEN <<>>
                    ELSE IF k \in S THEN <<k>> \o AscFrom(S, k + 1, n)
                    ELSE AscFrom(S, k + 1, n)
Asc(S, n) == AscFrom(S, 1, n)

RECURSIVE SumSeq(_)
SumSeq(s) == IF s = <<>> THEN 0 ELSE Head(s) + SumSeq(Tail(s))

-----------------------------------------------------------------------------
(* Structure                                                                *)
IsBranch(t, i)    == t[i].k \in {"Fork", "Hierarchical"}
IsLeaf(t, i)      == ~ IsBranch(t, i)
IsCompute(t, i)   == t[i].k = "Compute"
IsPathLeaf(t, i)  == IsLeaf(t, i) /\ ~ IsCompute(t, i)
IsComponent(t, i) == t[i].k \in {"Memory", "Toll", "Compute"}   \* has area / leak power

Computes(t)     == {c \in 1..Len(t) : IsCompute(t, c)}
ComponentsOf(t) == {i \in 1..Len(t) : IsComponent(t, i)}

\* last node of the subtree rooted at a
RECURSIVE SubEndFrom(_, _, _)
SubEndFrom(t, a, j) == IF j > Len(t) \/ t[j].d <= t[a].d THEN j - 1
                       ELSE SubEndFrom(t, a, j + 1)
SubEnd(t, a) == SubEndFrom(t, a, a + 1)

(* Two tables about a tree, computed once per tree and handed to the         *)
(* definitions below as `v` (TLC would otherwise recompute them per use):    *)
(*   v.end[a]    last node of the subtree of a     (a contains i iff         *)
(*                                                  a <= i <= v.end[a])      *)
(*   v.around[i] the Forks that contain node i (other than i itself)         *)
View(t) ==
  LET n   == Len(t)
      end == Conc([a \in 1..n |-> SubEnd(t, a)], n)
  IN [end    |-> end,
      around |-> Conc([i \in 1..n |-> {a \in 1..(i - 1) : t[a].k = "Fork" /\ i <= end[a]}], n)]

InSub(v, a, i) == a <= i /\ i <= v.end[a]
Forks(t)       == {a \in 1..Len(t) : t[a].k = "Fork"}

-----------------------------------------------------------------------------
(* THE DEFINITIONS.                                                         *)
(* Leaf j is above node i: j comes before i, j is a non-compute leaf, and   *)
(* every Fork that contains j also contains i (j is not in a side branch    *)
(* that i is not part of).                                                  *)
Above(t, v, j, i) ==
  /\ j < i
  /\ IsPathLeaf(t, j)
  /\ \A a \in v.around[j] : InSub(v, a, i)

Ancestors(t, v, i) == {j \in 1..Len(t) : Above(t, v, j, i)}
AncSeq(t, v, i)    == Asc(Ancestors(t, v, i), Len(t))

\* C25: the flattened architecture of compute c, top-down
Path(t, v, c) == Append(AncSeq(t, v, c), c)

\* product of the fanouts of the nodes listed in s
RECURSIVE ProdSeq(_, _)
ProdSeq(t, s) == IF s = <<>> THEN 1 ELSE t[Head(s)].f * ProdSeq(t, Tail(s))

\* C26: number of instances of leaf i
Instances(t, v, i) == t[i].f * ProdSeq(t, AncSeq(t, v, i))

\* per-instance values (any positive integers; different per node and per quantity)
ValA(i) == 2 * i + 3
ValL(i) == 100 + 7 * i

-----------------------------------------------------------------------------
(* Well-formed trees (the inputs the properties speak of)                   *)
ShapeOK(t) ==
  \A i \in 1..Len(t) :
    /\ t[i].d >= 1
    /\ t[i].d <= (IF IsBranch(t, i) THEN MaxDepth - 1 ELSE MaxDepth)
    /\ IF i = 1 THEN t[i].d = 1
       ELSE /\ t[i].d <= t[i - 1].d + 1
            /\ (t[i].d = t[i - 1].d + 1) => IsBranch(t, i - 1)
    /\ (IsBranch(t, i) /\ i < Len(t)) => t[i + 1].d = t[i].d + 1  \* no empty branch

HasCompute(t, v, a) == \E c \in Computes(t) : InSub(v, a, c)
OnSomePath(t, v, j) == \E c \in Computes(t) : Above(t, v, j, c)

\* a complete tree: no branch is empty, every Fork holds a compute, every other leaf
\* lies on the path of some compute
WF(t) ==
  /\ Len(t) >= 1
  /\ ShapeOK(t)
  /\ IsLeaf(t, Len(t))
  /\ Computes(t) # {}
  /\ LET v == View(t)
     IN /\ \A a \in Forks(t) : HasCompute(t, v, a)
        /\ \A j \in 1..Len(t) : IsPathLeaf(t, j) => OnSomePath(t, v, j)

\* a prefix that can still be completed: nothing that is already closed is wrong
PrefixOK(t) ==
  /\ ShapeOK(t)
  /\ LET v == View(t)
         Closed(a) == v.end[a] < Len(t)
     IN /\ \A a \in Forks(t) : Closed(a) => HasCompute(t, v, a)
        /\ \A j \in 1..Len(t) :
             (IsPathLeaf(t, j) /\ \E a \in v.around[j] : Closed(a)) => OnSomePath(t, v, j)

NodeRecs ==
  [k : LeafKinds \ {"Compute"}, f : Fanouts, d : 1..MaxDepth]
    \cup [k : LeafKinds \cap {"Compute"}, f : ComputeFanouts, d : 1..MaxDepth]
    \cup [k : BranchKinds, f : {1}, d : 1..(MaxDepth - 1)]

\* Appending a node of depth d to the prefix t (which is PrefixOK, v = View(t)) keeps it
\* PrefixOK: only the Forks that the new node closes have to be looked at.  If the new
\* node is a Compute the result is even WF: the Forks that stay open contain it, and so
\* do all Forks around the leaves that were still waiting for a compute.
\* (GrowIsPrefixOK and FullIsWF let TLC confirm both statements.)
DepthOK(t, v, d) ==
  LET n == Len(t)
  IN IF n = 0 THEN d = 1
     ELSE /\ d <= t[n].d + 1
          /\ (d = t[n].d + 1) <=> IsBranch(t, n)         \* child iff the last node is a branch
          /\ \A a \in Forks(t) :
               (v.end[a] = n /\ d <= t[a].d) =>          \* the new node closes Fork a
                 /\ HasCompute(t, v, a)
                 /\ \A j \in (a + 1)..n :
                      (IsPathLeaf(t, j) /\ \A b \in v.around[j] : b <= a) => OnSomePath(t, v, j)

\* the nodes that may be appended to t when the tree is to have `target` nodes
Extensions(t, target) ==
  LET v  == View(t)
      ds == {d \in 1..MaxDepth : DepthOK(t, v, d)}
  IN {nd \in NodeRecs : /\ nd.d \in ds
                        /\ (Len(t) + 1 = target) => nd.k = "Compute"
                        /\ (nd.k \in BranchKinds) => Len(t) + 1 < target}

-----------------------------------------------------------------------------
(* The iterator ArchNode.iterate_hierarchically as a machine.               *)
(* lists : the list objects that exist (list 1 is the `[]` of the root);    *)
(* at[d] : which list object the children at depth d are handed;            *)
(* ys    : what was yielded: node, the list object, and what that object    *)
(*         contained at the moment of the yield.                            *)
InitSt == [lists |-> << <<>> >>, at |-> [d \in 1..MaxDepth |-> 1], ys |-> <<>>]

StepSt(t, s, i, ac) ==
  LET d == t[i].d
      L == s.at[d]
  IN CASE t[i].k = "Hierarchical" ->          \* no name: hands its own list on
            [s EXCEPT !.at[d + 1] = L]
       [] t[i].k = "Fork" ->                  \* no name: _parents = list(_parents)
            [s EXCEPT !.lists = Append(@, s.lists[L]),
                      !.at[d + 1] = Len(s.lists) + 1]
       [] OTHER ->                            \* named leaf: yield, then append itself
            [s EXCEPT !.ys = Append(@, [n |-> i, l |-> L, seen |-> s.lists[L]]),
                      !.lists[L] = IF IsCompute(t, i) /\ ~ ac THEN @ ELSE Append(@, i)]

RECURSIVE RunSt(_, _, _)
RunSt(t, i, ac) == IF i = 0 THEN InitSt ELSE StepSt(t, RunSt(t, i - 1, ac), i, ac)

\* Spec.calculate_component_costs: global_fanout from the yielded parent list
AlgInst(t, y, own) == (IF own THEN t[y.n].f ELSE 1) * ProdSeq(t, y.seen)

\* Hierarchical._flatten as coded: a Fork that does not contain c is skipped, other
\* computes are passed over, finding c ends every enclosing loop
RECURSIVE FlatFrom(_, _, _, _, _)
FlatFrom(t, v, c, i, acc) ==
  IF i > Len(t) THEN acc
  ELSE IF t[i].k = "Fork" /\ ~ InSub(v, i, c) THEN FlatFrom(t, v, c, v.end[i] + 1, acc)
  ELSE IF IsBranch(t, i) THEN FlatFrom(t, v, c, i + 1, acc)
  ELSE IF IsCompute(t, i) THEN (IF i = c THEN Append(acc, i) ELSE FlatFrom(t, v, c, i + 1, acc))
  ELSE FlatFrom(t, v, c, i + 1, Append(acc, i))

-----------------------------------------------------------------------------
(* Behaviours: grow a tree node by node; from any complete tree the         *)
(* iterator may be started and then visits the nodes in preorder.           *)
Init == tree = <<>> /\ pc = 0 /\ st = InitSt

Grow == /\ pc = 0
        /\ Len(tree) < MaxN
        /\ \E nd \in Extensions(tree, MaxN) : tree' = Append(tree, nd)
        /\ UNCHANGED <<pc, st>>

Start == /\ pc = 0
         /\ WF(tree)
         /\ pc' = 1
         /\ UNCHANGED <<tree, st>>

Visiting(kinds) == pc >= 1 /\ pc <= Len(tree) /\ tree[pc].k \in kinds
VisitStep == /\ st' = StepSt(tree, st, pc, AppendComputes)
             /\ pc' = pc + 1
             /\ UNCHANGED tree

VisitLeaf == Visiting({"Memory", "Toll", "Container", "Compute"}) /\ VisitStep
VisitHier == Visiting({"Hierarchical"}) /\ VisitStep
VisitFork == Visiting({"Fork"}) /\ VisitStep

Next    == Grow \/ Start \/ VisitLeaf \/ VisitHier \/ VisitFork
Spec    == Init /\ [][Next]_vars
GenNext == Grow                       \* the exhaustive case generator only grows trees

\* for -simulate: every step draws a fresh random well-formed tree with MinEmit..MaxN nodes
\* (a branch node is drawn with probability 1/3 where one fits; reproducible under -seed)
RECURSIVE RandGrow(_, _)
RandGrow(t, target) ==
  IF Len(t) = target THEN t
  ELSE LET ext == Extensions(t, target)
           cb  == {nd \in ext : nd.k \in BranchKinds}
           cl  == ext \ cb
       IN IF cb # {} /\ (cl = {} \/ RandomElement(1..3) = 1)
          THEN RandGrow(Append(t, RandomElement(cb)), target)
          ELSE IF cl # {} THEN RandGrow(Append(t, RandomElement(cl)), target)
          ELSE t      \* cannot happen (a Compute always fits); such a t is not printed

GenRandNext == /\ pc = 0
               /\ tree' = RandGrow(<<>>, RandomElement(MinEmit..MaxN))
               /\ UNCHANGED <<pc, st>>

Done == pc = Len(tree) + 1

\* Grow builds exactly the viable prefixes, and only complete trees of full length
GrowIsPrefixOK == pc = 0 => PrefixOK(tree)
FullIsWF       == Len(tree) = MaxN => WF(tree)

\* every leaf is yielded exactly once, in preorder
AllLeavesYielded ==
  Done => [k \in 1..Len(st.ys) |-> st.ys[k].n] = Asc({i \in 1..Len(tree) : IsLeaf(tree, i)}, Len(tree))

\* the parent list, read at the moment of the yield, is the list of ancestors
YieldedParentsAreAncestors ==
  pc >= 1 => LET v == View(tree)
             IN \A k \in 1..Len(st.ys) : st.ys[k].seen = AncSeq(tree, v, st.ys[k].n)

\* the yielded list *object*, read after the iteration, is still the list of ancestors
\* (false for every variant: the object is shared and keeps growing -- aliasing)
RetainedParentsAreAncestors ==
  Done => LET v == View(tree)
          IN \A k \in 1..Len(st.ys) : st.lists[st.ys[k].l] = AncSeq(tree, v, st.ys[k].n)

\* calculate_component_costs on top of the iterator counts the instances
CostsCorrect ==
  Done => LET v == View(tree)
          IN \A k \in 1..Len(st.ys) :
               IsComponent(tree, st.ys[k].n) =>
                 AlgInst(tree, st.ys[k], CountOwn) = Instances(tree, v, st.ys[k].n)

\* _flatten as coded returns the definition
FlattenIsPath ==
  WF(tree) => LET v == View(tree)
              IN \A c \in Computes(tree) : FlatFrom(tree, v, c, 1, <<>>) = Path(tree, v, c)

-----------------------------------------------------------------------------
(* Case records for the harness (binding B).  Names are given here so that  *)
(* the expected paths are lists of names.                                   *)
Name(i) == "n" \o ToString(i)
Names(s) == [k \in 1..Len(s) |-> Name(s[k])]

NodesRec(t) ==
  [i \in 1..Len(t) |->
     [name |-> Name(i), k |-> t[i].k, f |-> t[i].f, d |-> t[i].d,
      area |-> IF IsComponent(t, i) THEN ValA(i) ELSE 0,
      leak |-> IF IsComponent(t, i) THEN ValL(i) ELSE 0]]

\* C25: the tree and, per compute, the expected flattened architecture
Rec25(t) ==
  LET v  == View(t)
      cs == Asc(Computes(t), Len(t))
  IN [nodes |-> NodesRec(t),
      paths |-> [k \in 1..Len(cs) |-> [c |-> Name(cs[k]), path |-> Names(Path(t, v, cs[k]))]]]

\* outcome of a variant of the algorithm (s = final iterator state), per component and in total
VariantRec(t, s, own) ==
  LET comp == SelectSeq(s.ys, LAMBDA y : IsComponent(t, y.n))
      m    == Len(comp)
      inst == Conc([k \in 1..m |-> AlgInst(t, comp[k], own)], m)
  IN [comps |-> [k \in 1..m |->
                   [name |-> Name(comp[k].n), inst |-> inst[k],
                    total_area |-> ValA(comp[k].n) * inst[k],
                    total_leak |-> ValL(comp[k].n) * inst[k]]],
      total_area |-> SumSeq([k \in 1..m |-> ValA(comp[k].n) * inst[k]]),
      total_leak |-> SumSeq([k \in 1..m |-> ValL(comp[k].n) * inst[k]])]

\* C26: the tree and, per component, the expected number of instances and totals
Rec26(t) ==
  LET n     == Len(t)
      v     == View(t)
      comps == Asc(ComponentsOf(t), n)
      m     == Len(comps)
      inst  == Conc([k \in 1..m |-> Instances(t, v, comps[k])], m)   \* from the definition
      sT    == RunSt(t, n, TRUE)
      sF    == RunSt(t, n, FALSE)
  IN [nodes |-> NodesRec(t),
      comps |-> [k \in 1..m |->
                   [name |-> Name(comps[k]), inst |-> inst[k],
                    total_area |-> ValA(comps[k]) * inst[k],
                    total_leak |-> ValL(comps[k]) * inst[k]]],
      total_area |-> SumSeq([k \in 1..m |-> ValA(comps[k]) * inst[k]]),
      total_leak |-> SumSeq([k \in 1..m |-> ValL(comps[k]) * inst[k]]),
      \* what the deviating variants of the algorithm compute (role A shows that they are
      \* wrong); used only to name a known defect precisely
      variants |-> [coded |-> VariantRec(t, sT, FALSE),
                    noown |-> VariantRec(t, sF, FALSE),
                    sib   |-> VariantRec(t, sT, TRUE)],
      \* what the iterator as coded yields (node, parents at the moment of the yield)
      iter |-> [k \in 1..Len(sT.ys) |-> [n |-> Name(sT.ys[k].n), seen |-> Names(sT.ys[k].seen)]]]

Emit25 == (WF(tree) /\ Len(tree) >= MinEmit) => PrintT(ToJson(Rec25(tree)))
Emit26 == (WF(tree) /\ Len(tree) >= MinEmit) => PrintT(ToJson(Rec26(tree)))
=============================================================================
