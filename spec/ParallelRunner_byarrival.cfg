CONSTANTS
  NSet <- NegN
  WSet <- DesignW
  Modes <- ListDict
  InOrder = TRUE
  Placement = "by_arrival"
SPECIFICATION Spec
INVARIANT Correct
