\* every 3-row table over 3 values for the 3-column schemas, zero tolerance
CONSTANTS
  R = 3
  Vals = {1, 2, 3}
  DVals = {1, 2}
  SchemaIds = {4, 5, 6, 7, 8}
  TolIds = {1}
  ConstIds = {3}
  N = 0
INIT ExhInit
NEXT ExhNext
INVARIANT Emit
