---------------------------- MODULE MC_LoopNest ----------------------------
(* Generator + executor: TLC CONSTRUCTS every single-Einsum mapping of a    *)
(* world within the bounds (build phase), then EXECUTES it (LoopNest), and  *)
(* prints the terminal counters.  The harness replays each printed mapping  *)
(* into accelforge's evaluate_mapping and compares.                         *)
EXTENDS LoopNest, CostModel, Json, IOUtils

CONSTANTS MaxNodes,       \* bound on mapping length (excluding the compute)
          MaxLoopsPerRv   \* bound on loops per rank variable

Worlds == JsonDeserialize(IOEnv.WORLDS_FILE)

vars == <<W, nodes, phase, xvars>>

RankVars(w) == DOMAIN w.bound
TopComp(w) == CHOOSE c \in DOMAIN w.level : w.level[c] = 0

Divisors(n) == {d \in 1..n : n % d = 0}

Idle == [pc |-> 0, dir |-> "down", idx |-> <<>>, rd |-> <<>>, wr |-> <<>>, macs |-> 0,
         valid |-> <<>>, step |-> 0, since |-> <<>>, first |-> <<>>, last |-> <<>>, live |-> <<>>, pts |-> <<>>]

SetX(x) == /\ pc' = x.pc /\ dir' = x.dir /\ idx' = x.idx /\ rd' = x.rd /\ wr' = x.wr
           /\ macs' = x.macs /\ valid' = x.valid /\ step' = x.step /\ since' = x.since /\ first' = x.first
           /\ last' = x.last /\ live' = x.live /\ pts' = x.pts

\* the backing holders: every tensor in the outermost memory, in the world's tensor order
Backing(w) == [i \in 1..Len(w.tensors) |-> [kind |-> "S", mem |-> TopComp(w), t |-> w.tensors[i], pers |-> FALSE]]

Init ==
  /\ W \in {Worlds[i] : i \in 1..Len(Worlds)}
  /\ nodes = Backing(W)
  /\ phase = "build"
  /\ pc = 0 /\ dir = "down" /\ idx = <<>> /\ rd = <<>> /\ wr = <<>> /\ macs = 0
  /\ valid = <<>> /\ step = 0 /\ since = <<>> /\ first = <<>> /\ last = <<>> /\ live = <<>> /\ pts = <<>>

HeldIn(t) == {nodes[j].mem : j \in {i \in 1..Len(nodes) : IsHolder(nodes[i]) /\ nodes[i].t = t}}
LastLevel(t) == Max({W.level[m] : m \in HeldIn(t)})

AddLoop ==
  /\ phase = "build" /\ Len(nodes) < MaxNodes
  /\ \E r \in RankVars(W) :
       /\ Cardinality(LoopsAbove(nodes, Len(nodes) + 1, r)) < MaxLoopsPerRv
       /\ \E d \in Divisors(Ext(W, nodes, Len(nodes) + 1, r)) :
            /\ d < Ext(W, nodes, Len(nodes) + 1, r)
            /\ nodes' = Append(nodes, [kind |-> "T", rv |-> r, tile |-> d])
  /\ UNCHANGED <<W, phase, xvars>>

NoLoopYet == \A j \in 1..Len(nodes) : ~IsLoop(nodes[j])
AddHolder ==
  /\ phase = "build" /\ Len(nodes) < MaxNodes
  /\ \E m \in DOMAIN W.level, t \in DOMAIN W.proj, ps \in BOOLEAN :
       /\ W.level[m] > LastLevel(t)
       \* a persistent holder keeps a whole (untiled) input tensor of a memory, one copy per instance
       /\ ps => (W.allowpers /\ NoLoopYet /\ ~W.istoll[m] /\ t # W.out)
       /\ nodes' = Append(nodes, [kind |-> "S", mem |-> m, t |-> t, pers |-> ps])
  /\ UNCHANGED <<W, phase, xvars>>

Close ==
  /\ phase = "build"
  /\ \A r \in RankVars(W) : Ext(W, nodes, Len(nodes) + 1, r) = 1
  \* a toll must not be the innermost... (a toll may be innermost: it then sits between memory and compute)
  /\ nodes' = Append(nodes, [kind |-> "C"])
  /\ phase' = "exec"
  /\ SetX(ExecStart(W, Len(nodes) + 1))
  /\ UNCHANGED W

Next == AddLoop \/ AddHolder \/ Close \/ EnterHolder \/ EnterLoop \/ DoCompute \/ AdvanceLoop \/ ExitHolder \/ Finish

Spec == Init /\ [][Next]_vars

---------------------------------------------------------------------------
PeakOf(m) == IF DOMAIN live[m] = {} THEN 0 ELSE Max({live[m][s] : s \in DOMAIN live[m]})

Report ==
  LET tab == ActionTable(W, rd, wr)
      \* reported action counts, energy and latency are totals over the workload's n_instances
      scaled == [c \in DOMAIN tab |-> [t \in DOMAIN tab[c] |->
                   [read |-> RMul(R(W.ninst), tab[c][t].read), write |-> RMul(R(W.ninst), tab[c][t].write)]]]
  IN [wid |-> W.id, nodes |-> nodes, rd |-> rd, wr |-> wr, macs |-> macs, mac_actions |-> macs * W.ninst,
      actions |-> scaled,
      ninst |-> W.ninst,
      latency |-> RMul(R(W.ninst), TotalLatency(W, tab, macs)),
      energy |-> RMul(R(W.ninst), TotalEnergy(W, tab, macs)),
      peak |-> [m \in DOMAIN W.level |-> PeakOf(m)],
      footprint |-> [m \in DOMAIN W.level |-> FootprintBits(W, nodes, m)],
      tilebits |-> [m \in DOMAIN W.level |-> TileBits(W, nodes, m)]]

Emit == phase = "done" => PrintT(ToJson(Report))

\* sanity invariants of the execution itself
\* every point of the iteration space is computed exactly once
RECURSIVE BoundProd(_, _)
BoundProd(w, S) == IF S = {} THEN 1 ELSE LET r == CHOOSE y \in S : TRUE IN w.bound[r] * BoundProd(w, S \ {r})
ExactlyOnce ==
  /\ Cardinality(DOMAIN pts) = BoundProd(W, DOMAIN W.bound)
  /\ \A q \in DOMAIN pts : pts[q] = 1 /\ \A r \in DOMAIN W.bound : q[r] \in 0..(W.bound[r]-1)

ExecOK ==
  phase = "done" =>
    /\ macs = step
    /\ WellFormed(W, nodes)
    /\ ExactlyOnce

\* Role-A lemma for C06: the streaming footprint never under-reserves the element-level
\* peak, and never exceeds the LoopTree notation's tile sizes.
FootprintLemma ==
  phase = "done" =>
    \A m \in DOMAIN W.level :
       /\ PeakOf(m) <= FootprintBits(W, nodes, m)
       /\ FootprintBits(W, nodes, m) <= TileBits(W, nodes, m)
=============================================================================
