#!/bin/sh
# Offline setup: parse every TLA+ module with SANY; nothing is downloaded or compiled.
set -e
mkdir -p "$(dirname "$0")/.work"; cd "$(dirname "$0")/spec"
CP=/opt/veriftools/tla/tla2tools.jar:/opt/veriftools/tla/CommunityModules-deps.jar
for f in *.tla; do
  java -cp $CP tla2sany.SANY "$f" > ../.work/.sany.$$ 2>&1 || { cat ../.work/.sany.$$; rm -f ../.work/.sany.$$; exit 1; }
  if grep -q -E "Semantic errors|\*\*\* Errors|Parse Error|Fatal" ../.work/.sany.$$; then cat ../.work/.sany.$$; rm -f ../.work/.sany.$$; exit 1; fi
done
rm -f ../.work/.sany.$$
/venv/bin/python -c "import accelforge" 
echo setup ok
