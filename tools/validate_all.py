#!/venv/bin/python
"""tools/validate_all.py -- MANIFEST.json and every evidence/<id>.json against the schemas in /root/.vp."""
import json, os, sys, jsonschema
root = os.path.dirname(os.path.dirname(os.path.abspath(__file__)))
man = json.load(open(os.path.join(root, "MANIFEST.json")))
jsonschema.validate(man, json.load(open("/root/.vp/MANIFEST.schema.json")))
esch = json.load(open("/root/.vp/EVIDENCE.schema.json"))
bad = 0
for c in man["checks"]:
    p = c["evidence_file"]
    try:
        e = json.load(open(p))
        jsonschema.validate(e, esch)
        cov = e["coverage"]
        print("%s ok tier=%s seed=%s states=%s traces=%s nontrivial=%s wall=%s" % (
            c["property_id"], e.get("tier"), e.get("seed"), cov.get("states"), cov.get("traces_validated_against_impl"),
            cov.get("distinct_nontrivial"), e.get("wall_s")))
    except Exception as ex:
        bad += 1
        print("%s BAD %s" % (c["property_id"], str(ex)[:200]))
ids = {json.loads(l)["id"] for l in open(os.path.join(root, "properties.jsonl"))}
claimed = {c["property_id"] for c in man["checks"]}
na = {x["property_id"] for x in man.get("not_applicable", [])}
print("claimed", len(claimed), "not_applicable", len(na), "unaccounted", sorted(ids - claimed - na))
sys.exit(1 if bad or (ids - claimed - na) else 0)
