#!/bin/sh
# tools/verify_seed.sh <seed_out dir of one property> <ID> [check ids...]
# Confirms a seeded change in a scratch worktree outside /repo and /verif:
#   demo fails with the change, passes without; the given checks are run against the changed tree.
# Nothing is applied to /repo.  Results are printed; artefacts are copied to /verif/seeded/<ID>/.
set -u
SRC=$1; ID=$2; shift 2
CHECKS=${*:-$ID}
NAME=${SEEDNAME:-$ID}   # directory under /verif/seeded (second-round seeds: <ID>b)
WT=/tmp/sv/$NAME
rm -rf $WT; mkdir -p /tmp/sv
git -C /repo worktree add -q --detach $WT HEAD || exit 2
cd $WT
if ! git apply --check $SRC/patch.diff 2>/dev/null; then echo "PATCH DOES NOT APPLY"; git -C /repo worktree remove --force $WT; exit 3; fi
git apply $SRC/patch.diff
DEMO=$(ls $SRC/demo_*.py | head -1)
echo "== import"; PYTHONPATH=$WT /venv/bin/python -c "import accelforge" && echo import-ok
echo "== demo WITH change (expect exit 1)"; (cd $WT && PYTHONPATH=$WT timeout 1200 /venv/bin/python $DEMO > /tmp/sv/$NAME.demo_mut.log 2>&1; echo "exit=$?"; tail -3 /tmp/sv/$NAME.demo_mut.log)
echo "== demo WITHOUT change (expect exit 0)"; (cd /tmp/sv && PYTHONPATH=/repo timeout 1200 /venv/bin/python $DEMO > /tmp/sv/$NAME.demo_clean.log 2>&1; echo "exit=$?"; tail -2 /tmp/sv/$NAME.demo_clean.log)
for C in $CHECKS; do
  echo "== ./check $C against the changed tree (expect exit 1)"
  (cd /verif && PYTHONPATH=$WT timeout 3000 ./check $C > /tmp/sv/$NAME.check_$C.log 2>&1; echo "exit=$?"; grep -E "^VIOLATION|signature|^OK|MACHINERY" /tmp/sv/$NAME.check_$C.log | head -4 | cut -c1-300)
done
mkdir -p /verif/seeded/$NAME
cp $SRC/patch.diff $DEMO /verif/seeded/$NAME/ 2>/dev/null
[ -f $SRC/meta.json ] && cp $SRC/meta.json /verif/seeded/$NAME/agent_meta.json
cd /; git -C /repo worktree remove --force $WT
echo "NOTE: the check runs above overwrote /verif/evidence/<id>.json with results from the CHANGED tree: git -C /verif checkout -- evidence"
