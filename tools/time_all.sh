#!/bin/sh
# times the quick tier of every claimed check sequentially; results in .work/_timing.log
cd "$(dirname "$0")/.."
: > .work/_timing.log
for c in "$@"; do
  s=$(date +%s)
  ./check $c > .work/_t_$c.log 2>&1
  rc=$?
  e=$(date +%s)
  echo "$c exit=$rc wall=$((e-s))s $(tail -1 .work/_t_$c.log | cut -c1-150)" >> .work/_timing.log
done
echo done >> .work/_timing.log
