#!/usr/bin/env python3
"""compare a junit xml of the repository's suite with /root/.vp/BASELINE.json stable_pass"""
import json, sys, xml.etree.ElementTree as ET
base = json.load(open('/root/.vp/BASELINE.json'))
want = set(base['stable_pass'])
root = ET.parse(sys.argv[1]).getroot()
passed = set()
for tc in root.iter('testcase'):
    name = "%s::%s" % (tc.get('classname'), tc.get('name'))
    if not any(ch.tag in ('failure', 'error', 'skipped') for ch in tc):
        passed.add(name)
missing = sorted(want - passed)
print("stable_pass:", len(want), "passed now:", len(passed), "missing from pass set:", len(missing))
for m in missing[:20]:
    print("  MISSING", m)
sys.exit(1 if missing else 0)
