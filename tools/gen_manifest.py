#!/usr/bin/env python3
"""Regenerates MANIFEST.json from the table below (single source of truth)."""
import json, os
HERE = os.path.dirname(os.path.dirname(os.path.abspath(__file__)))
props = [json.loads(l) for l in open(os.path.join(HERE, "properties.jsonl"))]
ids = [p["id"] for p in props]

# id -> (technique, level text, level note, design_ref)
CLAIMED = {
 "C11": ("TLA+ definition (Pareto!Mask) evaluated by TLC on enumerated/random matrices, replayed into fast_pareto_mask/makepareto_numpy; SFS algorithm model-checked (ParetoSFS)",
         "TLC enumerates every 3x3 and 4x2 matrix over {0,1,inf} with every min/max/diff goal multiset, and random larger matrices over a float32-adversarial magnitude alphabet; the expected mask is the TLA+ definition; each case is replayed into both entry points in float32 and float64. The algorithm itself is model-checked as a transition system (exact key, rounding key, rounding key with tie-break).",
         "Trusted: TLC, the monotone abstract-value -> float map, JSON export. Bounded: exhaustive only for tiny matrices; larger ones sampled.", "5/C11"),
}
NOT_YET = "check not built yet in this round; see DESIGN.md section 5 for the planned TLA+ module"

checks = []
for i in ids:
    if i in CLAIMED:
        t, text, note, ref = CLAIMED[i]
        checks.append({
            "property_id": i,
            "quick_cmd": "./check %s --tier quick" % i,
            "thorough_cmd": "./check %s --tier thorough" % i,
            "evidence_file": "/verif/evidence/%s.json" % i,
            "replay_cmd_template": "./check %s --replay {path}" % i,
            "engine": "tlc",
            "level_claimed": {"category": "model_checking", "text": text, "design_ref": "DESIGN.md " + ref},
            "level_note": note,
            "technique": t,
        })
m = {
 "version": 1,
 "setup_cmd": "./setup.sh",
 "hooks": {
  "guard": "ACCELFORGE_VERIF",
  "enable": "export ACCELFORGE_VERIF=1 (set by ./check); accelforge is imported from /repo's working tree (develop install), nothing to build",
  "baseline_off_cmd": "cd /repo && env -u ACCELFORGE_VERIF /venv/bin/python -m pytest -ra -q -p no:cacheprovider --timeout=900 --continue-on-collection-errors",
  "source_commits": [],
  "add_only": True,
 },
 "engines": [{"name": "tlc", "path": "/opt/veriftools/tla/tla2tools.jar",
              "serves_properties": sorted(CLAIMED), "kind_free_text": "explicit-state model checker for the TLA+ specifications in /verif/spec; all properties are decided by TLC evaluating spec definitions/invariants, bound to the code by replay (spec->code) or trace validation (code->spec)"}],
 "checks": checks,
 "notes": "See DESIGN.md. ./check <id> --tier quick|thorough; exit 0 ok, 1 violation (VIOLATION line + replay file), 2 machinery failure.",
 "not_applicable": [{"property_id": i, "reason": NOT_YET} for i in ids if i not in CLAIMED],
}
json.dump(m, open(os.path.join(HERE, "MANIFEST.json"), "w"), indent=1)
print("claimed", len(checks), "not_applicable", len(m["not_applicable"]))
