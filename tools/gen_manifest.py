#!/usr/bin/env python3
"""Regenerates MANIFEST.json from the table below (single source of truth)."""
import json, os
HERE = os.path.dirname(os.path.dirname(os.path.abspath(__file__)))
props = [json.loads(l) for l in open(os.path.join(HERE, "properties.jsonl"))]
ids = [p["id"] for p in props]

# id -> (technique, level text, level note, design_ref)
CLAIMED = {
 "C11": ("TLA+ definition (Pareto!Mask) evaluated by TLC on enumerated/random matrices, replayed into fast_pareto_mask/makepareto_numpy; SFS algorithm model-checked (ParetoSFS)",
         "TLC enumerates every 3x3 and 4x2 matrix over {0,1,inf} with every min/max/diff goal multiset, and random larger matrices over a float32-adversarial magnitude alphabet; the expected mask is the TLA+ definition; each case is replayed into both entry points in float32 and float64. The algorithm itself is model-checked as a transition system (exact key, rounding key, rounding key with tie-break).",
         "Trusted: TLC, the monotone abstract-value -> float map, JSON export. Bounded: exhaustive only for tiny matrices; larger ones sampled.", "5/C11"),
 "C05": ("TLC constructs and executes LoopTrees (LoopNest operational semantics + CostModel); terminal counters replayed into evaluate_mapping, exact rational comparison",
         "TLC constructs every single-Einsum mapping within bounds (holders at any depth, any loop order, perfect factors, 2-3 memory levels, optional Toll) for generated worlds and EXECUTES it node by node (fill on scope entry, write-back on exit, read-modify-write at the compute, never-written outputs skipped per skip_initial_output_write); CostModel turns values into actions/energy/latency with the documented precedence. Every constructed mapping is replayed into the real evaluate_mapping and per-(component,tensor,action) counts, energy and latency must be exactly equal.",
         "Trusted: TLC, YAML writer, float->Fraction. Bounded: iteration spaces <= 64 points, <= 3 loops per rank variable; projections are single rank variables (no strided/affine sums yet); n_instances = 1.", "5/C05"),
 "C06": ("TLC executes LoopTrees with per-element liveness tracking (LoopNest); peak / streaming footprint / tile sums compared with resource_usage() of evaluate_mapping; lemma Peak<=Footprint<=Tile model-checked",
         "During execution every holder records first/last use per element; TLC reports the execution-time peak per memory, the streaming footprint and the LoopTree tile sum, and checks Peak <= Footprint <= Tile on every explored mapping. The real model's usage*size must lie in [Peak, Tile], equal Peak where both readings agree, and oversubscribed mappings must be rejected (tight worlds).",
         "Single-Einsum nests only so far: fused multi-Einsum mappings, persistent tensors and n_instances are not yet covered. Where the streaming and element readings differ the comparison with the footprint is recorded, not decisive.", "5/C06"),
 "C31": ("TLC executes LoopTrees containing Toll nodes (LoopNest TollDown/TollUp); toll read actions, zero writes, zero occupancy replayed into evaluate_mapping",
         "TLC constructs mappings with a Toll between memories or above the compute, per-tensor directions up/down/up_and_down, executes them and charges one read per value crossing in a configured direction; the real model must report exactly these toll reads (scaled by values per action), no toll writes, no toll occupancy and unchanged memory counts/usage.",
         "The mapper clause (Toll never the outermost holder of a shared tensor in returned mappings) is bound separately on recorded mapper results when the mapper harness is present; single-Einsum model part is bounded as C05.", "5/C31"),

 "C01": ("TLC enumerates the whole mapspace of micro-specs (Mapspace.tla); every mapping priced by the real model; recorded mapper optimum validated by TLC (Fronts.tla)",
         "For generated single-Einsum micro-specs (matmul/matvec/reduce/elementwise, rank bounds 2-8, DRAM + finite inner memory, random keep/may_keep and per-action costs) TLC enumerates every mapping the spec's mapspace contains (storage choices, hierarchy-ordered holder orders, all loop orders, all divisor chains); each is priced by evaluate_mapping; the mapper runs for ENERGY, LATENCY and EDP and TLC decides whether some valid enumerated mapping is strictly better than everything returned.",
         "Exhaustive only for micro-specs (mapspace <= ~4000 mappings); single Einsum so far (no fusion); pricing oracle is the real model (its correctness is C05/C06). A mapper result better than the enumeration is reported, not a violation.", "5/C01"),
 "C02": ("Same enumeration as C01; completeness, non-dominance and duplicate-freeness of the recorded front decided by TLC (Fronts.tla over Pareto.tla)",
         "The mapper runs with ENERGY|LATENCY and ENERGY|LATENCY|RESOURCE_USAGE; objective vectors of every valid enumerated mapping (from the real model) and of every returned mapping are rank-transformed and TLC checks: every candidate weakly dominated by a returned vector; no returned vector strictly dominated by another; no duplicates.",
         "As C01; usage coordinates are the model's per-memory usage; rank transform (monotone) in the trusted base.", "5/C02"),
 "C03": ("Returned LoopTrees recorded structurally and executed by TLC (Trace_Mapping.tla = LoopNest machine) with validity invariants",
         "Every LoopTree the mapper returns on micro-specs (2-3 levels, keep/may_keep, finite sizes, Tolls, four metric sets) is one trace: TLC decides well-formedness, perfect factorisation, exactly-once computation of every iteration point, keep-set satisfaction, and capacity (execution peak and reserved footprint <= size).",
         "No spatial fanout / loop_bounds / fused-loop limits yet (micro-specs have no spatial dimensions, one Einsum).", "5/C03"),
 "C04": ("JoinReport (eval_in_detail=False) vs ModelReport (True) vs TLC execution of the same LoopTree (Trace_Mapping.tla)",
         "Two mapper runs per micro-spec and metric set; rows paired by LoopTree; TLC checks JoinReport = ModelReport for energy and latency exactly and executes the tree as third witness; EDP, usage and every column present in both reports are compared with a float32 allowance.",
         "Join reports carry few per-Einsum columns when run undetailed; only columns present in both reports are compared.", "5/C04"),
 "C16": ("Recorded optima of tolerant vs exact mapper runs validated as SetTolerance steps of ConfigLattice.tla; returned mappings executed by Trace_Mapping.tla",
         "For micro-specs and tolerances {0.01,0.1,0.5} (objective, resource, both) TLC checks opt <= opt' <= (1+t) opt for ENERGY, LATENCY, EDP exactly (rationals) and that every mapping returned under a resource tolerance is valid when executed.",
         "opt is the zero-tolerance observation (its optimality is C01).", "5/C16"),
 "C17": ("Four recorded mapper runs per micro-spec validated as a SetMetrics step of ConfigLattice.tla",
         "TLC checks min energy / min latency / min energy*latency over the ENERGY|LATENCY front against the single-metric optima and EDP-column = energy*latency for every returned row.",
         "Products formed by the harness in exact rational arithmetic; EDP column compared with float32 allowance.", "5/C17"),
 "C18": ("Recorded optima of base vs singly-relaxed micro-specs validated as Relax steps of ConfigLattice.tla; superset lemma checked on Mapspace.tla enumerations",
         "Relaxations: doubled memory size, larger may_keep, smaller keep, imperfect factorisation on; TLC checks opt' <= opt for ENERGY, LATENCY, EDP; role A: relaxed mapspace is a superset of the base mapspace (enumerated by TLC).",
         "Relaxations needing spatial fanout or several Einsums (loop_bounds, fused-loop limit, min_usage) not exercised yet.", "5/C18"),
 "C19": ("Recorded optima of base vs scaled micro-specs validated as Scale* steps of ConfigLattice.tla (exact rationals)",
         "All per-action energies and leak powers times k in {2,4,1/2,3,3/2}: optE' = k optE; all throughputs times k in {2,4,1/2}: optL' = optL/k; workload / Einsum n_instances times k: energy and latency totals times k, validity unchanged (returned mappings executed by Trace_Mapping.tla).",
         "Throughput scales restricted to powers of two so that results stay exactly representable.", "5/C19"),
 "C28": ("Base tables recorded from real result rows; every projection computed by TLC (Breakdown.tla) and compared with the Mappings accessors",
         "For results of the real mapper on 1- and 2-Einsum micro-specs TLC computes all 16 energy, 8 action and 4 latency projections and the usage view from the raw per-Einsum columns; the harness compares with energy()/actions()/latency()/resource_usage() for every flag combination and with the Total columns.",
         "Derived views of one recorded table; float32 allowance on sums.", "5/C28"),

 "C10": ("TLA+ set-filter/enumeration definitions (TileShapes.tla) evaluated by TLC; spec->code comparison for perfect sets and counts, code->spec verdicts (Trace_TileShapes) for imperfect sets",
         "TLC evaluates PerfectCands for every outer <= 512 (thorough <= 4096, plus seeded larger sizes) and every inner dividing it, and Chains(n, pattern) by explicit enumeration of factorisation chains for n <= 64 and all patterns of length <= 4; results are compared exactly with get_possible_factor_sizes(.., imperfect=False, .., 1), _factorize and _count_factorizations. Imperfect candidate sets returned by the code are recorded and judged by TLC with ImperfectOK. Lemma jobs check the fast predicates and the recursive chain enumeration against independent definitions.",
         "Exhaustive within the stated bounds; coarseness 1 only. 'Smallest shape' is decisive only where the integer reading and the multiple-of-inner reading agree the set is wrong (identical for inner = 1). Counter bounded to n <= 64.", "5/C10"),
 "C20": ("Recorded mapper runs under varied environments validated as Run steps of Determinism.tla; schedules generated by TLC (MC_Schedules.tla) and imposed through the util/parallel.py hook",
         "Per 1- and 2-Einsum micro-spec and metric set: baseline (1 worker), 4 real workers, 4 workers under TLC-generated and seeded schedules that permute execution and arrival order of every parallel() call, PYTHONHASHSEED 1/7(/42/12345), cold then warm cache_dir, each in a fresh interpreter. The set of (objective vector, LoopTree structure) pairs must equal the baseline's; TLC accepts the run sequence iff every Run step is enabled.",
         "Schedules cover every pair of permutations only for call sites with <= 3 jobs (exhaustive generator), otherwise samples; jobs run in-process under the hook.", "5/C20"),
 "C21": ("TLA+ definition (ExprEval!Expected) evaluated by TLC on enumerated/random definition sets, replayed into accelforge (B); evaluation algorithm model-checked (A); recorded eval_field orders validated by Trace_ExprEval (C)",
         "TLC model-checks the evaluation algorithm (confluence, stuck-iff-cycle, terminal = least fixpoint with inner-shadows-outer) over all dependency graphs on 3-4 names and all a/ab placements in 2-3 nested or sibling scopes; generates every such case with every key order plus random cases of up to 16 definitions over six scopes with expected values or 'error'. Each case is evaluated by the real code through _spec_eval_expressions, calculate_component_costs and from_yaml and compared exactly; recorded evaluation orders are validated by TLC.",
         "Bounded: exhaustive to 4 names in one scope and 2 names x 3 scopes; integers below 40000; + - * only. Excluded as ambiguous: self-reference over an outer or predefined name.", "5/C21"),
 "C22": ("TLA+ definition of named sets and set-algebra Eval evaluated by TLC on enumerated/random expression trees and dictionaries, replayed into the front end; dictionary algorithm model-checked (SetExprOtherAlg)",
         "TLC evaluates SetExpr!Eval/Assign/Overlap on every expression tree of depth <= 2 over 15 names for 20 (workload, Einsum) pairs, every tree of depth <= 3 over small alphabets for seed-selected pairs, random trees of depth <= 5 over random 1-4-Einsum workloads, and exhaustive/random Other-key dictionaries; each case is printed fully and minimally parenthesised and evaluated through Spec._spec_eval_expressions(einsum_name=..) as tensor_order_options/keep/may_keep/bits_per_value keys; sets compared exactly.",
         "Depth 3 exhaustive only over small alphabets; depth 4-5 sampled. Not covered: .rank_variables, Above, MemoryObject.Tensors, call and conditional syntax.", "5/C22"),
 "C23": ("TLA+ token emitter + grammar parser (EinsumSyntax) model-checked/simulated by TLC; finished strings replayed into Workload (spec->code)",
         "TLC explores an emitter (Malform/Emit/Space/Finish) over verbose Einsum records exhaustively for a small alphabet and by simulation for 1-4 inputs, 0-4 ranks, 7 expression shapes and blank/tab white space at every gap; expected result = the TLA+ grammar Parse (verbose record or error); RoundTrip / MalformedIsMalformed are invariants. Every string is replayed into Workload(einsums=[..]) as string, verbose dict/list and with extra attributes; names, ordered (rank, expression) lists, output flags and merged attributes compared exactly.",
         "Exhaustive only for the small alphabet; scalar tensors T[] only 'rejected or equal'; 23 corruption kinds.", "5/C23"),
 "C24": ("TLA+ enumeration definitions (Geometry) evaluated by TLC on exhaustive/random workloads, replayed into the ISL/sympy workload geometry API",
         "TLC enumerates every one-Einsum workload with bounds <= 3 (quick) / <= 4 (thorough), 1-2 ranks, projections a*u+b*v+c, and draws 1-3-Einsum workloads; bounds, operation counts, image cardinality, box-ness, stride and halo are set-comprehension definitions; each case is built as a real Workload and compared with get_rank_variable_bounds, n_computes, get_tensor_size (error or exact count for non-box images), get_stride_and_halo_of_einsum and compute_dense_tile_occupancy.",
         "Halo with a constant offset accepts either reading; dense occupancy only for boxes at the origin; non-box images always take the RuntimeError path here.", "5/C24"),
 "C25": ("TLA+ definition ArchTree!Path evaluated by TLC on enumerated/random trees, replayed into Spec._get_flattened_architecture; _flatten and iterate_hierarchically model-checked",
         "TLC enumerates every well-formed architecture tree with <= 4 nodes (thorough <= 5) over Memory/Toll/Container/Compute/Fork/Hierarchical, every tree shape up to 7 nodes, and random 6-12-node trees of depth <= 4; each tree is built from the real classes and flattened per compute; names compared exactly.",
         "Exhaustive only to 5 nodes / 7-node shapes; Array/Network and ill-formed trees not generated.", "5/C25"),
 "C26": ("TLA+ definition ArchTree!Instances plus algorithm-variant models evaluated by TLC, replayed into Spec.calculate_component_costs; role-A model checking of iterate_hierarchically",
         "Same generator with fanouts {1,2,3} on every leaf including Compute; expected instances and totals are ArchTree!Instances; calculate_component_costs is run on the real Arch and per_component_total_area/leak_power, total_area/leak_power compared exactly; the iterator with its shared parent list and the fanout loop are model-checked as actions.",
         "Scales and n_parallel_instances fixed at 1 (C27's business).", "5/C25"),
 "C27": ("TLA+ definition (ComponentCosts!RunOnce) evaluated by TLC on parameter/history grids, replayed call by call into Spec.calculate_component_costs; call model checked as a transition system with a negative lemma",
         "TLC proves Stable (computed kinds = base x scales) for the apply-once Calculate model over all histories of up to 3 calls over all 15 flag sets and shows the re-apply model violates it; enumerates every vector of six scale factors over {1/2,1,2} x n_parallel_instances, every history of length <= 3 over four flag sets, and random 2-3-component architectures; after every call the real area, leak power and per-action energy/throughput are compared exactly.",
         "evaluate_mapping and the mapper reject a costed spec by assertion, so only the public method is replayed; hwcomponents-modelled costs not covered.", "5/C27"),
 "C29": ("TLA+ definition of rename resolution and expected_count rejection evaluated by TLC on enumerated/random rename tables, replayed into Spec/Workload/Renames evaluation",
         "TLC evaluates Renames!Resolve/Rejected on every placement pattern (absent / Einsum-local / top-level per Einsum; default or not) with 2-3 sources per kind (tensor and rank-variable renames) and expected_count in {none,1,2} for 1 name x 2 Einsums (quick), additionally 1x3 and 2x2 (thorough), plus random tables; every Einsum's evaluated renames are read through Spec._spec_eval_expressions(einsum_name=e).",
         "Fixed 3-Einsum chain; a name is never placed both locally and at top level for one Einsum.", "5/C29"),
 "C30": ("Network.tla packet-routing transition system model-checked for confluence; deterministic schedule per case prints terminal counters, replayed into per_loop_transfer_cost, exact rational comparison",
         "TLC routes every value as a packet hop by hop on a 1-D mesh line or through a central switch with per-link counters; all interleavings are explored for fanout <= 4-5 and proven confluent; for every fanout <= 32, stride <= 8, both topologies, multicast and unicast the terminal hop count and maximum link counter are replayed into get_topology_model(t).per_loop_transfer_cost with a non-distributed source; total_cost and max_traffic must be exactly equal.",
         "Integer volumes; max_hops not compared. Known finding: fanout-1 multicast reports max_traffic = volume.", "5/C30"),

 "C09": ("TLA+ expression semantics (SignVerdict: Eval over guarded rationals, Signs, Admissible, PreOK) evaluated by TLC; spec->code replay of generated formulas into geq_leq_zero, code->spec validation (Trace_SignVerdict) of recorded derivative verdicts and of calls harvested from real mapper runs",
         "TLC generates formula ASTs (exhaustive one-symbol grammar; seeded random grammar over 1-3 positive integer symbols with sums, products, quotients, ceilings, Min/Max) with small boxes and prints which sign statements hold at every box point and whether the terms_do_not_cross_zero precondition holds; geq_leq_zero's verdicts are compared with that. Every diff_geq_leq_zero verdict on those formulas and every geq_leq_zero/diff_geq_leq_zero call made by the real mapper on 3-6 small specs is recorded (AST of the formula judged, box, flag, verdict) and TLC evaluates SignVerdict!Admissible with exact rational evaluation at every integer point.",
         "Sampled beyond the 600-1200-formula small grammar. Derivatives containing unevaluated Derivative(ceiling) are not decisive. Three open known findings (sympy assumptions, Heaviside partition, dropped ceilings).", "5/C09"),
 "C12": ("TLA+ definitions (ParetoTable: ExpectVec, Covers over Pareto!Leq/Lt/LeqScaled) evaluated by TLC; spec->code replay for zero tolerance, code->spec validation (Trace_ParetoTable) for tolerances and constant-column invariance",
         "TLC enumerates every 2-3-row (thorough also 4-row) pmapping table over small value alphabets for schemas of real column names x a grid of 12 tolerance triples, and draws larger tables (<= 160 rows, 13 schemas). For zero tolerance the expected keep/drop vector is the TLA+ definition, compared with makepareto (float64) and PmappingDataframe.make_pareto (float32), with and without added constant columns. For every tolerance the kept rows returned by the code are recorded and TLC evaluates Covers (k <= (1+t)d on objectives, reservation slack, equal fused-loop columns).",
         "Exhaustive only for <= 4-row tables over 2-6 values; rows duplicating a kept row on all compared columns are not decisive; drop_valid_reservations=False only.", "5/C12"),
 "C14": ("Staged join vs one exact join (all accelerations off) on the same real pmappings; front equality decided by TLC (Fronts.tla); staged control structure model-checked (JoinStrategy.tla) and the recorded internal join sequence validated (Trace_JoinStrategy.tla)",
         "On 2- and 3-Einsum matmul chains the pmappings are generated once and joined twice: by main.join_pmappings (dirty thresholds, optimality filter, lookahead, untracked memories, reservation combining) and by one exact join with all of these off; the two fronts must be equal as sets of objective vectors (both directions). Role A: TLC proves that every Return state of the abstract staged strategy carries the exhaustive optimum for additive non-negative objectives and finds counterexamples without the monotonicity premise or without the oversubscription retry. The recorded prune/join sequence of every staged run must be a behaviour of that control structure.",
         "The exact join is obtained by calling the internal join with lookahead disabled through a source-level switch (the flag is hard-coded inside the function), get_memories_to_track neutralised and RESOURCE_USAGE forced so that all reservations are kept. Retry path exercised only when a micro-spec oversubscribes (reported in the evidence).", "5/C14"),

 "C07": ("TLC enumerates every perfect tile assignment of every real pmapping template (MC_TileAssign.tla) and executes each instance (Trace_Mapping.tla); the real compiled formulas (recorded through the guarded hook) are evaluated at every assignment and compared exactly",
         "For micro-specs the mapper's own templates are recorded with the compiled objective / usage formulas that drive tile-shape exploration; TLC enumerates every perfectly factorising assignment of the template's symbols; each instantiated LoopTree is executed by the LoopNest machine and also evaluated by the real evaluate_mapping; formula latency, dynamic+leak energy and usage*size must equal the executed latency, energy and reserved footprint exactly.",
         "Perfect factorisation, single Einsum, no spatial loops; action-count formulas are covered through energy/latency only.", "5/C07"),
 "C08": ("Exhaustive valid assignments (TLC: MC_TileAssign + Trace_Mapping) vs the table returned by the real pruned enumeration make_tile_shapes (recorded through the hook); front equality decided by TLC (Fronts.tla); pruning contract model-checked (TilePrune.tla)",
         "Per template and metric set (ENERGY, LATENCY, EDP, ENERGY|LATENCY; finite and infinite memories) every perfectly factorising assignment is executed; the valid ones give the exhaustive objective vectors; the table make_tile_shapes returned for the same template must weakly dominate every exhaustive point and every non-dominated returned row must equal an exhaustive point. Role A: goal pruning of partial assignments is sound under the monotonicity premise and unsound without it.",
         "Imperfect factorisation, loop_bounds and max-fused-loop constraints not exercised; objectives are energy/latency (no shared memories in a single-Einsum spec, so reservations only decide validity).", "5/C08"),
 "C15": ("TLC action model of the compress / join-select / decompress index bookkeeping + negative controls; TLC-generated shapes/selections with expected payload replayed into the real compress/decompress, exact cell comparison",
         "TLC model-checks the start-index bookkeeping against the definition 'index g = g-th row of the concatenation' for all shapes and selections within bounds and refutes two bookkeeping errors; TLC-enumerated and simulated table lists (<= 4 Einsums x <= 5 sub-tables x 0..8 rows, varying payload column sets) and selections are replayed into compress_einsum2pmappings / decompress_pmappings on PmappingGroups built with the df_convention column names; every payload cell of every result row must equal the selected source row's.",
         "Assumes >= 1 row per Einsum, >= 1 result row, n_parallel_jobs=1; zero-row joins and fused_loop joining columns not covered.", "5/C15"),
 "C32": ("TLC transition system of parallel() + negative control; TLC-generated schedules replayed into parallel() via the schedule hook / thread barriers / process sleeps; code->spec trace validation batched per JVM",
         "TLC model-checks parallel() (Dispatch/Complete/Collect/Return, index- or key-tagged unordered collection) for n <= 5 jobs, <= 3 workers, all interleavings and four call variants, and refutes the place-by-arrival collector. Every in-order-dispatch behaviour for n <= 5, w <= 5 and simulated behaviours for n <= 64, w <= 16 are replayed into the real parallel() with the TLC-chosen completion order imposed by the guarded schedule hook, by barriers on the threading backend and by barriers/sleeps on the loky backend; the returned list/dict/generator output must equal the spec's value; every execution's recorded start/finish order plus returned value is validated by Trace_ParallelRunner.",
         "Role A n <= 5 / w <= 3; exact order imposition on loky only when n <= w, otherwise observed orders; no Apalache run.", "5/C32"),

 "C13": ("Real per-Einsum pmapping tables exported row by row; Compatible / ExhaustiveJoin / Pareto front evaluated by TLC (PmappingJoin.tla) and compared with the real join's front",
         "For 2-Einsum micro-specs make_pmappings' tables are exported (concrete LoopTree and objective vector per row); the spec abstracts each row to the backing memory of the shared tensor and the blocks of loops above it, defines compatibility (same storage, same loops and tile shapes, a common loop order), sums objectives of every compatible pair and Pareto-filters; the resulting front must equal the front join_pmappings returns on the same tables (ENERGY|LATENCY and ENERGY).",
         "Capacity rejection and combining reservations by lifetimes are not decided here (memories large enough for every combination); only 2-Einsum joins; 3-Einsum join orders are covered through C14's exact-join comparison.", "5/C13"),
}
# additions made after the first build (appended to the text / replacing the note); see DESIGN.md 11.3, 11.7
UPDATES = {
 "C03": (" Spatial micro-specs: one Container fanout with one loop_bounds constraint, and two fanout levels on memories that bound the same rank variable; clauses fanout (product of spatial iterations <= fanout) and bounds (comparison holds on the iteration count of the named rank variables, an absent loop counting as 1).",
         "Fused-loop limits are not exercised (single Einsum). Constraint forms on which the unchanged mapper crashes (per-variable >=, >, <, ==/<= with value > 1 on a Container fanout) are excluded from the generator; spatial loops are executed like temporal loops (their access counts are not modelled)."),
 "C01": (" Mid part: on 3-level memory-bound / leaky worlds beyond Mapspace.tla's reach every perfectly factorising assignment of every template make_pmappings generates is executed and priced by TLC (LoopNest via Trace_Mapping) and Fronts.tla decides whether one beats the mapper's optimum (quick: EDP; thorough: ENERGY, LATENCY, EDP).", None),
 "C02": (" Chain part: the non-dominance and no-duplicate clauses are decided by Fronts.tla on the fronts the mapper returns for 2- and 3-matmul chains (fused mapspace; completeness there is C13 / C14's).", None),
 "C04": (" Rows of the two runs are the same mappings in the same order and are paired by index.", None),
 "C06": (" Persistent holders and n_instances are constructed by MC_LoopNest. Fused trees: FusedNest.tla (one split) and FusedTree.tla (nested splits) state the occupancy of a multi-Einsum tree (per-Einsum views, tile liveness from first to last use); every tree the mapper returns on 2- and 3-Einsum chains with RESOURCE_USAGE as objective must report usage*size = PeakF / PeakT exactly. Persistent part: concrete fused mappings with persistent weights (one shared by both Einsums, or one each) and n_instances 1..3 are evaluated by the real model and compared with FusedTree's peak (a persistent tile exists once per workload instance and stays resident for the whole workload).",
         "The fused occupancy rule was calibrated on five hand-built fused mappings and is bound on mapper results only (no TLC generator of fused trees yet). Where the streaming and element readings differ the comparison with the footprint is recorded, not decisive."),
 "C07": (" History part: a twin spec that differs from the original in the 6th significant digit of one energy is mapped right after the original in the same process (lambdify and symbol caches are process-wide); the twin's recorded formulas must agree with the real model up to float32 rounding (2^-21 relative).", None),
 "C08": (" All four metric sets in both tiers; worlds with a cheap, slow, leaky GLB under an expensive fast DRAM make leak energy decide tile shapes.", None),
 "C12": (" Families with values whose ratios (differences) lie just above 1+t (the absolute slack) keep the rounding classes observable.", None),
 "C13": (" Capacity part: pairs that exceed capacity in the merged tree (FusedNest.Merged + PeakF) are dropped before the front (max_fused_loops = 1, tight GLB; vacuity guard). General part: any number of fused loops, ENERGY|LATENCY|RESOURCE_USAGE, FusedNest.MergedG finds a common loop order, merges the two concrete trees and takes PeakF as capacity filter and as third front coordinate.",
         "2-Einsum chains; 3-Einsum join orders are compared with the exact join only (C14). Trusted: the exporter pmapping row -> concrete LoopTree."),
 "C14": (" The pmappings of the exact side are regenerated with every memory tracked (can_combine_multiple_runs=True), so accelerations inside make_pmappings are on the accelerated side only; one chain has a big first and a tiny last Einsum.", None),
 "C15": (" Big tables: MC_Compress!BigShapes (Einsums with more than 2^16 rows, selections on the 16-bit boundaries); (sub-table, row) from RowOfA, tied to the definition RowOf by LocateLemma in the exhaustive configs.", None),
 "C16": (" Bucket part: ToleranceBuckets.tla states the contract of the classing every tolerant step uses (monotone, classes span at most 1+t), model-checks that it keeps the near-optimum (and that wider classes do not), and validates the classing recorded from logscale_to_tolerance for x = 1..1500 (6000), three scales, four tolerances.", None),
 "C17": (" Besides micro-specs: memory-bound 3-level 8x8x8-class matmuls and 2-level trade-off worlds (long m, expensive DRAM, slow GLB with non-power-of-two throughput) whose fronts have several close points; values are rank-transformed per trace where 32-bit products would overflow (SetMetrics compares for equality only).", None),
 "C18": (" Keep-chain worlds (DRAM -> GLB -> RF, RF keeps everything, GLB's keep set shrinks tensor by tensor) exercise the storage-order pruning rules.", None),
 "C19": (" n_instances is scaled at the workload level, at the Einsum level and at both together (the counts multiply).", None),
}
for k, (more, note) in UPDATES.items():
    t, text, old_note, ref = CLAIMED[k]
    CLAIMED[k] = (t, text + more, note if note is not None else old_note, ref)

NOT_YET = "check not built yet in this round; see DESIGN.md section 5 for the planned TLA+ module"

checks = []
for i in ids:
    if i in CLAIMED:
        t, text, note, ref = CLAIMED[i]
        checks.append({
            "property_id": i,
            "quick_cmd": "./check %s --tier quick" % i,
            "thorough_cmd": "./check %s --tier thorough" % i,
            "evidence_file": "/verif/evidence/%s.json" % i,
            "replay_cmd_template": "./check %s --replay {path}" % i,
            "engine": "tlc",
            "level_claimed": {"category": "model_checking", "text": text, "design_ref": "DESIGN.md " + ref},
            "level_note": note,
            "technique": t,
        })
m = {
 "version": 1,
 "setup_cmd": "./setup.sh",
 "hooks": {
  "guard": "ACCELFORGE_VERIF",
  "enable": "export ACCELFORGE_VERIF=1 (set by ./check); accelforge is imported from /repo's working tree (develop install), nothing to build",
  "baseline_off_cmd": "cd /repo && env -u ACCELFORGE_VERIF /venv/bin/python -m pytest -ra -q -p no:cacheprovider --timeout=900 --continue-on-collection-errors",
  "source_commits": ["4950931", "49a5469"],
  "add_only": True,
 },
 "engines": [{"name": "tlc", "path": "/opt/veriftools/tla/tla2tools.jar",
              "serves_properties": sorted(CLAIMED), "kind_free_text": "explicit-state model checker for the TLA+ specifications in /verif/spec; all properties are decided by TLC evaluating spec definitions/invariants, bound to the code by replay (spec->code) or trace validation (code->spec)"}],
 "checks": checks,
 "notes": "See DESIGN.md. ./check <id> --tier quick|thorough; exit 0 ok, 1 violation (VIOLATION line + replay file), 2 machinery failure.",
 "not_applicable": [{"property_id": i, "reason": NOT_YET} for i in ids if i not in CLAIMED],
}
json.dump(m, open(os.path.join(HERE, "MANIFEST.json"), "w"), indent=1)
print("claimed", len(checks), "not_applicable", len(m["not_applicable"]))
