#!/usr/bin/env python3
"""Regenerates MANIFEST.json from the table below (single source of truth)."""
import json, os
HERE = os.path.dirname(os.path.dirname(os.path.abspath(__file__)))
props = [json.loads(l) for l in open(os.path.join(HERE, "properties.jsonl"))]
ids = [p["id"] for p in props]

# id -> (technique, level text, level note, design_ref)
CLAIMED = {
 "C11": ("TLA+ definition (Pareto!Mask) evaluated by TLC on enumerated/random matrices, replayed into fast_pareto_mask/makepareto_numpy; SFS algorithm model-checked (ParetoSFS)",
         "TLC enumerates every 3x3 and 4x2 matrix over {0,1,inf} with every min/max/diff goal multiset, and random larger matrices over a float32-adversarial magnitude alphabet; the expected mask is the TLA+ definition; each case is replayed into both entry points in float32 and float64. The algorithm itself is model-checked as a transition system (exact key, rounding key, rounding key with tie-break).",
         "Trusted: TLC, the monotone abstract-value -> float map, JSON export. Bounded: exhaustive only for tiny matrices; larger ones sampled.", "5/C11"),
 "C05": ("TLC constructs and executes LoopTrees (LoopNest operational semantics + CostModel); terminal counters replayed into evaluate_mapping, exact rational comparison",
         "TLC constructs every single-Einsum mapping within bounds (holders at any depth, any loop order, perfect factors, 2-3 memory levels, optional Toll) for generated worlds and EXECUTES it node by node (fill on scope entry, write-back on exit, read-modify-write at the compute, never-written outputs skipped per skip_initial_output_write); CostModel turns values into actions/energy/latency with the documented precedence. Every constructed mapping is replayed into the real evaluate_mapping and per-(component,tensor,action) counts, energy and latency must be exactly equal.",
         "Trusted: TLC, YAML writer, float->Fraction. Bounded: iteration spaces <= 64 points, <= 3 loops per rank variable; projections are single rank variables (no strided/affine sums yet); n_instances = 1.", "5/C05"),
 "C06": ("TLC executes LoopTrees with per-element liveness tracking (LoopNest); peak / streaming footprint / tile sums compared with resource_usage() of evaluate_mapping; lemma Peak<=Footprint<=Tile model-checked",
         "During execution every holder records first/last use per element; TLC reports the execution-time peak per memory, the streaming footprint and the LoopTree tile sum, and checks Peak <= Footprint <= Tile on every explored mapping. The real model's usage*size must lie in [Peak, Tile], equal Peak where both readings agree, and oversubscribed mappings must be rejected (tight worlds).",
         "Single-Einsum nests only so far: fused multi-Einsum mappings, persistent tensors and n_instances are not yet covered. Where the streaming and element readings differ the comparison with the footprint is recorded, not decisive.", "5/C06"),
 "C31": ("TLC executes LoopTrees containing Toll nodes (LoopNest TollDown/TollUp); toll read actions, zero writes, zero occupancy replayed into evaluate_mapping",
         "TLC constructs mappings with a Toll between memories or above the compute, per-tensor directions up/down/up_and_down, executes them and charges one read per value crossing in a configured direction; the real model must report exactly these toll reads (scaled by values per action), no toll writes, no toll occupancy and unchanged memory counts/usage.",
         "The mapper clause (Toll never the outermost holder of a shared tensor in returned mappings) is bound separately on recorded mapper results when the mapper harness is present; single-Einsum model part is bounded as C05.", "5/C31"),

 "C01": ("TLC enumerates the whole mapspace of micro-specs (Mapspace.tla); every mapping priced by the real model; recorded mapper optimum validated by TLC (Fronts.tla)",
         "For generated single-Einsum micro-specs (matmul/matvec/reduce/elementwise, rank bounds 2-8, DRAM + finite inner memory, random keep/may_keep and per-action costs) TLC enumerates every mapping the spec's mapspace contains (storage choices, hierarchy-ordered holder orders, all loop orders, all divisor chains); each is priced by evaluate_mapping; the mapper runs for ENERGY, LATENCY and EDP and TLC decides whether some valid enumerated mapping is strictly better than everything returned.",
         "Exhaustive only for micro-specs (mapspace <= ~4000 mappings); single Einsum so far (no fusion); pricing oracle is the real model (its correctness is C05/C06). A mapper result better than the enumeration is reported, not a violation.", "5/C01"),
 "C02": ("Same enumeration as C01; completeness, non-dominance and duplicate-freeness of the recorded front decided by TLC (Fronts.tla over Pareto.tla)",
         "The mapper runs with ENERGY|LATENCY and ENERGY|LATENCY|RESOURCE_USAGE; objective vectors of every valid enumerated mapping (from the real model) and of every returned mapping are rank-transformed and TLC checks: every candidate weakly dominated by a returned vector; no returned vector strictly dominated by another; no duplicates.",
         "As C01; usage coordinates are the model's per-memory usage; rank transform (monotone) in the trusted base.", "5/C02"),
 "C03": ("Returned LoopTrees recorded structurally and executed by TLC (Trace_Mapping.tla = LoopNest machine) with validity invariants",
         "Every LoopTree the mapper returns on micro-specs (2-3 levels, keep/may_keep, finite sizes, Tolls, four metric sets) is one trace: TLC decides well-formedness, perfect factorisation, exactly-once computation of every iteration point, keep-set satisfaction, and capacity (execution peak and reserved footprint <= size).",
         "No spatial fanout / loop_bounds / fused-loop limits yet (micro-specs have no spatial dimensions, one Einsum).", "5/C03"),
 "C04": ("JoinReport (eval_in_detail=False) vs ModelReport (True) vs TLC execution of the same LoopTree (Trace_Mapping.tla)",
         "Two mapper runs per micro-spec and metric set; rows paired by LoopTree; TLC checks JoinReport = ModelReport for energy and latency exactly and executes the tree as third witness; EDP, usage and every column present in both reports are compared with a float32 allowance.",
         "Join reports carry few per-Einsum columns when run undetailed; only columns present in both reports are compared.", "5/C04"),
 "C16": ("Recorded optima of tolerant vs exact mapper runs validated as SetTolerance steps of ConfigLattice.tla; returned mappings executed by Trace_Mapping.tla",
         "For micro-specs and tolerances {0.01,0.1,0.5} (objective, resource, both) TLC checks opt <= opt' <= (1+t) opt for ENERGY, LATENCY, EDP exactly (rationals) and that every mapping returned under a resource tolerance is valid when executed.",
         "opt is the zero-tolerance observation (its optimality is C01).", "5/C16"),
 "C17": ("Four recorded mapper runs per micro-spec validated as a SetMetrics step of ConfigLattice.tla",
         "TLC checks min energy / min latency / min energy*latency over the ENERGY|LATENCY front against the single-metric optima and EDP-column = energy*latency for every returned row.",
         "Products formed by the harness in exact rational arithmetic; EDP column compared with float32 allowance.", "5/C17"),
 "C18": ("Recorded optima of base vs singly-relaxed micro-specs validated as Relax steps of ConfigLattice.tla; superset lemma checked on Mapspace.tla enumerations",
         "Relaxations: doubled memory size, larger may_keep, smaller keep, imperfect factorisation on; TLC checks opt' <= opt for ENERGY, LATENCY, EDP; role A: relaxed mapspace is a superset of the base mapspace (enumerated by TLC).",
         "Relaxations needing spatial fanout or several Einsums (loop_bounds, fused-loop limit, min_usage) not exercised yet.", "5/C18"),
 "C19": ("Recorded optima of base vs scaled micro-specs validated as Scale* steps of ConfigLattice.tla (exact rationals)",
         "All per-action energies and leak powers times k in {2,4,1/2,3,3/2}: optE' = k optE; all throughputs times k in {2,4,1/2}: optL' = optL/k; workload / Einsum n_instances times k: energy and latency totals times k, validity unchanged (returned mappings executed by Trace_Mapping.tla).",
         "Throughput scales restricted to powers of two so that results stay exactly representable.", "5/C19"),
 "C28": ("Base tables recorded from real result rows; every projection computed by TLC (Breakdown.tla) and compared with the Mappings accessors",
         "For results of the real mapper on 1- and 2-Einsum micro-specs TLC computes all 16 energy, 8 action and 4 latency projections and the usage view from the raw per-Einsum columns; the harness compares with energy()/actions()/latency()/resource_usage() for every flag combination and with the Total columns.",
         "Derived views of one recorded table; float32 allowance on sums.", "5/C28"),
}
NOT_YET = "check not built yet in this round; see DESIGN.md section 5 for the planned TLA+ module"

checks = []
for i in ids:
    if i in CLAIMED:
        t, text, note, ref = CLAIMED[i]
        checks.append({
            "property_id": i,
            "quick_cmd": "./check %s --tier quick" % i,
            "thorough_cmd": "./check %s --tier thorough" % i,
            "evidence_file": "/verif/evidence/%s.json" % i,
            "replay_cmd_template": "./check %s --replay {path}" % i,
            "engine": "tlc",
            "level_claimed": {"category": "model_checking", "text": text, "design_ref": "DESIGN.md " + ref},
            "level_note": note,
            "technique": t,
        })
m = {
 "version": 1,
 "setup_cmd": "./setup.sh",
 "hooks": {
  "guard": "ACCELFORGE_VERIF",
  "enable": "export ACCELFORGE_VERIF=1 (set by ./check); accelforge is imported from /repo's working tree (develop install), nothing to build",
  "baseline_off_cmd": "cd /repo && env -u ACCELFORGE_VERIF /venv/bin/python -m pytest -ra -q -p no:cacheprovider --timeout=900 --continue-on-collection-errors",
  "source_commits": [],
  "add_only": True,
 },
 "engines": [{"name": "tlc", "path": "/opt/veriftools/tla/tla2tools.jar",
              "serves_properties": sorted(CLAIMED), "kind_free_text": "explicit-state model checker for the TLA+ specifications in /verif/spec; all properties are decided by TLC evaluating spec definitions/invariants, bound to the code by replay (spec->code) or trace validation (code->spec)"}],
 "checks": checks,
 "notes": "See DESIGN.md. ./check <id> --tier quick|thorough; exit 0 ok, 1 violation (VIOLATION line + replay file), 2 machinery failure.",
 "not_applicable": [{"property_id": i, "reason": NOT_YET} for i in ids if i not in CLAIMED],
}
json.dump(m, open(os.path.join(HERE, "MANIFEST.json"), "w"), indent=1)
print("claimed", len(checks), "not_applicable", len(m["not_applicable"]))
