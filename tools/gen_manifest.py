#!/usr/bin/env python3
"""Regenerates MANIFEST.json from the table below (single source of truth)."""
import json, os
HERE = os.path.dirname(os.path.dirname(os.path.abspath(__file__)))
props = [json.loads(l) for l in open(os.path.join(HERE, "properties.jsonl"))]
ids = [p["id"] for p in props]

# id -> (technique, level text, level note, design_ref)
CLAIMED = {
 "C11": ("TLA+ definition (Pareto!Mask) evaluated by TLC on enumerated/random matrices, replayed into fast_pareto_mask/makepareto_numpy; SFS algorithm model-checked (ParetoSFS)",
         "TLC enumerates every 3x3 and 4x2 matrix over {0,1,inf} with every min/max/diff goal multiset, and random larger matrices over a float32-adversarial magnitude alphabet; the expected mask is the TLA+ definition; each case is replayed into both entry points in float32 and float64. The algorithm itself is model-checked as a transition system (exact key, rounding key, rounding key with tie-break).",
         "Trusted: TLC, the monotone abstract-value -> float map, JSON export. Bounded: exhaustive only for tiny matrices; larger ones sampled.", "5/C11"),
 "C05": ("TLC constructs and executes LoopTrees (LoopNest operational semantics + CostModel); terminal counters replayed into evaluate_mapping, exact rational comparison",
         "TLC constructs every single-Einsum mapping within bounds (holders at any depth, any loop order, perfect factors, 2-3 memory levels, optional Toll) for generated worlds and EXECUTES it node by node (fill on scope entry, write-back on exit, read-modify-write at the compute, never-written outputs skipped per skip_initial_output_write); CostModel turns values into actions/energy/latency with the documented precedence. Every constructed mapping is replayed into the real evaluate_mapping and per-(component,tensor,action) counts, energy and latency must be exactly equal.",
         "Trusted: TLC, YAML writer, float->Fraction. Bounded: iteration spaces <= 64 points, <= 3 loops per rank variable; projections are single rank variables (no strided/affine sums yet); n_instances = 1.", "5/C05"),
 "C06": ("TLC executes LoopTrees with per-element liveness tracking (LoopNest); peak / streaming footprint / tile sums compared with resource_usage() of evaluate_mapping; lemma Peak<=Footprint<=Tile model-checked",
         "During execution every holder records first/last use per element; TLC reports the execution-time peak per memory, the streaming footprint and the LoopTree tile sum, and checks Peak <= Footprint <= Tile on every explored mapping. The real model's usage*size must lie in [Peak, Tile], equal Peak where both readings agree, and oversubscribed mappings must be rejected (tight worlds).",
         "Single-Einsum nests only so far: fused multi-Einsum mappings, persistent tensors and n_instances are not yet covered. Where the streaming and element readings differ the comparison with the footprint is recorded, not decisive.", "5/C06"),
 "C31": ("TLC executes LoopTrees containing Toll nodes (LoopNest TollDown/TollUp); toll read actions, zero writes, zero occupancy replayed into evaluate_mapping",
         "TLC constructs mappings with a Toll between memories or above the compute, per-tensor directions up/down/up_and_down, executes them and charges one read per value crossing in a configured direction; the real model must report exactly these toll reads (scaled by values per action), no toll writes, no toll occupancy and unchanged memory counts/usage.",
         "The mapper clause (Toll never the outermost holder of a shared tensor in returned mappings) is bound separately on recorded mapper results when the mapper harness is present; single-Einsum model part is bounded as C05.", "5/C31"),
}
NOT_YET = "check not built yet in this round; see DESIGN.md section 5 for the planned TLA+ module"

checks = []
for i in ids:
    if i in CLAIMED:
        t, text, note, ref = CLAIMED[i]
        checks.append({
            "property_id": i,
            "quick_cmd": "./check %s --tier quick" % i,
            "thorough_cmd": "./check %s --tier thorough" % i,
            "evidence_file": "/verif/evidence/%s.json" % i,
            "replay_cmd_template": "./check %s --replay {path}" % i,
            "engine": "tlc",
            "level_claimed": {"category": "model_checking", "text": text, "design_ref": "DESIGN.md " + ref},
            "level_note": note,
            "technique": t,
        })
m = {
 "version": 1,
 "setup_cmd": "./setup.sh",
 "hooks": {
  "guard": "ACCELFORGE_VERIF",
  "enable": "export ACCELFORGE_VERIF=1 (set by ./check); accelforge is imported from /repo's working tree (develop install), nothing to build",
  "baseline_off_cmd": "cd /repo && env -u ACCELFORGE_VERIF /venv/bin/python -m pytest -ra -q -p no:cacheprovider --timeout=900 --continue-on-collection-errors",
  "source_commits": [],
  "add_only": True,
 },
 "engines": [{"name": "tlc", "path": "/opt/veriftools/tla/tla2tools.jar",
              "serves_properties": sorted(CLAIMED), "kind_free_text": "explicit-state model checker for the TLA+ specifications in /verif/spec; all properties are decided by TLC evaluating spec definitions/invariants, bound to the code by replay (spec->code) or trace validation (code->spec)"}],
 "checks": checks,
 "notes": "See DESIGN.md. ./check <id> --tier quick|thorough; exit 0 ok, 1 violation (VIOLATION line + replay file), 2 machinery failure.",
 "not_applicable": [{"property_id": i, "reason": NOT_YET} for i in ids if i not in CLAIMED],
}
json.dump(m, open(os.path.join(HERE, "MANIFEST.json"), "w"), indent=1)
print("claimed", len(checks), "not_applicable", len(m["not_applicable"]))
