#!/usr/bin/env python3
"""tools/seed_table.py  — prints the markdown table of /verif/seeded/*/meta.json (DESIGN.md 11.7)."""
import json, os, glob
base = os.path.join(os.path.dirname(os.path.dirname(os.path.abspath(__file__))), "seeded")
print("| seed | property | change (one line) | needs to manifest | caught by | signature | history |")
print("|---|---|---|---|---|---|---|")
def short(s, n):
    s = " ".join(str(s).split())
    return s if len(s) <= n else s[: n - 1] + "…"
for d in sorted(glob.glob(os.path.join(base, "*"))):
    p = os.path.join(d, "meta.json")
    if not os.path.exists(p):
        print("| %s | | (not yet confirmed) | | | | |" % os.path.basename(d))
        continue
    m = json.load(open(p))
    print("| %s | %s | %s | %s | %s | %s | %s |" % (
        os.path.basename(d), m.get("property", ""), short(m.get("summary", ""), 220).replace("|", "\\|"),
        short(m.get("needs_to_manifest", ""), 200).replace("|", "\\|"),
        ", ".join(m.get("caught_by_checks", [])) or "**missed**",
        short(m.get("violation_signature", ""), 120).replace("|", "\\|"), short(m.get("note", ""), 300).replace("|", "\\|")))
