#!/usr/bin/env python3
"""tools/run_all.py <quick|thorough> <lanes> [timeout_s] [ids...]  -- runs the registered command of every claimed check
(from MANIFEST.json) in <lanes> parallel lanes against /repo; prints id, exit code, wall time, last line.
Log: .work/_runall_<tier>.log; per-check output: .work/_run_<tier>_<ID>.log"""
import json, os, subprocess, sys, time
from concurrent.futures import ThreadPoolExecutor
root = os.path.dirname(os.path.dirname(os.path.abspath(__file__)))
tier, lanes = sys.argv[1], int(sys.argv[2])
tmo = int(sys.argv[3]) if len(sys.argv) > 3 else 7200
ids = sys.argv[4:]
man = json.load(open(os.path.join(root, "MANIFEST.json")))
checks = [c for c in man["checks"] if not ids or c["property_id"] in ids]
os.makedirs(os.path.join(root, ".work"), exist_ok=True)
log = open(os.path.join(root, ".work", "_runall_%s.log" % tier), "a")
def one(c):
    cmd = c["quick_cmd"] if tier == "quick" else c["thorough_cmd"]
    t0 = time.time()
    out = os.path.join(root, ".work", "_run_%s_%s.log" % (tier, c["property_id"]))
    env = dict(os.environ)
    env.setdefault("VERIF_SEED", "1")
    try:
        rc = subprocess.run(cmd, shell=True, cwd=root, stdout=open(out, "w"), stderr=subprocess.STDOUT, timeout=tmo, env=env).returncode
    except subprocess.TimeoutExpired:
        rc = 124
    last = ""
    try:
        last = [l for l in open(out).read().splitlines() if l.strip()][-1][:160]
    except Exception:
        pass
    line = "%s exit=%s wall=%ds %s" % (c["property_id"], rc, time.time() - t0, last)
    print(line, flush=True)
    log.write(line + "\n"); log.flush()
with ThreadPoolExecutor(lanes) as ex:
    list(ex.map(one, checks))
print("done")
