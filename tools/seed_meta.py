#!/usr/bin/env python3
"""tools/seed_meta.py <ID-dir-name> <property> <caught_by: comma list or 'none'> <signature or ''> [note]
writes /verif/seeded/<dir>/meta.json from the agent's meta and the verification logs in /tmp/sv"""
import json, os, sys, re
d, prop, caught, sig = sys.argv[1:5]
note = sys.argv[5] if len(sys.argv) > 5 else ""
base = os.path.join(os.path.dirname(os.path.dirname(os.path.abspath(__file__))), "seeded", d)
am = {}
p = os.path.join(base, "agent_meta.json")
if os.path.exists(p):
    am = json.load(open(p))
def tail(f, n=3):
    try:
        return open(f).read().strip().splitlines()[-n:]
    except Exception:
        return []
meta = {
 "property": prop,
 "summary": am.get("summary", ""),
 "needs_to_manifest": am.get("needs_to_manifest", am.get("needs", "")),
 "agent_tests_run": am.get("agent_tests_run", am.get("tests_run", "")),
 "confirmed_by_me": {
   "how": "scratch worktree of /repo HEAD under /tmp/sv (removed afterwards); git apply patch.diff; "
          "PYTHONPATH=<worktree> /venv/bin/python demo (with change) and PYTHONPATH=/repo (without); "
          "PYTHONPATH=<worktree> ./check <id> --tier quick",
   "demo_with_change": tail("/tmp/sv/%s.demo_mut.log" % d),
   "demo_without_change": tail("/tmp/sv/%s.demo_clean.log" % d, 2),
 },
 "caught_by_checks": [] if caught == "none" else caught.split(","),
 "violation_signature": sig,
 "note": note,
}
json.dump(meta, open(os.path.join(base, "meta.json"), "w"), indent=1)
if os.path.exists(p):
    os.remove(p)
print("wrote", os.path.join(base, "meta.json"))
